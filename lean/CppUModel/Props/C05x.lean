import CppUModel.Proofs.ComposeAlloc
import CppUModel.Props.C04
import CppUModel.Props.C05
/-!
# C05x — the tracked set of the C05 layout model is the record set of the C04 table model

Composition theorems.  They connect

* `Model/AllocLayout.lean` (C05): `allocMemory / deallocMemory / reallocMemory` over byte blocks, all `size_t`
  arithmetic in `BitVec 64` through the regenerated expressions of `Gen/AllocLayoutConstants.lean`; its list
  `tracked` of records (block id, size, allocator family, layout, allocation number), and
* `Model/LeakDetector.lean` (C04/C06): `alloc / dealloc / realloc` on the hash table, sizes as `Nat` with explicit
  `wrap64`, constants from `Gen/LeakDetectorConstants.lean`.

What is shared, and proved here:
* the **size arithmetic** (two independent translations of the same C++ expressions): overflow guard, aligned size,
  size with corruption info, and the size requested from the platform are equal for every `size_t` value
  (`sizes_agree`), and the guard pattern written behind the user bytes is the same (`guard_pattern_agrees`);
* the **record set**: `R5 al s t` — the table's records and the layout model's `tracked` list agree as multisets on
  (address, size, allocation number, layout flag, allocator), and on the next allocation number — is preserved by
  every completed operation (`alloc_agrees`, `dealloc_agrees`, `realloc_agrees`), including allocation failure,
  failed platform realloc (old record kept), `realloc(NULL, n)`, and release of unknown pointers.

Not shared: the table model has no build without guard bytes (`noCheckCfg`), the layout model has no periods, stages
or type-checking switch; a `reallocMemory` whose accounting-node allocation fails is undefined behaviour in the layout
model (known finding c05-node-alloc-null) and is outside `Completed`.
-/
namespace Compose.C05x
open LeakDetector Compose.Alloc Compose.Leak
open AllocLayout (defaultCfg Ans RAns Outcome W NodeImage)

/-! ## size arithmetic -/

/-- **The two translations of the size expressions agree** for every `size_t` value (default build).  Connects
    `Gen/AllocLayoutConstants.lean` (BitVec 64, used by C05) with `Model/LeakDetector.lean`'s `wrap64` arithmetic over
    `Gen/LeakDetectorConstants.lean` (used by C04/C06): the overflow guards of `allocMemory` and `reallocMemory`, the
    padded size, and the size passed to the platform allocator / `PlatformSpecificRealloc` in both layouts. -/
theorem sizes_agree (size : W) (sep : Bool) :
    AllocLayout.rejectsAlloc defaultCfg size = sizeOverflows size.toNat ∧
    AllocLayout.rejectsRealloc defaultCfg size = sizeOverflows size.toNat ∧
    (AllocLayout.swci defaultCfg size).toNat = sizeWithCorruptionInfo size.toNat ∧
    (AllocLayout.allocReq defaultCfg sep size).toNat = requestSize size.toNat sep ∧
    (AllocLayout.reallocReq defaultCfg sep size).toNat = requestSize size.toNat sep :=
  ⟨rejectsAlloc_eq size, rejectsAlloc_eq size, swci_toNat_eq size, allocReq_toNat_eq sep size, allocReq_toNat_eq sep size⟩

/-- the constants the two extractors read from the source are the same -/
theorem constants_agree :
    Gen.AllocLayout.sizeofNode = Gen.LeakDetector.nodeStructBytes ∧
    Gen.AllocLayout.corruptionBufferSizeCheck = Gen.LeakDetector.guardSize ∧
    Gen.AllocLayout.guardBytes = Gen.LeakDetector.guardBytes := by decide

/-- the bytes `addMemoryCorruptionInformation` writes are the same in both models -/
theorem guard_pattern_agrees : AllocLayout.guardImage defaultCfg = guardPattern := by decide

/-- The platform is asked for the same number of bytes.  Connects the first event of `AllocLayout.allocMemory` with
    the first event of `LeakDetector.alloc` for any size the guard accepts and any answer of the platform. -/
theorem alloc_requests_same_size (img : NodeImage) (t : AllocLayout.State) (s : State) (a : Allocator) (fam : Nat)
    (size : W) (sep0 : Bool) (a1 a2 : Ans) (file : String) (line : Nat) (nodeOk : Bool) (fill : UInt8)
    (hacc : AllocLayout.rejectsAlloc defaultCfg size = false) :
    (AllocLayout.allocMemory defaultCfg img t fam size sep0 a1 a2).2.1.head? =
        some (.ualloc (AllocLayout.allocReq defaultCfg sep0 size) a1.id) ∧
    (alloc s a size.toNat file line sep0 a1.id nodeOk fill).2.head? =
        some (.ualloc (AllocLayout.allocReq defaultCfg sep0 size).toNat) := by
  have hfs : AllocLayout.forcedSep defaultCfg sep0 = sep0 := by simp [AllocLayout.forcedSep, defaultCfg]
  have ho : sizeOverflows size.toNat = false := by rw [← rejectsAlloc_eq]; exact hacc
  constructor
  · unfold AllocLayout.allocMemory
    rw [hfs]
    simp only [hacc, Bool.false_eq_true, if_false]
    cases a1 with
    | null => rfl
    | fail => rfl
    | block id bytes =>
      cases sep0 <;> cases a2 <;>
        simp [AllocLayout.account, AllocLayout.store, Ans.id] <;> (repeat' split) <;> simp
  · rw [allocReq_toNat_eq]
    unfold alloc
    simp only [ho, Bool.false_eq_true, if_false]
    split
    · rfl
    · split <;> rfl

/-! ## the record set -/

abbrev Key := Nat × Nat × Nat × Bool × Allocator

def nodeKey (n : Node) : Key := (n.addr, n.size, n.number, n.sepNode, n.allocator)

/-- `al` says which allocator object stands behind a family number of the layout model (0 new, 1 new[], 2 malloc) -/
def recKey (al : Nat → Allocator) (r : AllocLayout.Rec) : Key := (r.id, r.size.toNat, r.number, r.sep, al r.fam)

/-- The relation between the table and the layout model's state. -/
structure R5 (al : Nat → Allocator) (s : State) (t : AllocLayout.State) : Prop where
  inv : s.Inv
  recs : (s.nodes.map nodeKey).Perm (t.tracked.map (recKey al))
  seq : s.seq = t.seq

theorem R5.dead_iff {al : Nat → Allocator} {s : State} {t : AllocLayout.State} (h : R5 al s t) (id : Nat) :
    isLive s id = false ↔ ∀ r ∈ t.tracked, r.id ≠ id := by
  rw [isLive_false_iff]
  constructor
  · intro hn r hr e
    have : recKey al r ∈ s.nodes.map nodeKey := h.recs.mem_iff.mpr (List.mem_map_of_mem hr)
    obtain ⟨n, hnm, hk⟩ := List.mem_map.mp this
    have : n.addr = r.id := congrArg (·.1) hk
    exact hn n hnm (this.trans e)
  · intro hr n hn e
    have : nodeKey n ∈ t.tracked.map (recKey al) := h.recs.mem_iff.mp (List.mem_map_of_mem hn)
    obtain ⟨r, hrm, hk⟩ := List.mem_map.mp this
    have : r.id = n.addr := congrArg (·.1) hk
    exact hr r hrm (this.trans e)

theorem R5.ids_nodup {al : Nat → Allocator} {s : State} {t : AllocLayout.State} (h : R5 al s t) :
    (t.tracked.map (·.id)).Nodup := by
  have hp : ((s.nodes.map nodeKey).map (·.1)).Perm ((t.tracked.map (recKey al)).map (·.1)) := h.recs.map _
  rw [List.map_map, List.map_map] at hp
  exact hp.nodup_iff.mp h.inv.distinct

/-- what the table model additionally needs to know about a call -/
structure Env where
  file : String
  line : Nat
  fill : UInt8
deriving Repr, Inhabited

/-- the pointer a layout-model operation returned, as the table model reports it (`Ev.ret`) -/
def retOf : Outcome → Nat
  | .ptr id => id
  | _ => 0

theorem filter_map_key (L : List Node) (id : Nat) :
    (L.filter (fun n => n.addr != id)).map nodeKey = (L.map nodeKey).filter (fun k => k.1 != id) := by
  rw [List.filter_map]; rfl

theorem filter_map_rec (al : Nat → Allocator) (L : List AllocLayout.Rec) (id : Nat) :
    (L.filter (fun r => r.id != id)).map (recKey al) = (L.map (recKey al)).filter (fun k => k.1 != id) := by
  rw [List.filter_map]; rfl

/-- removing the record of block `id` on both sides -/
theorem removed_perm {al : Nat → Allocator} {s : State} {t : AllocLayout.State} (h : R5 al s t) (id : Nat)
    (o : AllocLayout.Rec) (rest : List AllocLayout.Rec) (hrem : AllocLayout.removeRec t.tracked id = some (o, rest)) :
    ((s.nodes.filter (fun n => n.addr != id)).map nodeKey).Perm (rest.map (recKey al)) := by
  obtain ⟨hp, hid⟩ := AllocLayout.removeRec_perm t.tracked id o rest hrem
  have hnd : ((o :: rest).map (·.id)).Nodup := (hp.map _).nodup_iff.mp h.ids_nodup
  rw [List.map_cons, List.nodup_cons] at hnd
  have hrest : rest.filter (fun r => r.id != id) = rest := by
    rw [List.filter_eq_self]
    intro r hr
    have : r.id ≠ id := by
      intro e; apply hnd.1; rw [hid, ← e]; exact List.mem_map_of_mem hr
    simpa using this
  have h1 : ((s.nodes.map nodeKey).filter (fun k => k.1 != id)).Perm (((o :: rest).map (recKey al)).filter (fun k => k.1 != id)) :=
    (h.recs.trans (hp.map _)).filter _
  rw [← filter_map_key, ← filter_map_rec] at h1
  have h2 : (o :: rest).filter (fun r => r.id != id) = rest := by
    rw [List.filter_cons_of_neg (by simp [hid]), hrest]
  rw [h2] at h1
  exact h1

/-! ## allocation -/

/-- **`allocMemory` agrees.**  Connects `AllocLayout.allocMemory` (C05) with `LeakDetector.step (.alloc …)` (C04),
    the platform's answers being the same on both sides (`result` = the block's address or 0, `nodeOk` = a node block
    was available): every completed call — success, over-large size, platform NULL, no memory for the accounting node —
    keeps the relation, the C04 environment hypothesis `FreshAddr` holds, and both return the same pointer. -/
theorem alloc_agrees (al : Nat → Allocator) (e : Env) {s : State} {t : AllocLayout.State} (h : R5 al s t)
    (img : NodeImage) (fam : Nat) (size : W) (sep0 : Bool) (a1 a2 : Ans)
    (hc : Completed (AllocLayout.allocMemory defaultCfg img t fam size sep0 a1 a2).2.2)
    (hfresh : ∀ id b, a1 = .block id b → id ≠ 0 ∧ ∀ r ∈ t.tracked, r.id ≠ id) :
    FreshAddr s (.alloc (al fam) size.toNat e.file e.line sep0 a1.id (!a2.isNull) e.fill) ∧
    R5 al (step s (.alloc (al fam) size.toNat e.file e.line sep0 a1.id (!a2.isNull) e.fill)).1
      (AllocLayout.allocMemory defaultCfg img t fam size sep0 a1 a2).1 ∧
    (step s (.alloc (al fam) size.toNat e.file e.line sep0 a1.id (!a2.isNull) e.fill)).2.getLast? =
      some (.ret (retOf (AllocLayout.allocMemory defaultCfg img t fam size sep0 a1 a2).2.2)) := by
  have hspec := allocMemory_spec img t fam size sep0 a1 a2 hc
  have hf : FreshAddr s (.alloc (al fam) size.toNat e.file e.line sep0 a1.id (!a2.isNull) e.fill) := by
    cases a1 with
    | null => exact Or.inl rfl
    | fail => exact Or.inl rfl
    | block id b => exact Or.inr ((h.dead_iff id).mpr (hfresh id b rfl).2)
  refine ⟨hf, ?_⟩
  by_cases hS : AllocSucceeds defaultCfg size sep0 a1 a2
  · obtain ⟨⟨nid, htr⟩, hseq, hout⟩ := hspec.1 hS
    obtain ⟨hrej, hnn, hnode⟩ := hS
    have ho : sizeOverflows size.toNat = false := by rw [← rejectsAlloc_eq]; exact hrej
    have hid : a1.id ≠ 0 := by
      cases a1 with
      | null => cases hnn
      | fail => cases hnn
      | block id b => exact (hfresh id b rfl).1
    have hn' : (sep0 && a2.isNull) = false := by
      cases hs : sep0
      · rfl
      · simp [hnode hs]
    have hstep : step s (.alloc (al fam) size.toNat e.file e.line sep0 a1.id (!a2.isNull) e.fill) =
        (storeLeakInformation s a1.id size.toNat (al fam) e.file e.line sep0 e.fill,
          [.ualloc (requestSize size.toNat sep0)] ++ nodeAllocEvs sep0 ++ [.ret a1.id]) := by
      simp [step, alloc, ho, hid, hn', Bool.not_not]
    rw [hstep, hout]
    refine ⟨{ inv := ?_, recs := ?_, seq := ?_ }, ?_⟩
    · have hl : isLive s a1.id = false := by
        rcases hf with hq | hq
        · exact absurd hq hid
        · exact hq
      exact store_inv h.inv _ _ _ _ _ _ _ hid ((isLive_false_iff _).mp hl)
    · rw [htr, List.map_cons]
      refine ((nodes_store h.inv a1.id size.toNat (al fam) e.file e.line sep0 e.fill).map nodeKey).trans ?_
      rw [List.map_cons]
      have : nodeKey (Spec.newNode (abs s) a1.id size.toNat (al fam) e.file e.line sep0 e.fill) =
          recKey al ⟨a1.id, size, fam, sep0, nid, t.seq⟩ := by
        simp [nodeKey, recKey, Spec.newNode, abs, h.seq]
      rw [this]
      exact List.Perm.cons _ h.recs
    · rw [hseq]; show s.seq + 1 = t.seq + 1; rw [h.seq]
    · cases sep0 <;> simp [nodeAllocEvs, retOf]
  · obtain ⟨htr, hseq, hout⟩ := hspec.2 hS
    have hfail : sizeOverflows size.toNat = true ∨ a1.id = 0 ∨ (sep0 = true ∧ (!a2.isNull) = false) := by
      unfold AllocSucceeds at hS
      by_cases h1 : AllocLayout.rejectsAlloc defaultCfg size = true
      · left; rw [← rejectsAlloc_eq]; exact h1
      · by_cases h2 : a1.isNull = true
        · right; left
          cases a1 with
          | null => rfl
          | fail => rfl
          | block id b => cases h2
        · right; right
          have h1' : AllocLayout.rejectsAlloc defaultCfg size = false := by simpa using h1
          have h2' : a1.isNull = false := by simpa using h2
          by_cases hs : sep0 = true
          · refine ⟨hs, ?_⟩
            cases hn : a2.isNull
            · exact absurd ⟨h1', h2', fun _ => hn⟩ hS
            · rfl
          · exact absurd ⟨h1', h2', fun e => absurd e hs⟩ hS
    have hld := alloc_failure_tracks_nothing s (al fam) size.toNat e.file e.line sep0 a1.id (!a2.isNull) e.fill hfail
    show R5 al (alloc s (al fam) size.toNat e.file e.line sep0 a1.id (!a2.isNull) e.fill).1 _ ∧
      (alloc s (al fam) size.toNat e.file e.line sep0 a1.id (!a2.isNull) e.fill).2.getLast? = _
    rw [hld.1, hld.2, hout]
    exact ⟨{ inv := h.inv, recs := by rw [htr]; exact h.recs, seq := by rw [hseq]; exact h.seq }, rfl⟩

/-! ## release -/

/-- **`deallocMemory` agrees.**  Connects `AllocLayout.deallocMemory` with `LeakDetector.step (.dealloc …)`: NULL,
    an unknown pointer, a clean release, a release with allocator mismatch or damaged guard bytes — in every case the
    record of exactly that block (if any) leaves both record sets. -/
theorem dealloc_agrees (al : Nat → Allocator) (e : Env) {s : State} {t : AllocLayout.State} (h : R5 al s t)
    (a : Allocator) (fam : Nat) (ptr : Option Nat) (sep0 : Bool) :
    R5 al (step s (.dealloc a (ptr.getD 0) e.file e.line sep0)).1 (AllocLayout.deallocMemory defaultCfg t fam ptr sep0).1 := by
  have hspec := deallocMemory_spec defaultCfg t fam ptr sep0
  have hsc := dealloc_scalars s a (ptr.getD 0) e.file e.line sep0
  show R5 al (dealloc s a (ptr.getD 0) e.file e.line sep0).1 _
  refine { inv := dealloc_inv h.inv _ _ _ _ _, recs := ?_, seq := by rw [hsc.2, hspec.1]; exact h.seq }
  rw [nodes_dealloc h.inv]
  cases ptr with
  | none =>
    simp only [Option.getD_none] at hspec ⊢
    rw [hspec.2, filter_ne_self_of_absent (L := s.nodes) (fun n hn => h.inv.nonnull n hn)]
    exact h.recs
  | some id =>
    simp only [Option.getD_some] at hspec ⊢
    cases hrem : AllocLayout.removeRec t.tracked id with
    | none =>
      rw [hrem] at hspec
      rw [hspec.2, filter_ne_self_of_absent (L := s.nodes)
        ((isLive_false_iff id).mp ((h.dead_iff id).mpr (removeRec_none _ _ hrem)))]
      exact h.recs
    | some p =>
      obtain ⟨o, rest⟩ := p
      rw [hrem] at hspec
      rw [hspec.2]
      exact removed_perm h id o rest hrem

/-- A release is "Deallocating non-allocated memory" in both models for the same pointers (non-NULL, not tracked). -/
theorem dealloc_misuse_agrees (al : Nat → Allocator) (e : Env) {s : State} {t : AllocLayout.State} (h : R5 al s t)
    (a : Allocator) (fam : Nat) (id : Nat) (sep0 : Bool) (hz : id ≠ 0) :
    (AllocLayout.deallocMemory defaultCfg t fam (some id) sep0).2.1 = [.misuse "nonallocated"] ↔
      firstFail (step s (.dealloc a id e.file e.line sep0)).2 = some .nonAllocated := by
  show _ ↔ firstFail (dealloc s a id e.file e.line sep0).2 = some .nonAllocated
  rw [free_non_allocated_iff s h.inv, h.dead_iff]
  simp only [ne_eq, hz, not_false_eq_true, true_and]
  unfold AllocLayout.deallocMemory
  simp only
  cases hrem : AllocLayout.removeRec t.tracked id with
  | none => simp only [true_iff]; exact removeRec_none _ _ hrem
  | some p =>
    obtain ⟨o, rest⟩ := p
    obtain ⟨hp, hid⟩ := AllocLayout.removeRec_perm t.tracked id o rest hrem
    have hmem : o ∈ t.tracked := hp.mem_iff.mpr (List.mem_cons_self ..)
    simp only
    constructor
    · intro hev
      exfalso
      cases hck : AllocLayout.checkForCorruption defaultCfg t.mem o fam (AllocLayout.forcedSep defaultCfg sep0) with
      | mk m1 r2 =>
        obtain ⟨evs, ub⟩ := r2
        rw [hck] at hev
        unfold AllocLayout.checkForCorruption at hck
        cases ub with
        | false =>
          simp only at hev
          have : (evs ++ [AllocLayout.Ev.ufree id]).getLast? = some (.ufree id) := by simp
          rw [hev] at this
          simp at this
        | true =>
          simp only at hev
          split at hck
          · cases hck
          · split at hck
            · cases hck
            · split at hck
              · split at hck
                · cases hck
                · cases hck; cases hev
              · cases hck
    · intro hall
      exact absurd hid (hall o hmem)

/-! ## reallocation -/

/-- **`reallocMemory` agrees.**  Connects `AllocLayout.reallocMemory` with `LeakDetector.step (.realloc …)`,
    `result` being the address `PlatformSpecificRealloc` answered with (0 = NULL): over-large size, `realloc(NULL, n)`
    (either outcome), an unknown pointer, a moved block, and a FAILED platform realloc (the old record stays, with
    its size, number and allocator) all keep the relation. -/
theorem realloc_agrees (al : Nat → Allocator) (e : Env) {s : State} {t : AllocLayout.State} (h : R5 al s t)
    (img : NodeImage) (fam : Nat) (ptr : Option Nat) (size : W) (sep0 : Bool) (ar : RAns) (a2 : Ans)
    (hc : Completed (AllocLayout.reallocMemory defaultCfg img t fam ptr size sep0 ar a2).2.2)
    (hptr : ptr ≠ some 0)
    (hfresh : ∀ nid nb, ar = .moved nid nb → nid ≠ 0 ∧ (ptr = some nid ∨ ∀ r ∈ t.tracked, r.id ≠ nid)) :
    FreshAddr s (.realloc (al fam) (ptr.getD 0) size.toNat e.file e.line sep0 ar.id e.fill) ∧
    R5 al (step s (.realloc (al fam) (ptr.getD 0) size.toNat e.file e.line sep0 ar.id e.fill)).1
      (AllocLayout.reallocMemory defaultCfg img t fam ptr size sep0 ar a2).1 := by
  have hspec := reallocMemory_spec img t fam ptr size sep0 ar a2 hc
  have hf : FreshAddr s (.realloc (al fam) (ptr.getD 0) size.toNat e.file e.line sep0 ar.id e.fill) := by
    cases ar with
    | null => exact Or.inl rfl
    | moved nid nb =>
      rcases (hfresh nid nb rfl).2 with hq | hq
      · exact Or.inr (Or.inl (by rw [hq]; rfl))
      · exact Or.inr (Or.inr ((h.dead_iff nid).mpr hq))
  refine ⟨hf, ?_⟩
  have hinv : (step s (.realloc (al fam) (ptr.getD 0) size.toNat e.file e.line sep0 ar.id e.fill)).1.Inv :=
    step_inv h.inv _ hf
  show R5 al (LeakDetector.realloc s (al fam) (ptr.getD 0) size.toNat e.file e.line sep0 ar.id e.fill).1 _
  have hinv' : (LeakDetector.realloc s (al fam) (ptr.getD 0) size.toNat e.file e.line sep0 ar.id e.fill).1.Inv := hinv
  unfold ReallocPost at hspec
  have same : ∀ {t' : AllocLayout.State}, t'.tracked = t.tracked → t'.seq = t.seq →
      (LeakDetector.realloc s (al fam) (ptr.getD 0) size.toNat e.file e.line sep0 ar.id e.fill).1 = s → R5 al
        (LeakDetector.realloc s (al fam) (ptr.getD 0) size.toNat e.file e.line sep0 ar.id e.fill).1 t' := by
    intro t' h1 h2 h3
    rw [h3]
    exact { inv := h.inv, recs := by rw [h1]; exact h.recs, seq := by rw [h2]; exact h.seq }
  cases hrej : AllocLayout.rejectsRealloc defaultCfg size with
  | true =>
    rw [hrej] at hspec
    simp only [if_true] at hspec
    have ho : sizeOverflows size.toNat = true := by rw [← rejectsAlloc_eq]; exact hrej
    exact same hspec.1 hspec.2.1 (ld_realloc_unchanged _ _ _ _ _ _ _ _ _ (Or.inl ho))
  | false =>
    rw [hrej] at hspec
    simp only [Bool.false_eq_true, if_false] at hspec
    have ho : sizeOverflows size.toNat = false := by rw [← rejectsAlloc_eq]; exact hrej
    cases ptr with
    | none =>
      cases ar with
      | null =>
        simp only at hspec
        exact same hspec.1 hspec.2.1 (ld_realloc_unchanged _ _ _ _ _ _ _ _ _ (Or.inr (Or.inl ⟨rfl, rfl⟩)))
      | moved nid nb =>
        simp only at hspec
        obtain ⟨_, ⟨k, htr⟩, hseq, _⟩ := hspec
        have hnz := (hfresh nid nb rfl).1
        have hld := ld_realloc_null_moved h.inv (al fam) size.toNat e.file e.line sep0 nid e.fill ho hnz
        refine { inv := hinv', recs := ?_, seq := ?_ }
        · show ((LeakDetector.realloc s (al fam) 0 size.toNat e.file e.line sep0 nid e.fill).1.nodes.map nodeKey).Perm _
          rw [htr, List.map_cons]
          refine (hld.1.map nodeKey).trans ?_
          rw [List.map_cons]
          have : nodeKey (Spec.newNode (abs s) nid size.toNat (al fam) e.file e.line sep0 e.fill) =
              recKey al ⟨nid, size, fam, sep0, k, t.seq⟩ := by
            simp [nodeKey, recKey, Spec.newNode, abs, h.seq]
          rw [this]
          exact List.Perm.cons _ h.recs
        · show (LeakDetector.realloc s (al fam) 0 size.toNat e.file e.line sep0 nid e.fill).1.seq = _
          rw [hld.2, hseq, h.seq]
    | some id =>
      have hidz : id ≠ 0 := fun e => hptr (by rw [e])
      simp only [Option.getD_some] at hinv' same ⊢
      simp only at hspec
      cases hrem : AllocLayout.removeRec t.tracked id with
      | none =>
        rw [hrem] at hspec
        simp only at hspec
        have hdead : isLive s id = false := (h.dead_iff id).mpr (removeRec_none _ _ hrem)
        have hnone : s.table.retrieveNode id = none := by
          rw [retrieve_none_iff h.inv]; exact (isLive_false_iff id).mp hdead
        exact same hspec.1 hspec.2.1 (ld_realloc_unchanged _ _ _ _ _ _ _ _ _ (Or.inr (Or.inr ⟨hidz, hnone⟩)))
      | some p =>
        obtain ⟨o, rest⟩ := p
        rw [hrem] at hspec
        obtain ⟨hp, hid⟩ := AllocLayout.removeRec_perm t.tracked id o rest hrem
        have hmem : o ∈ t.tracked := hp.mem_iff.mpr (List.mem_cons_self ..)
        -- the table's record of that block
        have hkey : recKey al o ∈ s.nodes.map nodeKey := h.recs.mem_iff.mpr (List.mem_map_of_mem hmem)
        obtain ⟨n, hnm, hnk⟩ := List.mem_map.mp hkey
        have hnaddr : n.addr = id := (congrArg (·.1) hnk).trans hid
        have hret : s.table.retrieveNode id = some n := (retrieve_some_iff h.inv).mpr ⟨hnm, hnaddr⟩
        have hrestp := removed_perm h id o rest hrem
        cases ar with
        | null =>
          simp only at hspec
          obtain ⟨_, ⟨k, htr⟩, hseq, _⟩ := hspec
          have hld := ld_realloc_failed h.inv (al fam) id size.toNat e.file e.line sep0 e.fill n hret ho
          refine { inv := hinv', recs := ?_, seq := hld.2.trans (by rw [hseq, h.seq]) }
          rw [htr, List.map_cons]
          refine (hld.1.map nodeKey).trans ?_
          rw [List.map_cons]
          have : nodeKey { n with sepNode := sep0 } = recKey al { o with sep := sep0, nodeId := k } := by
            have h1 : n.addr = o.id := congrArg (·.1) hnk
            have h2 : n.size = o.size.toNat := congrArg (·.2.1) hnk
            have h3 : n.number = o.number := congrArg (·.2.2.1) hnk
            have h5 : n.allocator = al o.fam := congrArg (·.2.2.2.2) hnk
            simp [nodeKey, recKey, h1, h2, h3, h5]
          rw [this]
          exact List.Perm.cons _ hrestp
        | moved nid nb =>
          simp only at hspec
          obtain ⟨_, ⟨k, htr⟩, hseq, _⟩ := hspec
          have hnz := (hfresh nid nb rfl).1
          have hld := ld_realloc_moved h.inv (al fam) id size.toNat e.file e.line sep0 nid e.fill n hret ho hnz
          refine { inv := hinv', recs := ?_, seq := hld.2.trans (by rw [hseq, h.seq]) }
          rw [htr, List.map_cons]
          refine (hld.1.map nodeKey).trans ?_
          rw [List.map_cons]
          have : nodeKey (Spec.newNode (abs s) nid size.toNat (al fam) e.file e.line sep0 e.fill) =
              recKey al ⟨nid, size, fam, sep0, k, t.seq⟩ := by
            simp [nodeKey, recKey, Spec.newNode, abs, h.seq]
          rw [this]
          exact List.Perm.cons _ hrestp

/-- the empty states are related -/
theorem init_related (al : Nat → Allocator) (hp : Nat) (h : 0 < hp) : R5 al (State.init hp) {} :=
  { inv := inv_init hp h,
    recs := by
      have : (State.init hp).nodes = [] := by simp [State.nodes, Table.flat, State.init, Table.empty]
      rw [this]; exact List.Perm.refl _
    seq := rfl }

/-- Sizes and ids: the layout model's `trackedSet` (C05's observable) is the table's `(address, size)` set. -/
theorem tracked_set_agrees {al : Nat → Allocator} {s : State} {t : AllocLayout.State} (h : R5 al s t) :
    (s.nodes.map (fun n => (n.addr, n.size))).Perm (t.trackedSet.map (fun p => (p.1, p.2.toNat))) := by
  have := h.recs.map (fun k : Key => (k.1, k.2.1))
  simp only [List.map_map] at this
  unfold AllocLayout.State.trackedSet
  rw [List.map_map]
  exact this

/-! ## non-vacuity: one history run through both models -/

def exAl : Nat → Allocator
  | 0 => .plain 1 "Standard New Allocator" "new" "delete"
  | 1 => .plain 2 "Standard New [] Allocator" "new []" "delete []"
  | _ => .plain 3 "Standard Malloc Allocator" "malloc" "free"

def exE : Env := { file := "f.c", line := 1, fill := 0 }

open AllocLayout in
/-- `malloc(10)` (separate node), `new char[4]` (inline node, same bucket), a failing `realloc` of the first block, a
    moving `realloc`, `delete[]` of the second, `free` of an unknown pointer -/
def exT1 : AllocLayout.State :=
  (allocMemory defaultCfg img0 {} 2 10#64 true (.block 1168 (List.replicate 16 0)) (.block 5000 (List.replicate 64 0))).1
def exS1 : State := (step (State.init 73) (.alloc (exAl 2) 10 "f.c" 1 true 1168 true 0)).1

theorem ex1 : R5 exAl exS1 exT1 :=
  (alloc_agrees exAl exE (init_related exAl 73 (by decide)) AllocLayout.img0 2 10#64 true
    (.block 1168 (List.replicate 16 0)) (.block 5000 (List.replicate 64 0)) (by decide)
    (by intro id b hb; cases hb; exact ⟨by decide, by decide⟩)).2.1

open AllocLayout in
def exT2 : AllocLayout.State := (allocMemory defaultCfg img0 exT1 1 4#64 false (.block 1241 (List.replicate 72 0)) .null).1
def exS2 : State := (step exS1 (.alloc (exAl 1) 4 "f.c" 1 false 1241 false 0)).1

theorem ex2 : R5 exAl exS2 exT2 :=
  (alloc_agrees exAl exE ex1 AllocLayout.img0 1 4#64 false (.block 1241 (List.replicate 72 0)) .null (by decide)
    (by intro id b hb; cases hb; exact ⟨by decide, by decide⟩)).2.1

open AllocLayout in
/-- the platform realloc fails: the old record stays -/
def exT3 : AllocLayout.State :=
  (reallocMemory defaultCfg img0 exT2 2 (some 1168) 100#64 true .null (.block 5001 (List.replicate 64 0))).1
def exS3 : State := (step exS2 (.realloc (exAl 2) 1168 100 "f.c" 1 true 0 0)).1

theorem ex3 : R5 exAl exS3 exT3 :=
  (realloc_agrees exAl exE ex2 AllocLayout.img0 2 (some 1168) 100#64 true .null (.block 5001 (List.replicate 64 0))
    (by decide) (by decide) (by intro nid nb hb; cases hb)).2

open AllocLayout in
/-- the platform realloc moves the block to 1314 (same bucket as 1168 and 1241) -/
def exT4 : AllocLayout.State :=
  (reallocMemory defaultCfg img0 exT3 2 (some 1168) 20#64 true (.moved 1314 (List.replicate 24 0))
    (.block 5002 (List.replicate 64 0))).1
def exS4 : State := (step exS3 (.realloc (exAl 2) 1168 20 "f.c" 1 true 1314 0)).1

theorem ex4 : R5 exAl exS4 exT4 :=
  (realloc_agrees exAl exE ex3 AllocLayout.img0 2 (some 1168) 20#64 true (.moved 1314 (List.replicate 24 0))
    (.block 5002 (List.replicate 64 0)) (by decide) (by decide)
    (by intro nid nb hb; cases hb; exact ⟨by decide, Or.inr (by decide)⟩)).2

/-- a concrete non-trivial related pair, after a release on top -/
example : R5 exAl (step exS4 (.dealloc (exAl 1) 1241 "f.c" 1 false)).1
    (AllocLayout.deallocMemory defaultCfg exT4 1 (some 1241) false).1 :=
  dealloc_agrees exAl exE ex4 (exAl 1) 1 (some 1241) false

example : exT4.trackedSet = [(1314, 20#64), (1241, 4#64)] := by decide
example : exS4.nodes.map (fun n => (n.addr, n.size, n.number)) = [(1314, 20, 3), (1241, 4, 2)] := by decide
example : exT3.trackedSet = [(1168, 10#64), (1241, 4#64)] := by decide
example : exS3.nodes.map (fun n => (n.addr, n.size, n.number)) = [(1168, 10, 1), (1241, 4, 2)] := by decide
-- the sizes asked from the platform: 16 bytes for malloc(10) with a separate node, 72 for new char[4] with an inline node
example : (AllocLayout.allocReq defaultCfg true 10#64).toNat = 16 ∧ requestSize 10 true = 16 ∧
    (AllocLayout.allocReq defaultCfg false 4#64).toNat = 72 ∧ requestSize 4 false = 72 := by decide
-- a size whose bookkeeping wraps `size_t` is refused by both
example : AllocLayout.rejectsAlloc defaultCfg (BitVec.ofNat 64 (2^64 - 69)) = true ∧ sizeOverflows (2^64 - 69) = true := by decide

end Compose.C05x
