import CppUModel.Proofs.ThreadSafeOwn
/-!
# C10 — thread-safe allocation mode: schedule-independent accounting, no hang

Property theorems only.  Model: `CppUModel/Model/ThreadSafe.lean` (from
`src/CppUTest/MemoryLeakWarningPlugin.cpp`, `SimpleMutex.cpp`, the detector operations of
`MemoryLeakDetector.cpp`); vocabulary: `CppUModel/Spec/ThreadSafe.lean`; regenerated switch table:
`CppUModel/Gen/ThreadSafeWiring.lean`.

Carried here: the lock discipline (the regenerated constructor / destructor / release / fail statement
lists executed as a state machine over mutex and flag), the wiring obligation over the regenerated
table, and schedule independence of the accounting for interleavings of whole wrappers, for any
number of threads and operations.  NOT carried (runtime facts, observed by `h_c10` under
ThreadSanitizer with forced pre-emption): absence of data races in the compiled code, pthread
mutex semantics.
-/
namespace ThreadSafe
open Gen.ThreadSafe

/-! ## wiring (regenerated from the source on every run) -/

/-- Every allocation entry point goes through a switched pointer; the thread-safe switch assigns
    all of them, each to a function whose first statement takes the scoped lock and which does the
    same detector operations as the unlocked version.  (`decide` over `Gen/ThreadSafeWiring.lean`.) -/
theorem wiring_complete : WiringComplete = true := by decide

/-- non-vacuity of the table: eleven pointers, and the entry points include the sized and nothrow forms -/
theorem wiring_nonempty : 11 ≤ fptrs.length ∧ 21 ≤ entries.length ∧ threadSafeOn.length = fptrs.length := by decide

/-! ## save / restore of the pointer table (regenerated copy lists) -/

/-- the copy lists only mention declared variables; one saved copy per pointer -/
theorem copies_well_formed : copiesWellFormed = true := by decide +kernel

/-- `restoreNewDeleteOverloads (saveAndDisableNewDeleteOverloads s)` puts every one of the eleven
    pointers back where it was and the counter back to its value — for the thread-safe
    configuration (the one the property is about), and for the default and the switched-off one.
    A copy dropped from either function breaks this obligation. -/
theorem save_restore_roundtrip :
    ∀ s ∈ [threadSafeConfig, defaultConfig, offConfig],
      s.save.restore.pointers = s.pointers ∧ s.save.restore.counter = s.counter := by decide +kernel

/-- in particular every pointer is still on a function that locks first -/
theorem threadsafe_survives_save_restore : threadSafeConfig.save.restore.allLocked = true := by decide +kernel

/-- between save and restore the overloads are off -/
theorem save_disables : threadSafeConfig.save.pointers = offConfig.pointers := by decide +kernel

/-- nested cycles (only the outermost pair copies) and repeated cycles (the saved copies then hold
    the thread-safe functions) -/
theorem save_restore_nested_and_repeated :
    threadSafeConfig.save.save.restore.restore.pointers = threadSafeConfig.pointers ∧
    threadSafeConfig.save.restore.save.restore.pointers = threadSafeConfig.pointers ∧
    threadSafeConfig.save.restore.defaultOn.threadSafeOn.save.restore.allLocked = true := by decide +kernel

/-- the fresh-process history: thread-safe mode switched on before the first tracked allocation,
    so that the cycle inside the first `getGlobalDetector()` call runs under it -/
theorem first_detector_call_keeps_threadsafe :
    Ptrs.initial.threadSafeOn.save.restore.allLocked = true ∧
    Ptrs.initial.threadSafeOn.save.restore.pointers = threadSafeConfig.pointers := by decide +kernel

/-- and the switch itself reaches all eleven pointers from any of the configurations -/
theorem switch_on_locks_all :
    ∀ s ∈ [Ptrs.initial, defaultConfig, offConfig, threadSafeConfig.save], s.threadSafeOn.allLocked = true := by
  decide +kernel

/-! ## lock discipline, over the REGENERATED statement lists (`Gen.ThreadSafe.code`)

`code.ctor` / `code.dtor` / `code.release` / `code.fail` are the constructor and destructor of
`MemLeakScopedMutex`, `MemLeakScopedMutex::releaseBeforeFailing()` and
`MemoryLeakWarningReporter::fail` as they are in the source at check time; `wrapper` executes them.
Every theorem of this section is therefore re-checked against the current source on every run. -/

/-- `static bool memLeakMutexIsHeld = false;` -/
theorem flag_initially_clear : code.flagInit = false := by decide

/-- the constructor, entered with nobody inside: takes the mutex, then sets the flag -/
theorem ctor_takes_lock_and_sets_flag : exec code.ctor LF.idle = some LF.inside := by decide

/-- ... and blocks while the mutex is held (whatever the flag says) -/
theorem ctor_blocks_while_held (f : Bool) : exec code.ctor { lock := .held, flag := f } = none := by
  cases f <;> decide

/-- the destructor (normal exit): clears the flag, then gives the mutex back -/
theorem dtor_clears_flag_and_unlocks : exec code.dtor LF.inside = some LF.idle := by decide

/-- `MemoryLeakWarningReporter::fail` raised inside a wrapper: `releaseBeforeFailing` clears the flag and
    gives the mutex back BEFORE `failWith` leaves by `longjmp` -/
theorem fail_inside_wrapper_gives_lock_back : execFail code code.fail LF.inside = some LF.idle := by decide

/-- `fail` raised OUTSIDE any wrapper (flag clear; default mode, or a direct detector call): the mutex
    is not touched - not even when somebody else holds it -/
theorem fail_outside_wrapper_keeps_lock (l : LockState) :
    execFail code code.fail { lock := l, flag := false } = some { lock := l, flag := false } := by
  cases l <;> decide

/-- whichever way the scope is left, the mutex is free and the flag clear afterwards -/
theorem leave_gives_lock_back (o : Outcome) : leave code o LF.inside = some LF.idle := by
  cases o <;> decide

/-- EVERY wrapper call that starts with nobody inside gets the lock, performs exactly the detector
    operation, and leaves lock and flag as it found them - whether or not a misuse is reported. -/
theorem wrapper_every_op (op : DetOp) (d : Det) :
    wrapper op (Sys.idle d) = some (Sys.idle (body op d).1) := by
  have h : exec Gen.ThreadSafe.code.ctor LF.idle = some LF.inside := ctor_takes_lock_and_sets_flag
  simp only [wrapper, wrapperWith, Sys.idle, h, Option.bind_some]
  rw [leave_gives_lock_back]
  rfl

/-- The property's lock clause, for every operation and every table: after the operation - a misuse
    report included - the detector's lock is free. -/
theorem lock_free_after_every_op (op : DetOp) (d : Det) : LockFreeAfter op d :=
  ⟨_, wrapper_every_op op d, rfl⟩

/-- The property's full lock clause (was refuted for the code before the repair b50078d). -/
def C10_full : Prop := ∀ (op : DetOp) (d : Det), LockFreeAfter op d

theorem C10_full_holds : C10_full := lock_free_after_every_op

/-- the misuse case spelled out: reported, table as the detector left it, lock free, flag clear -/
theorem lock_free_after_misuse (op : DetOp) (d : Det) (_h : isMisuse op d = true) :
    wrapper op (Sys.idle d) = some { lf := LF.idle, det := (body op d).1 } :=
  wrapper_every_op op d

/-- A wrapper never runs its body while another holds the lock: it blocks. -/
theorem wrapper_blocks_when_held (op : DetOp) (f : Bool) (d : Det) :
    wrapper op { lf := { lock := .held, flag := f }, det := d } = none := by
  have h := ctor_blocks_while_held f
  simp only [wrapper, wrapperWith, h, Option.bind_none, Option.map_none]

/-- EVERY history of wrapper calls - any length, any mixture of correct operations and misuses of
    any kind - never blocks, ends with the lock free and the flag clear, and computes exactly the
    sequential detector run.  (No hypothesis: this replaces the misuse-free statement of the
    unrepaired code.) -/
theorem run_wrappers_every_history : ∀ (ops : List DetOp) (d : Det),
    runSys ops (Sys.idle d) = some (Sys.idle (runDet ops d))
  | [], _ => rfl
  | op :: ops, d => by
    have h : wrapperWith Gen.ThreadSafe.code op (Sys.idle d) = some (Sys.idle (body op d).1) := wrapper_every_op op d
    simp only [runSys, runSysWith, runDet, h, Option.bind_some]
    exact run_wrappers_every_history ops (body op d).1

/-- in particular the operation that follows a misuse is served (it used to block for ever) -/
theorem next_operation_served_after_misuse (op next : DetOp) (d : Det) (_h : isMisuse op d = true) :
    (wrapper op (Sys.idle d)).bind (wrapper next) = some (Sys.idle (body next (body op d).1).1) := by
  rw [wrapper_every_op, Option.bind_some, wrapper_every_op]

/-! ### the flag invariant -/

/-- the states one wrapper call goes through, statement by statement (normal exit) -/
theorem wrapper_trace_normal :
    wrapperTrace code .normal =
      [LF.idle, { lock := .held, flag := false }, LF.inside, { lock := .held, flag := false }, LF.idle] := by decide

/-- ... and when a misuse is reported: the flag is cleared BEFORE the mutex is given back -/
theorem wrapper_trace_misuse :
    wrapperTrace code .misuse =
      [LF.idle, { lock := .held, flag := false }, LF.inside, { lock := .held, flag := false }, LF.idle] := by decide

/-- `memLeakMutexIsHeld = true` only while the mutex is held by the wrapper in progress: at no
    statement boundary of a wrapper call, on either exit, does the flag claim a lock that is not held
    (so `releaseBeforeFailing` can never unlock a mutex that is free) -/
theorem flag_implies_held_throughout (o : Outcome) :
    (wrapperTrace code o).all FlagImpliesHeld = true := by
  cases o <;> decide

/-- where the body runs - the only place a misuse report can fire inside a wrapper - the flag is set
    and the mutex held; between wrapper calls the flag is clear and the mutex free:
    at those points `flag = true ↔ lock held` -/
theorem flag_iff_held_at_body_and_between_calls :
    bodyPoint code = some LF.inside ∧ FlagIffHeld LF.inside = true ∧ FlagIffHeld LF.idle = true ∧
    ∀ o, (wrapperTrace code o).getLast? = some LF.idle := by
  refine ⟨by decide, by decide, by decide, fun o => ?_⟩
  cases o <;> decide

/-- the only states in which flag and mutex disagree are the two windows INSIDE the constructor and
    the destructor / release (mutex held, flag not yet set or already cleared) -/
theorem flag_lags_never_leads (o : Outcome) :
    (wrapperTrace code o).all (fun s => FlagIffHeld s || (s == { lock := .held, flag := false })) = true := by
  cases o <;> decide

/-! ### why each statement of the repair is needed (the old witness) -/

/-- `free(&local)` with an empty table: a release of memory that was never allocated -/
def oldWitness : DetOp := .free 7 .malloc false

/-- The code as it was before the repair (`fail` does not call `releaseBeforeFailing`): the report
    leaves by `longjmp`, the destructor is skipped, the lock stays held ... -/
theorem without_release_call_lock_stays_held :
    wrapperWith code.withoutReleaseCall oldWitness (Sys.idle []) = some { lf := LF.inside, det := [] } := by decide

/-- ... and every later allocation or release in this mode blocks for ever. -/
theorem without_release_call_next_operation_blocks (next : DetOp) :
    (wrapperWith code.withoutReleaseCall oldWitness (Sys.idle [])).bind (wrapperWith code.withoutReleaseCall next) = none := by
  rw [without_release_call_lock_stays_held, Option.bind_some]
  have h : exec code.withoutReleaseCall.ctor LF.inside = none := by decide
  simp only [wrapperWith, h, Option.bind_none, Option.map_none]

/-- so the full lock clause is FALSE for that code (the former `C10_full_fails_known`) -/
theorem C10_full_fails_without_release_call : ¬ ∀ op d, LockFreeAfterWith code.withoutReleaseCall op d := by
  intro h
  obtain ⟨s', hs, hl⟩ := h oldWitness []
  rw [without_release_call_lock_stays_held] at hs
  cases hs
  exact absurd hl (by decide)

/-- The same if the constructor forgot to set the flag: `releaseBeforeFailing` then does nothing. -/
theorem C10_full_fails_without_flag_set : ¬ ∀ op d, LockFreeAfterWith code.withoutFlagSet op d := by
  intro h
  obtain ⟨s', hs, hl⟩ := h oldWitness []
  have : wrapperWith code.withoutFlagSet oldWitness (Sys.idle []) =
      some { lf := { lock := .held, flag := false }, det := [] } := by decide
  rw [this] at hs
  cases hs
  exact absurd hl (by decide)

/-- If the destructor forgot to clear the flag, a correct call would leave the flag set with the
    mutex free, and a later report raised outside any wrapper would unlock a mutex it does not hold
    (here: one that another thread has taken in the meantime). -/
theorem stale_flag_without_flag_clear :
    wrapperWith code.withoutFlagClear (.alloc 1 .new) (Sys.idle []) =
        some { lf := { lock := .free, flag := true }, det := [(1, .new)] } ∧
    execFail code.withoutFlagClear code.withoutFlagClear.fail { lock := .held, flag := true } = some LF.idle := by
  decide

/-- the three variants really differ from the code (the filters removed something) -/
theorem repair_ingredients_present :
    code.withoutReleaseCall ≠ code ∧ code.withoutFlagSet ≠ code ∧ code.withoutFlagClear ≠ code := by decide

/-! ### default (unlocked) mode -/

/-- In the default mode (no wrapper in progress, flag clear) an operation - also one that reports a
    misuse through the same `MemoryLeakWarningReporter::fail` - leaves lock and flag exactly as they
    were, whatever state the lock is in. -/
theorem plain_call_keeps_lock (op : DetOp) (s : Sys) (h : s.lf.flag = false) :
    plainCall op s = some { lf := s.lf, det := (body op s.det).1 } := by
  obtain ⟨⟨l, f⟩, d⟩ := s
  simp only at h
  subst h
  simp only [plainCall, plainCallWith]
  cases (body op d).2 with
  | normal => rfl
  | misuse =>
    have := fail_outside_wrapper_keeps_lock l
    simp only [this, Option.map_some, withDet]

/-- ... in particular a misuse in default mode does not unlock (and does not block) -/
theorem plain_misuse_does_not_unlock (op : DetOp) (d : Det) (l : LockState) (_h : isMisuse op d = true) :
    (plainCall op { lf := { lock := l, flag := false }, det := d }).map (·.lf.lock) = some l := by
  rw [plain_call_keeps_lock _ _ rfl]; rfl

/-- switching: any history of locked calls, then any history of plain calls, then locked calls
    again - misuses anywhere - never blocks and ends idle -/
def runPlain : List DetOp → Sys → Option Sys
  | [], s => some s
  | op :: ops, s => (plainCall op s).bind (runPlain ops)

theorem run_plain_every_history : ∀ (ops : List DetOp) (d : Det),
    runPlain ops (Sys.idle d) = some (Sys.idle (runDet ops d))
  | [], _ => rfl
  | op :: ops, d => by
    have h : plainCall op (Sys.idle d) = some (Sys.idle (body op d).1) := plain_call_keeps_lock op (Sys.idle d) rfl
    simp only [runPlain, runDet, h, Option.bind_some]
    exact run_plain_every_history ops (body op d).1

theorem mode_switches_every_history (a b c : List DetOp) (d : Det) :
    ((runSys a (Sys.idle d)).bind (runPlain b)).bind (runSys c) =
      some (Sys.idle (runDet c (runDet b (runDet a d)))) := by
  rw [run_wrappers_every_history, Option.bind_some, run_plain_every_history, Option.bind_some,
    run_wrappers_every_history]

/-! ### the report with ANY output installed (recording the failure is a callback that may allocate) -/

/-- with an output whose `printFailure` does not allocate, `execFailOut` is `execFail` (for any code) -/
theorem quiet_output_is_execFail (c : Code) (l : Bool) : ∀ (fs : List FStmt) (s : LF),
    execFailOut c { alloc := false, locked := l } fs s = execFail c fs s
  | [], _ => rfl
  | .other :: fs, s => by
    simp only [execFailOut, execFail]; exact quiet_output_is_execFail c l fs s
  | .releaseBeforeFailing :: fs, s => by
    simp only [execFailOut, execFail]
    cases exec c.release s with
    | none => rfl
    | some s' => simp only [Option.bind_some]; exact quiet_output_is_execFail c l fs s'
  | .failWith :: _, s => by simp [execFailOut, execFail, callback]
  | .addFailure :: fs, s => by
    simp only [execFailOut, execFail, callback, Bool.false_and, Bool.false_eq_true, if_false, Option.bind_some]
    exact quiet_output_is_execFail c l fs s
  | .exitCurrentTest :: _, _ => rfl

/-- The regenerated `fail` gives the lock back BEFORE anything that can allocate: whatever output is
    installed - allocating (JUnit) or not, thread-safe table or plain - a report raised inside a wrapper
    does not block and ends with the mutex free and the flag clear. -/
theorem fail_any_output_gives_lock_back (o : Out) : execFailOut code o code.fail LF.inside = some LF.idle := by
  obtain ⟨a, l⟩ := o
  cases a <;> cases l <;> decide

theorem leave_any_output_gives_lock_back (o : Out) (oc : Outcome) : leaveOut code o oc LF.inside = some LF.idle := by
  obtain ⟨a, l⟩ := o
  cases oc <;> cases a <;> cases l <;> decide

/-- every wrapper call, every table, ANY output: served, exactly the detector operation, lock and flag as found -/
theorem wrapper_every_op_any_output (o : Out) (op : DetOp) (d : Det) :
    wrapperOut o op (Sys.idle d) = some (Sys.idle (body op d).1) := by
  have h : exec Gen.ThreadSafe.code.ctor LF.idle = some LF.inside := ctor_takes_lock_and_sets_flag
  simp only [wrapperOut, wrapperOutWith, Sys.idle, h, Option.bind_some]
  rw [leave_any_output_gives_lock_back]
  rfl

/-- the property's clause "a misuse is reported and the run continues; the lock is never left held", for
    every misuse, every table and ANY output -/
theorem misuse_report_any_output_ends_idle (o : Out) (op : DetOp) (d : Det) (_h : isMisuse op d = true) :
    ∃ s', wrapperOut o op (Sys.idle d) = some s' ∧ s'.lf = LF.idle :=
  ⟨_, wrapper_every_op_any_output o op d, rfl⟩

/-- default mode (plain table, flag clear), any output: the report touches no lock and does not block -/
theorem fail_outside_wrapper_any_output (a : Bool) (l : LockState) :
    execFailOut code { alloc := a, locked := false } code.fail { lock := l, flag := false } =
      some { lock := l, flag := false } := by
  cases a <;> cases l <;> decide

/-- Why the ORDER inside `fail` matters: recording the failure before `releaseBeforeFailing` is invisible
    with an output that does not allocate (and to every theorem about `execFail`), and blocks for ever with
    the JUnit output in thread-safe mode - the reporter's own thread re-enters the locked `operator new`. -/
theorem record_before_release_blocks_allocating_output :
    wrapperOutWith code.recordBeforeRelease Out.junitThreadSafe oldWitness (Sys.idle []) = none ∧
    wrapperOutWith code.recordBeforeRelease Out.quiet oldWitness (Sys.idle []) = some (Sys.idle []) ∧
    wrapperWith code.recordBeforeRelease oldWitness (Sys.idle []) = some (Sys.idle []) ∧
    code.recordBeforeRelease ≠ code := by decide

/-- non-vacuity: the old witness is a misuse, reported with the JUnit output in thread-safe mode, and the
    allocating callback really runs a wrapper (it blocks when started with the mutex held) -/
example : isMisuse oldWitness [] = true ∧
    wrapperOut Out.junitThreadSafe oldWitness (Sys.idle []) = some (Sys.idle []) ∧
    callback code Out.junitThreadSafe LF.inside = none ∧
    callback code Out.junitThreadSafe LF.idle = some LF.idle := by decide

/-! ## every release was outstanding -/

/-- A release that is not reported as misuse released a block that was outstanding, of the same
    allocator family, and removes exactly that block. -/
theorem every_release_was_outstanding (id : Nat) (k : Kind) (c : Bool) (d : Det)
    (h : (body (.free id k c) d).2 = .normal) :
    (id, k) ∈ d ∧ d.Perm ((id, k) :: (body (.free id k c) d).1) := by
  simp only [body] at h ⊢
  cases hl : lookup d id with
  | none => simp [hl, freeFound] at h
  | some st =>
    simp only [hl, freeFound] at h ⊢
    obtain ⟨rfl, -⟩ := checkRelease_normal h
    exact ⟨lookup_some_mem hl, perm_remove hl⟩

/-- Conversely, releasing an address that is not outstanding is always reported. -/
theorem release_of_unknown_is_reported (id : Nat) (k : Kind) (c : Bool) (d : Det) (h : id ∉ ids d) :
    body (.free id k c) d = (d, .misuse) := by
  have : lookup d id = none := by
    cases hl : lookup d id with
    | none => rfl
    | some st => exact absurd (List.mem_map_of_mem (f := (·.1)) (lookup_some_mem hl)) h
  simp [body, this, freeFound]

/-- The same for `realloc`: the old block must be outstanding. -/
theorem realloc_was_outstanding (old new : Nat) (c : Bool) (d : Det)
    (h : (body (.realloc old new c) d).2 = .normal) :
    (old, Kind.malloc) ∈ d ∧ (d ++ [(new, Kind.malloc)]).Perm ((old, Kind.malloc) :: (body (.realloc old new c) d).1) := by
  have hc := step_conservation (.realloc old new c) d h
  simp only [freedOf, allocdOf] at hc
  simp only [body] at h
  cases hl : lookup d old with
  | none => simp [hl, reallocFound] at h
  | some st =>
    simp only [hl, reallocFound] at h
    cases hcr : checkRelease st .malloc c with
    | misuse => simp [hcr, reallocChecked] at h
    | normal =>
      obtain ⟨rfl, -⟩ := checkRelease_normal hcr
      refine ⟨lookup_some_mem hl, ?_⟩
      exact (hc.symm.trans (List.perm_append_singleton _ _))

/-! ## schedule independence -/

theorem sum_threads {β} [BEq β] [LawfulBEq β] (x : β) (H F G A T : Nat → List β) :
    ∀ (l : List Nat),
      (∀ t ∈ l, List.count x (H t) + List.count x (F t) + List.count x (G t) = List.count x (A t) + List.count x (T t)) →
      List.count x (l.flatMap H) + List.count x (l.flatMap F) + List.count x (l.flatMap G) =
        List.count x (l.flatMap A) + List.count x (l.flatMap T)
  | [], _ => by simp
  | a :: l, h => by
    have ih := sum_threads x H F G A T l (fun t ht => h t (List.mem_cons_of_mem _ ht))
    have ha := h a (List.mem_cons_self ..)
    simp only [List.flatMap_cons, List.count_append]; omega

/-- For EVERY schedule (interleaving of whole wrappers) of any number of threads, misuse-free and
    with distinct live ids, in which every thread releases or hands over only what it holds and
    every hand-over was completed: once the threads finish, the outstanding set is the union of
    what each thread still holds. -/
theorem outstanding_eq_union_held (n : Nat) (sched : List Event)
    (htid : ∀ e ∈ sched, e.1 < n)
    (hok : RunOk (detOps sched) [] = true)
    (hthr : ∀ t, t < n → ThreadOk (proj t sched) [] = true)
    (hbal : (sched.flatMap (fun e => givenOf e.2)).Perm (sched.flatMap (fun e => takenOf e.2))) :
    (runDet (detOps sched) []).Perm (unionHeld n sched) := by
  rw [List.perm_iff_count]; intro x
  have hc := (run_conservation (detOps sched) [] hok).count_eq x
  simp only [List.count_append, List.count_nil, Nat.zero_add, freedAll, allocdAll] at hc
  rw [detOps_flatMap freedOf (by intros; rfl) (by intros; rfl),
      detOps_flatMap allocdOf (by intros; rfl) (by intros; rfl),
      count_sched_eq_threads freedOf n x sched htid,
      count_sched_eq_threads allocdOf n x sched htid] at hc
  have hb := hbal.count_eq x
  rw [count_sched_eq_threads givenOf n x sched htid, count_sched_eq_threads takenOf n x sched htid] at hb
  have hs := sum_threads x (fun t => holds (proj t sched) []) (fun t => (proj t sched).flatMap freedOf)
    (fun t => (proj t sched).flatMap givenOf) (fun t => (proj t sched).flatMap allocdOf)
    (fun t => (proj t sched).flatMap takenOf) (List.range n) (by
      intro t ht
      have e := (thread_conservation (proj t sched) [] (hthr t (List.mem_range.mp ht))).count_eq x
      simp only [List.count_append, List.count_nil, Nat.zero_add] at e
      exact e)
  simp only [unionHeld]
  omega

/-- Any two such schedules of the same thread scripts leave the same outstanding set. -/
theorem schedules_agree (n : Nat) (s₁ s₂ : List Event)
    (hsame : ∀ t, t < n → proj t s₁ = proj t s₂)
    (h₁ : ∀ e ∈ s₁, e.1 < n) (h₂ : ∀ e ∈ s₂, e.1 < n)
    (ok₁ : RunOk (detOps s₁) [] = true) (ok₂ : RunOk (detOps s₂) [] = true)
    (hthr : ∀ t, t < n → ThreadOk (proj t s₁) [] = true)
    (b₁ : (s₁.flatMap (fun e => givenOf e.2)).Perm (s₁.flatMap (fun e => takenOf e.2)))
    (b₂ : (s₂.flatMap (fun e => givenOf e.2)).Perm (s₂.flatMap (fun e => takenOf e.2))) :
    (runDet (detOps s₁) []).Perm (runDet (detOps s₂) []) := by
  have e₁ := outstanding_eq_union_held n s₁ h₁ ok₁ hthr b₁
  have e₂ := outstanding_eq_union_held n s₂ h₂ ok₂ (fun t ht => by rw [← hsame t ht]; exact hthr t ht) b₂
  have hu : unionHeld n s₁ = unionHeld n s₂ := by
    have : ∀ l : List Nat, (∀ t ∈ l, t < n) →
        l.flatMap (fun t => holds (proj t s₁) []) = l.flatMap (fun t => holds (proj t s₂) []) := by
      intro l; induction l with
      | nil => intro _; rfl
      | cons a l ih =>
        intro h
        rw [List.flatMap_cons, List.flatMap_cons, hsame a (h a (List.mem_cons_self ..)),
          ih (fun t ht => h t (List.mem_cons_of_mem _ ht))]
    exact this _ (fun t ht => List.mem_range.mp ht)
  exact e₁.trans (hu ▸ e₂.symm)


/-! ## the ownership discipline makes EVERY interleaving misuse-free -/

theorem tied_empty (n : Nat) : Tied n Own.empty [] := by
  refine ⟨?_, by simp [ids]⟩
  have : ∀ l : List Nat, l.flatMap Own.empty.held = [] := by
    intro l; induction l with
    | nil => rfl
    | cons a l ih => simp [List.flatMap_cons, ih, Own.empty]
  simp [allBlocks, this, Own.empty]

theorem allBlocks_ownRun (n : Nat) (sched : List Event) :
    allBlocks n (ownRun sched Own.empty) =
      unionHeld n sched ++ (ownRun sched Own.empty).moving.map pr := by
  have : (ownRun sched Own.empty).held = fun t => holds (proj t sched) [] := by
    funext u; rw [ownRun_held]; rfl
  simp only [allBlocks, unionHeld, this]

/-- No misuse can be reported on ANY schedule in which live ids are distinct, every thread releases
    or hands over only blocks it holds itself, and blocks are taken only after they were given:
    no schedule makes a thread's release hit a block that is not outstanding. -/
theorem owned_schedule_misuse_free (n : Nat) (sched : List Event) (h : Owned n sched Own.empty) :
    RunOk (detOps sched) [] = true :=
  (owned_run n sched Own.empty [] h (tied_empty n)).1

/-- The headline statement.  For every schedule — any interleaving of whole wrappers of any number
    of threads `n` and any number of operations — that respects the ownership discipline:
    no wrapper ever blocks and the lock is free at the end; live ids stay distinct; the outstanding
    set after the threads finish is the union of what each thread still holds plus the blocks still
    in transit (none, if every hand-over was completed). -/
theorem interleaving_outstanding (n : Nat) (sched : List Event) (h : Owned n sched Own.empty) :
    runSys (detOps sched) (Sys.idle []) = some (Sys.idle (runDet (detOps sched) [])) ∧
    (ids (runDet (detOps sched) [])).Nodup ∧
    (runDet (detOps sched) []).Perm
      (unionHeld n sched ++ (ownRun sched Own.empty).moving.map pr) := by
  obtain ⟨hok, hp, hn⟩ := owned_run n sched Own.empty [] h (tied_empty n)
  refine ⟨run_wrappers_every_history _ _, hn, ?_⟩
  rw [← allBlocks_ownRun]; exact hp

/-! ### ... exactly as if the threads had run one after another -/

theorem proj_append (t : Nat) (a b : List Event) : proj t (a ++ b) = proj t a ++ proj t b := by
  induction a with
  | nil => rfl
  | cons e a ih =>
    obtain ⟨u, op⟩ := e
    simp only [List.cons_append, proj, ih]
    split <;> simp

theorem proj_map_same (t : Nat) (ops : List TOp) : proj t (ops.map (fun op => (t, op))) = ops := by
  induction ops with
  | nil => rfl
  | cons op ops ih => simp [proj, ih]

theorem proj_map_other (t u : Nat) (h : u ≠ t) (ops : List TOp) : proj t (ops.map (fun op => (u, op))) = [] := by
  induction ops with
  | nil => rfl
  | cons op ops ih => simp [proj, ih, h]

theorem proj_sequential : ∀ (ts : List (List TOp)) (k t : Nat),
    proj t (sequential ts k) = if k ≤ t then ts.getD (t - k) [] else []
  | [], k, t => by simp [sequential, proj]
  | ops :: rest, k, t => by
    simp only [sequential, proj_append, proj_sequential rest (k + 1) t]
    by_cases hk : k = t
    · subst hk
      simp only [proj_map_same, Nat.le_refl, if_true, Nat.sub_self, List.getD_cons_zero]
      have : ¬ k + 1 ≤ k := by omega
      simp [this]
    · rw [proj_map_other t k hk]
      by_cases hlt : k < t
      · have h1 : k + 1 ≤ t := hlt
        have h2 : k ≤ t := Nat.le_of_lt hlt
        have h3 : t - k = (t - (k + 1)) + 1 := by omega
        simp [h1, h2, h3]
      · have h1 : ¬ k + 1 ≤ t := by omega
        have h2 : ¬ k ≤ t := by omega
        simp [h1, h2]

theorem mem_sequential_lt : ∀ (ts : List (List TOp)) (k : Nat) (e : Event),
    e ∈ sequential ts k → e.1 < k + ts.length
  | [], _, e, h => by simp [sequential] at h
  | ops :: rest, k, e, h => by
    simp only [sequential, List.mem_append, List.mem_map] at h
    rcases h with ⟨op, _, rfl⟩ | h
    · simp
    · have := mem_sequential_lt rest (k + 1) e h
      simp only [List.length_cons]; omega

/-- running the threads one after another is one of the interleavings -/
theorem sequential_is_interleaving (ts : List (List TOp)) : IsInterleaving (sequential ts 0) ts := by
  refine ⟨fun e he => by simpa using mem_sequential_lt ts 0 e he, fun t ht => ?_⟩
  rw [proj_sequential]
  simp [List.getD_eq_getElem?_getD, ht]

theorem unionHeld_of_interleaving (ts : List (List TOp)) (sched : List Event) (h : IsInterleaving sched ts) :
    unionHeld ts.length sched = (List.range ts.length).flatMap (fun t => holds (ts.getD t []) []) := by
  simp only [unionHeld]
  have : ∀ l : List Nat, (∀ t ∈ l, t < ts.length) →
      l.flatMap (fun t => holds (proj t sched) []) = l.flatMap (fun t => holds (ts.getD t []) []) := by
    intro l; induction l with
    | nil => intro _; rfl
    | cons a l ih =>
      intro hl
      have ha := hl a (List.mem_cons_self ..)
      rw [List.flatMap_cons, List.flatMap_cons, ih (fun t ht => hl t (List.mem_cons_of_mem _ ht)), h.2 a ha]
      simp [List.getD_eq_getElem?_getD, ha]
  exact this _ (fun t ht => List.mem_range.mp ht)

/-- Schedule independence in the property's words: for every interleaving `sched` of the thread
    scripts `ts` that respects the ownership discipline and completes its hand-overs, the
    outstanding set after the threads finish (a) is the union of what each thread's script leaves it
    holding, and (b) equals the result of running the threads one after another (whenever that
    sequential order is itself admissible, i.e. no thread takes a block before it was given). -/
theorem interleaving_equiv_sequential (ts : List (List TOp)) (sched : List Event)
    (hint : IsInterleaving sched ts)
    (hown : Owned ts.length sched Own.empty)
    (hdone : (ownRun sched Own.empty).moving = []) :
    (runDet (detOps sched) []).Perm ((List.range ts.length).flatMap (fun t => holds (ts.getD t []) [])) ∧
    (Owned ts.length (sequential ts 0) Own.empty → (ownRun (sequential ts 0) Own.empty).moving = [] →
      (runDet (detOps sched) []).Perm (runDet (detOps (sequential ts 0)) [])) := by
  have h1 := (interleaving_outstanding ts.length sched hown).2.2
  rw [hdone, List.map_nil, List.append_nil, unionHeld_of_interleaving ts sched hint] at h1
  refine ⟨h1, fun hs hsd => ?_⟩
  have h2 := (interleaving_outstanding ts.length (sequential ts 0) hs).2.2
  rw [hsd, List.map_nil, List.append_nil,
    unionHeld_of_interleaving ts _ (sequential_is_interleaving ts)] at h2
  exact h1.trans h2.symm

/-- Any two admissible schedules of the same scripts agree (no reference to a sequential order). -/
theorem owned_schedules_agree (ts : List (List TOp)) (s₁ s₂ : List Event)
    (i₁ : IsInterleaving s₁ ts) (i₂ : IsInterleaving s₂ ts)
    (o₁ : Owned ts.length s₁ Own.empty) (o₂ : Owned ts.length s₂ Own.empty)
    (d₁ : (ownRun s₁ Own.empty).moving = []) (d₂ : (ownRun s₂ Own.empty).moving = []) :
    (runDet (detOps s₁) []).Perm (runDet (detOps s₂) []) :=
  (interleaving_equiv_sequential ts s₁ i₁ o₁ d₁).1.trans (interleaving_equiv_sequential ts s₂ i₂ o₂ d₂).1.symm

/-- the threads of an admissible schedule each release only what they hold (link to `ThreadOk`) -/
theorem owned_threads_ok (n : Nat) (sched : List Event) (h : Owned n sched Own.empty) (t : Nat) :
    ThreadOk (proj t sched) [] = true :=
  owned_threadOk n sched Own.empty t h


/-! ## commutation (the local reason behind schedule independence) -/

/-- Two operations on different blocks commute: if `a; b` is fine from a table with distinct ids,
    then so is `b; a`, and both orders leave the same outstanding set. -/
theorem step_commutes (a b : DetOp) (d : Det) (hd : (ids d).Nodup)
    (hdis : ∀ j, j ∈ opIds a → j ∉ opIds b)
    (ha : stepOk a d = true) (hb : stepOk b (body a d).1 = true) :
    stepOk b d = true ∧ stepOk a (body b d).1 = true ∧
      (body b (body a d).1).1.Perm (body a (body b d).1).1 := by
  have hd1 := nodup_after_step a d hd ha
  have hb' : stepOk b d = true :=
    stepOk_transfer b (body a d).1 d hd1 hd
      (fun j hj => (lookup_body_other a d j (fun hja => hdis j hja hj)).symm) hb
  have hd2 := nodup_after_step b d hd hb'
  have ha' : stepOk a (body b d).1 = true :=
    stepOk_transfer a d (body b d).1 hd hd2
      (fun j hj => lookup_body_other b d j (hdis j hj)) ha
  refine ⟨hb', ha', ?_⟩
  have c1 := step_conservation a d (stepOk_normal ha)
  have c2 := step_conservation b (body a d).1 (stepOk_normal hb)
  have c3 := step_conservation b d (stepOk_normal hb')
  have c4 := step_conservation a (body b d).1 (stepOk_normal ha')
  rw [List.perm_iff_count]; intro x
  have e1 := c1.count_eq x; have e2 := c2.count_eq x; have e3 := c3.count_eq x; have e4 := c4.count_eq x
  simp only [List.count_append] at e1 e2 e3 e4
  omega


/-! ## non-vacuity: concrete states and schedules that meet the hypotheses -/

instance decOwnExtra (n : Nat) (o : Own) (t : Nat) : (op : TOp) → Decidable (ownExtra n o t op)
  | .det (.alloc id _) => inferInstanceAs (Decidable (id ∉ ids (allBlocks n o)))
  | .det (.free _ _ c) => inferInstanceAs (Decidable (c = false))
  | .det (.realloc old new c) =>
    inferInstanceAs (Decidable (c = false ∧ new ∉ (ids (allBlocks n o)).erase old))
  | .give _ _ _ => isTrue trivial
  | .take id k => inferInstanceAs (Decidable ((id, k, t) ∈ o.moving))

instance decOwned (n : Nat) : (sched : List Event) → (o : Own) → Decidable (Owned n sched o)
  | [], _ => isTrue trivial
  | (t, op) :: es, o =>
    have := decOwned n es (ownStep o t op)
    inferInstanceAs (Decidable (t < n ∧ opOwned (o.held t) op = true ∧ ownExtra n o t op ∧
      Owned n es (ownStep o t op)))

/-- two thread scripts with a hand-over (thread 0 allocates block 1 and gives it to thread 1, which
    releases it), a realloc that moves a block, and blocks left over on both threads -/
def exampleScripts : List (List TOp) :=
  [[.det (.alloc 1 .new), .give 1 .new 1, .det (.alloc 2 .malloc), .det (.realloc 2 3 false),
    .det (.alloc 4 .newArray)],
   [.det (.alloc 10 .newArray), .take 1 .new, .det (.free 1 .new false), .det (.alloc 11 .malloc),
    .det (.free 10 .newArray false)]]

/-- one of its interleavings -/
def exampleSchedule : List Event :=
  [(1, .det (.alloc 10 .newArray)), (0, .det (.alloc 1 .new)), (0, .give 1 .new 1),
   (0, .det (.alloc 2 .malloc)), (1, .take 1 .new), (0, .det (.realloc 2 3 false)),
   (1, .det (.free 1 .new false)), (1, .det (.alloc 11 .malloc)), (0, .det (.alloc 4 .newArray)),
   (1, .det (.free 10 .newArray false))]

example : IsInterleaving exampleSchedule exampleScripts := by
  refine ⟨by decide, fun t ht => ?_⟩
  have : t = 0 ∨ t = 1 := by simp [exampleScripts] at ht; omega
  rcases this with rfl | rfl <;> rfl

example : Owned 2 exampleSchedule Own.empty := by decide
example : (ownRun exampleSchedule Own.empty).moving = [] := by decide
example : Owned 2 (sequential exampleScripts 0) Own.empty := by decide
example : (ownRun (sequential exampleScripts 0) Own.empty).moving = [] := by decide
/-- the outstanding set of the example: blocks 3, 4 (thread 0) and 11 (thread 1) -/
example : runDet (detOps exampleSchedule) [] = [(4, .newArray), (11, .malloc), (3, .malloc)] := by decide
example : ids (runDet (detOps (sequential exampleScripts 0)) []) = [11, 4, 3] := by decide

/-- the lock clause is not vacuous: an operation that is no misuse ... -/
example : isMisuse (.free 5 .new false) [(5, .new)] = false := by decide
/-- ... and the three classes of misuse that do fire inside the locked scope -/
example : isMisuse (.free 5 .new false) [] = true := by decide                    -- not allocated
example : isMisuse (.free 5 .malloc false) [(5, .new)] = true := by decide         -- allocator mismatch
example : isMisuse (.realloc 5 6 true) [(5, .malloc)] = true := by decide          -- guard bytes overrun
/-- the schedule in which the misuse happens first is NOT admissible (so it is outside
    `interleaving_equiv_sequential`; the lock clause `C10_full_holds` covers it all the same) -/
example : ¬ Owned 1 [(0, .det (.free 7 .malloc false))] Own.empty := by decide

end ThreadSafe
