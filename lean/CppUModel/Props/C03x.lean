import CppUModel.Props.C03
import CppUModel.Props.C13
/-!
# C03x — the five string checks evaluated with the C13 primitive models

Composition theorems.  They connect

* `Model/Asserts.lean` (C03): `assertCstrEqual`, `assertCstrNEqual`, `assertCstrNoCaseEqual`, `assertCstrContains`,
  `assertCstrNoCaseContains`, written with the textbook functions `Text.cmp`, `Text.ncmp`, `Text.equalsNoCase`,
  `Text.isInfix`, `Text.containsNoCase` on `Option Bytes` operands (`none` = `NULL`), with
* `Base/CString.lean` + `Model/SimpleString.lean` (C13): `StrCmp`, `StrNCmp` on bounded buffers, and the object
  operations `ctorCStr` (`SimpleString(const char*)`), `equalsNoCase`, `contains`, `containsNoCase`, `dtor`, with their
  allocator event log.

`strEqualM` … `strNoCaseContainsM` are the C++ bodies of `UtestShell::assertCstr…` on C pointers (buffer + offset, or
`NULL`): the NULL tests, then the primitive exactly as the source calls it (which operand is the receiver, which
temporaries are constructed and destroyed).  For all NUL-free operands (and `NULL`s) each returns `.ok` — no access
outside a buffer — of exactly the C03 model's outcome, and every temporary buffer is released (`Returns`).
-/
namespace Compose.C03x
open CStr SStr Text
open Asserts (Outcome countThenFailIf)

/-- a non-NULL `const char*`: an allocation and an offset into it -/
structure CPtr where
  buf : Buf
  off : Nat

/-- the common skeleton of the five checks (`countCheck()`, the two NULL tests, the comparison) -/
def cstrCheckM (mismatch : CPtr → CPtr → M Bool) : Option CPtr → Option CPtr → M Outcome
  | none, none => pure { fails := false, counted := 1 }
  | none, some _ => pure { fails := true, counted := 1 }
  | some _, none => pure { fails := true, counted := 1 }
  | some e, some a => do
    let m ← mismatch e a
    pure (countThenFailIf m)

def neZero (r : Except Err Int) : Except Err Bool :=
  match r with
  | .error e => .error e
  | .ok d => .ok (d != 0)

/-- `if (SimpleString::StrCmp(expected, actual) != 0) failWith(…)` -/
def strEqualM : Option CPtr → Option CPtr → M Outcome :=
  cstrCheckM (fun e a => liftE (neZero (StrCmp e.buf e.off a.buf a.off)))

/-- `if (SimpleString::StrNCmp(expected, actual, length) != 0) failWith(…)` -/
def strNEqualM (length : Nat) : Option CPtr → Option CPtr → M Outcome :=
  cstrCheckM (fun e a => liftE (neZero (StrNCmp e.buf e.off a.buf a.off length)))

/-- `if (!SimpleString(expected).equalsNoCase(actual)) failWith(…)`: the receiver is a temporary built from
    `expected`, the argument a temporary built from `actual`; both are destroyed at the end of the full expression
    (in reverse order of construction) -/
def strNoCaseEqualM : Option CPtr → Option CPtr → M Outcome :=
  cstrCheckM (fun e a => do
    let oe ← ctorCStr e.buf e.off
    let oa ← ctorCStr a.buf a.off
    let r ← equalsNoCase oe oa
    dtor oa
    dtor oe
    pure (!r))

/-- `if (!SimpleString(actual).contains(expected)) failWith(…)` -/
def strContainsM : Option CPtr → Option CPtr → M Outcome :=
  cstrCheckM (fun e a => do
    let oa ← ctorCStr a.buf a.off
    let oe ← ctorCStr e.buf e.off
    let r ← liftE (contains oa oe)
    dtor oe
    dtor oa
    pure (!r))

/-- `if (!SimpleString(actual).containsNoCase(expected)) failWith(…)` -/
def strNoCaseContainsM : Option CPtr → Option CPtr → M Outcome :=
  cstrCheckM (fun e a => do
    let oa ← ctorCStr a.buf a.off
    let oe ← ctorCStr e.buf e.off
    let r ← containsNoCase oa oe
    dtor oe
    dtor oa
    pure (!r))

/-- the C pointer represents the C03 operand: both `NULL`, or the pointer addresses the NUL-terminated string -/
def RepPtr : Option CPtr → Option Bytes → Prop
  | none, none => True
  | some p, some s => CAt p.buf p.off s
  | _, _ => False

/-- the skeleton, given that the comparison returns the textbook verdict and releases its temporaries -/
theorem cstrCheckM_returns {mm : CPtr → CPtr → M Bool} {mt : Bytes → Bytes → Bool}
    (hm : ∀ (pe pa : CPtr) (e a : Bytes) (w : World), CAt pe.buf pe.off e → CAt pa.buf pa.off a →
      Returns (mm pe pa) w (mt e a))
    {pe pa : Option CPtr} {e a : Option Bytes} (he : RepPtr pe e) (ha : RepPtr pa a) (w : World) :
    Returns (cstrCheckM mm pe pa) w (Asserts.cstrCheck mt e a) := by
  match pe, e, he, pa, a, ha with
  | none, none, _, none, none, _ => exact ⟨w, rfl, fun _ h => h⟩
  | none, none, _, some p, some s, _ => exact ⟨w, rfl, fun _ h => h⟩
  | some p, some s, _, none, none, _ => exact ⟨w, rfl, fun _ h => h⟩
  | some p, some s, h1, some q, some t, h2 =>
    obtain ⟨w', hr, ho⟩ := hm p q s t w h1 h2
    refine ⟨w', ?_, ho⟩
    simp only [cstrCheckM, bind_run, hr, pure_run, Asserts.cstrCheck]

/-- **STRCMP_EQUAL.**  Connects `Asserts.assertCstrEqual` (C03, `Text.cmp`) with `CStr.StrCmp` on buffers (C13). -/
theorem strEqual_agrees {pe pa : Option CPtr} {e a : Option Bytes} (he : RepPtr pe e) (ha : RepPtr pa a) (w : World) :
    Returns (strEqualM pe pa) w (Asserts.assertCstrEqual e a) :=
  cstrCheckM_returns (mt := fun e a => Text.cmp e a != 0) (fun pe pa e a w h1 h2 => by
    refine ⟨w, ?_, fun _ h => h⟩
    rw [C13.strcmp_eq h1 h2]; rfl) he ha w

/-- **STRNCMP_EQUAL.**  Connects `Asserts.assertCstrNEqual` (`Text.ncmp`) with `CStr.StrNCmp` on buffers, for every
    length limit. -/
theorem strNEqual_agrees (length : Nat) {pe pa : Option CPtr} {e a : Option Bytes} (he : RepPtr pe e)
    (ha : RepPtr pa a) (w : World) :
    Returns (strNEqualM length pe pa) w (Asserts.assertCstrNEqual e a length) :=
  cstrCheckM_returns (mt := fun e a => Text.ncmp length e a != 0) (fun pe pa e a w h1 h2 => by
    refine ⟨w, ?_, fun _ h => h⟩
    rw [C13.strncmp_eq length h1 h2]; rfl) he ha w

/-- **STRCMP_NOCASE_EQUAL.**  Connects `Asserts.assertCstrNoCaseEqual` (`Text.equalsNoCase`) with the C13 objects:
    two temporaries are constructed, `equalsNoCase` makes two lower-cased copies, all four buffers are released. -/
theorem strNoCaseEqual_agrees {pe pa : Option CPtr} {e a : Option Bytes} (he : RepPtr pe e) (ha : RepPtr pa a)
    (w : World) : Returns (strNoCaseEqualM pe pa) w (Asserts.assertCstrNoCaseEqual e a) :=
  cstrCheckM_returns (mt := fun e a => !Text.equalsNoCase e a) (fun pe pa e a w h1 h2 => by
    have c1 := C13.ctor_eq h1 w
    have c2 := C13.ctor_eq h2 (w.alloc (e.length + 1))
    obtain ⟨w3, hr, ho⟩ := equalsNoCase_returns (holds_mkObj (i := w.next) h1.nulFree)
      (holds_mkObj (i := (w.alloc (e.length + 1)).next) h2.nulFree) ((w.alloc (e.length + 1)).alloc (a.length + 1))
    refine ⟨(w3.free (w.alloc (e.length + 1)).next (a.length + 1)).free w.next (e.length + 1), ?_, ?_⟩
    · simp only [bind_run, c1, c2, hr, dtor_run, pure_run, mkObj_id, mkObj_size]
    · intro L hL
      have h3 := ho _ ((hL.alloc (e.length + 1)).alloc (a.length + 1))
      exact h3.free_head.free_head) he ha w

/-- **STRCMP_CONTAINS.**  Connects `Asserts.assertCstrContains` (`Text.isInfix actual expected`) with `SStr.contains`
    (= `StrStr`) on two temporaries. -/
theorem strContains_agrees {pe pa : Option CPtr} {e a : Option Bytes} (he : RepPtr pe e) (ha : RepPtr pa a)
    (w : World) : Returns (strContainsM pe pa) w (Asserts.assertCstrContains e a) :=
  cstrCheckM_returns (mt := fun e a => !Text.isInfix a e) (fun pe pa e a w h1 h2 => by
    have c1 := C13.ctor_eq h2 w
    have c2 := C13.ctor_eq h1 (w.alloc (a.length + 1))
    have hc := C13.contains_iff_isInfix (holds_mkObj (i := w.next) h2.nulFree)
      (holds_mkObj (i := (w.alloc (a.length + 1)).next) h1.nulFree)
    refine ⟨((((w.alloc (a.length + 1)).alloc (e.length + 1)).free (w.alloc (a.length + 1)).next (e.length + 1)).free
      w.next (a.length + 1)), ?_, ?_⟩
    · simp only [bind_run, c1, c2, hc, liftE_ok, dtor_run, pure_run, mkObj_id, mkObj_size]
    · intro L hL
      exact ((hL.alloc (a.length + 1)).alloc (e.length + 1)).free_head.free_head) he ha w

/-- **STRCMP_NOCASE_CONTAINS.**  Connects `Asserts.assertCstrNoCaseContains` (`Text.containsNoCase actual expected`)
    with `SStr.containsNoCase` on two temporaries. -/
theorem strNoCaseContains_agrees {pe pa : Option CPtr} {e a : Option Bytes} (he : RepPtr pe e) (ha : RepPtr pa a)
    (w : World) : Returns (strNoCaseContainsM pe pa) w (Asserts.assertCstrNoCaseContains e a) :=
  cstrCheckM_returns (mt := fun e a => !Text.containsNoCase a e) (fun pe pa e a w h1 h2 => by
    have c1 := C13.ctor_eq h2 w
    have c2 := C13.ctor_eq h1 (w.alloc (a.length + 1))
    obtain ⟨w3, hr, ho⟩ := containsNoCase_returns (holds_mkObj (i := w.next) h2.nulFree)
      (holds_mkObj (i := (w.alloc (a.length + 1)).next) h1.nulFree) ((w.alloc (a.length + 1)).alloc (e.length + 1))
    refine ⟨(w3.free (w.alloc (a.length + 1)).next (e.length + 1)).free w.next (a.length + 1), ?_, ?_⟩
    · simp only [bind_run, c1, c2, hr, dtor_run, pure_run, mkObj_id, mkObj_size]
    · intro L hL
      have h3 := ho _ ((hL.alloc (a.length + 1)).alloc (e.length + 1))
      exact h3.free_head.free_head) he ha w

/-- All five at once, as verdicts: the check executed on buffers fails exactly when the C03 model's check fails, it
    never leaves a buffer, and it counts one check. -/
theorem string_checks_same_verdict {pe pa : Option CPtr} {e a : Option Bytes} (he : RepPtr pe e) (ha : RepPtr pa a)
    (length : Nat) (w : World) :
    (∃ w', strEqualM pe pa w = .ok (Asserts.assertCstrEqual e a, w')) ∧
    (∃ w', strNEqualM length pe pa w = .ok (Asserts.assertCstrNEqual e a length, w')) ∧
    (∃ w', strNoCaseEqualM pe pa w = .ok (Asserts.assertCstrNoCaseEqual e a, w')) ∧
    (∃ w', strContainsM pe pa w = .ok (Asserts.assertCstrContains e a, w')) ∧
    (∃ w', strNoCaseContainsM pe pa w = .ok (Asserts.assertCstrNoCaseContains e a, w')) := by
  obtain ⟨w1, h1, _⟩ := strEqual_agrees he ha w
  obtain ⟨w2, h2, _⟩ := strNEqual_agrees length he ha w
  obtain ⟨w3, h3, _⟩ := strNoCaseEqual_agrees he ha w
  obtain ⟨w4, h4, _⟩ := strContains_agrees he ha w
  obtain ⟨w5, h5, _⟩ := strNoCaseContains_agrees he ha w
  exact ⟨⟨w1, h1⟩, ⟨w2, h2⟩, ⟨w3, h3⟩, ⟨w4, h4⟩, ⟨w5, h5⟩⟩

/-! ## non-vacuity -/

/-- "Hello" inside a larger buffer with junk around it; "hELLO" exactly sized -/
def exE : CPtr := ⟨[7, 72, 101, 108, 108, 111, 0, 9], 1⟩
def exA : CPtr := ⟨[104, 69, 76, 76, 79, 0], 0⟩

example : RepPtr (some exE) (some [72, 101, 108, 108, 111]) := ⟨by decide, [9], rfl⟩
example : RepPtr (some exA) (some [104, 69, 76, 76, 79]) := ⟨by decide, [], rfl⟩

example : (match strEqualM (some exE) (some exA) {} with | .ok (o, _) => some o.fails | .error _ => none) = some true := rfl
example : (match strNoCaseEqualM (some exE) (some exA) {} with | .ok (o, _) => some o.fails | .error _ => none) = some false := rfl
example : (match strNoCaseContainsM (some ⟨[69, 76, 0], 0⟩) (some exE) {} with | .ok (o, _) => some o.fails | .error _ => none) =
    some false := rfl
example : (match strContainsM (some ⟨[69, 76, 0], 0⟩) (some exE) {} with | .ok (o, _) => some o.fails | .error _ => none) =
    some true := rfl
example : (match strNEqualM 0 (some exE) (some exA) {} with | .ok (o, _) => some o.fails | .error _ => none) = some false := rfl
example : (match strEqualM none (some exA) {} with | .ok (o, _) => some (o.fails, o.counted) | .error _ => none) =
    some (true, 1) := rfl
/-- an unterminated operand: the object model reports the out-of-bounds read (so `RepPtr` is needed) -/
example : (match strEqualM (some ⟨[72], 0⟩) (some ⟨[72], 0⟩) {} with | .ok _ => "ok" | .error e => e.render) = "oob" := rfl
/-- the log of STRCMP_NOCASE_EQUAL: four buffers requested, four released -/
example : (match strNoCaseEqualM (some exE) (some exA) {} with | .ok (_, w) => w.log.length | .error _ => 0) = 8 := rfl

end Compose.C03x
