import CppUModel.Proofs.SeparateProcess
import CppUModel.Model.SeparateProcessArgv
/-!
# C11 — separate-process mode contains every way a test can die

Property theorems only.  Model: `CppUModel/Model/SeparateProcess.lean` (from
`src/Platforms/Gcc/UtestPlatform.cpp`, `Utest.cpp`, `TestRegistry.cpp`); vocabulary:
`CppUModel/Spec/SeparateProcess.lean`.  `retryBound`, the failure chain of
`SetTestFailureByStatusCode` and the messages come from the regenerated
`Gen/SeparateProcessConstants.lean`.

All theorems quantify over every list of `waitpid` results (any length, any interleaving of EINTR,
stops, errors and status words) and every 32-bit status word.  What they do not carry: that the
kernel delivers signals and fills in the status word as `wait(2)` says — part (b) of the harness
observes that with real children.
-/
namespace SepProc
open Gen.SepProcC

/-! ## status word: glibc's macros say what the textbook says -/

theorem macros_agree_with_textbook (s : BitVec 32) :
    (wIfExited s || wIfSignaled s) = (classify s).terminal ∧
    wIfStopped s = (classify s).isStopped ∧
    wTermSig s = s.toNat % 128 ∧ wExitStatus s = s.toNat / 256 % 256 :=
  ⟨terminal_eq s, stopped_eq s, wTermSig_eq s, wExitStatus_eq s⟩

/-- `SetTestFailureByStatusCode`, for every status word: one failure of the right class for a
    signal death (with the signal's number), a non-zero exit and a stop; none for exit 0. -/
theorem status_failures_exact (s : BitVec 32) :
    classes (statusFailures s) = (classify s).expected :=
  statusFailures_classes s

/-- the message of a signal death ends with the number of that signal -/
theorem signal_message_names_signal (s : BitVec 32) (n : Nat) (h : classify s = .signaled n) :
    ∃ e ∈ statusChain, statusFailures s = [{ cls := .killedBySignal n, text := e.msg ++ toString n }] := by
  have hn : s.toNat % 128 = n ∧ ¬ s.toNat % 128 = 0 ∧ ¬ s.toNat % 128 = 127 := by
    unfold classify at h
    split at h
    · cases h
    · split at h
      · split at h <;> cases h
      · rename_i h0 h1; injection h with h; exact ⟨h, h0, h1⟩
  have hs : 1 ≤ s.toNat % 128 ∧ s.toNat % 128 ≤ 126 := by omega
  obtain ⟨rfl, h0, _⟩ := hn
  refine ⟨_, List.mem_cons_of_mem _ (List.mem_cons_self ..), ?_⟩
  unfold statusFailures statusChain
  simp only [chainFailures, condHolds, classOfArm, textOfArm]
  rw [wIfExited_eq, wIfSignaled_eq, wTermSig_eq]
  simp [h0, hs]

/-! ## one failure per death event -/

theorem expected_of_nonFinal : ∀ (pre : List WaitOutcome), (∀ o ∈ pre, o.nonFinal = true) →
    classes (pre.flatMap outcomeFailures) = pre.flatMap WaitOutcome.expected ∧
    pre.flatMap WaitOutcome.expected = List.replicate (stopCount pre) FailClass.stopped
  | [], _ => by simp [classes]
  | .eintr :: pre, h => by
    have ih := expected_of_nonFinal pre (fun o ho => h o (List.mem_cons_of_mem _ ho))
    simp only [List.flatMap_cons, outcomeFailures, WaitOutcome.expected, List.nil_append, stopCount_eintr]
    exact ih
  | .error :: pre, h => by
    have := h .error (List.mem_cons_self ..)
    simp [WaitOutcome.nonFinal] at this
  | .status s :: pre, h => by
    have ih := expected_of_nonFinal pre (fun o ho => h o (List.mem_cons_of_mem _ ho))
    have hs := h (.status s) (List.mem_cons_self ..)
    simp only [WaitOutcome.nonFinal, Bool.not_eq_true'] at hs
    simp only [List.flatMap_cons, outcomeFailures, WaitOutcome.expected, stopCount_status, contOf_eq]
    constructor
    · have := statusFailures_classes s
      simp only [classes, List.map_append] at this ih ⊢
      rw [this, ih.1]
    · rw [ih.2]
      cases hc : classify s with
      | exited c => simp [hc, StatusClass.terminal] at hs
      | signaled n => simp [hc, StatusClass.terminal] at hs
      | stopped k =>
        simp [StatusClass.expected, StatusClass.isStopped]
        rw [Nat.add_comm, List.replicate_succ]
      | other => simp [StatusClass.expected, StatusClass.isStopped]

/-- **Every death is recorded once.**  Whatever kept the parent waiting before (EINTR within the
    retry budget, stops, continued-style words), when `waitpid` reports that the child exited or
    was killed the parent has recorded exactly: one `stopped` failure per stop, then the failure
    of the final status (signal n ↦ "killed by signal n", non-zero exit ↦ "failed", exit 0 ↦
    nothing); it has sent one SIGCONT per stop, used exactly the results up to the final one and
    left the loop. -/
theorem every_death_recorded_once (pre : List WaitOutcome) (s : BitVec 32) (post : List WaitOutcome)
    (hpre : ∀ o ∈ pre, o.nonFinal = true) (hb : eintrCount pre ≤ retryBound + 1)
    (ht : (classify s).terminal = true) :
    classes (parentLoop 0 (pre ++ .status s :: post)).failures
        = List.replicate (stopCount pre) FailClass.stopped ++ (classify s).expected ∧
    (parentLoop 0 (pre ++ .status s :: post)).consumed = pre.length + 1 ∧
    (parentLoop 0 (pre ++ .status s :: post)).conts = stopCount pre ∧
    (parentLoop 0 (pre ++ .status s :: post)).ended = .childGone := by
  have happ := parentLoop_append pre 0 (.status s :: post) hpre (by omega)
  have hterm : (wIfExited s || wIfSignaled s) = true := by rw [terminal_eq]; exact ht
  have hstop : contOf s = 0 := by
    rw [contOf_eq]
    cases hc : classify s <;> simp [hc, StatusClass.terminal, StatusClass.isStopped] at ht ⊢
  rw [happ, parentLoop_status, if_pos hterm]
  have he := expected_of_nonFinal pre hpre
  refine ⟨?_, rfl, by simp [hstop], rfl⟩
  simp only [classes, List.map_append] at he ⊢
  rw [he.1, he.2]
  exact congrArg _ (statusFailures_classes s)

/-- killed by signal `n` (any `n`, with or without core dump), after any admissible prefix:
    the last failure recorded is "killed by signal n", and it is the only one apart from stops -/
theorem signal_death_recorded_once (pre : List WaitOutcome) (s : BitVec 32) (n : Nat) (post : List WaitOutcome)
    (hpre : ∀ o ∈ pre, o.nonFinal = true) (hb : eintrCount pre ≤ retryBound + 1)
    (hs : classify s = .signaled n) :
    classes (parentLoop 0 (pre ++ .status s :: post)).failures
      = List.replicate (stopCount pre) FailClass.stopped ++ [.killedBySignal n] := by
  have := (every_death_recorded_once pre s post hpre hb (by simp [hs, StatusClass.terminal])).1
  simpa [hs, StatusClass.expected] using this

/-- exit with any non-zero status (also: the child's test failed a check, `childExitCode`) -/
theorem nonzero_exit_recorded_once (pre : List WaitOutcome) (s : BitVec 32) (c : Nat) (post : List WaitOutcome)
    (hpre : ∀ o ∈ pre, o.nonFinal = true) (hb : eintrCount pre ≤ retryBound + 1)
    (hs : classify s = .exited (c + 1)) :
    classes (parentLoop 0 (pre ++ .status s :: post)).failures
      = List.replicate (stopCount pre) FailClass.stopped ++ [.exitedNonZero] := by
  have := (every_death_recorded_once pre s post hpre hb (by simp [hs, StatusClass.terminal])).1
  simpa [hs, StatusClass.expected] using this

/-- a child whose test recorded a failure exits with a non-zero status, otherwise with 0 -/
theorem failed_check_exits_nonzero (i f : Nat) : childExitCode i f ≠ 0 ↔ i < f := by
  unfold childExitCode; split <;> simp_all

/-- **A normal exit adds no failure**, however many interrupted waits (within the budget) and
    continued-style words came before it, as long as the child was never stopped. -/
theorem normal_exit_no_failure (pre : List WaitOutcome) (s : BitVec 32) (post : List WaitOutcome)
    (hpre : ∀ o ∈ pre, o.nonFinal = true) (hb : eintrCount pre ≤ retryBound + 1)
    (hstops : stopCount pre = 0) (hs : classify s = .exited 0) :
    (parentLoop 0 (pre ++ .status s :: post)).failures = [] ∧
    (parentLoop 0 (pre ++ .status s :: post)).ended = .childGone := by
  have h := every_death_recorded_once pre s post hpre hb (by simp [hs, StatusClass.terminal])
  refine ⟨?_, h.2.2.2⟩
  have := h.1
  simp [hs, hstops, StatusClass.expected, classes] at this
  exact this

/-- **Stops, for every result list at all:** the number of `stopped` failures equals the number
    of stop results used equals the number of SIGCONTs sent. -/
theorem stop_recorded_once (outs : List WaitOutcome) (r : Nat) :
    (classes (parentLoop r outs).failures).count .stopped = stopCount (outs.take (parentLoop r outs).consumed) ∧
    (parentLoop r outs).conts = stopCount (outs.take (parentLoop r outs).consumed) := by
  refine ⟨?_, conts_exact outs r⟩
  rw [failures_exact]
  have hend : ∀ e, (classes (endFailures e)).count FailClass.stopped = 0 := by
    intro e; cases e <;> simp [endFailures, classes, giveUpFailure, waitFailure, forkFailure, noForkFailure]
  have hone : ∀ o : WaitOutcome, (classes (outcomeFailures o)).count FailClass.stopped = stopCount [o] := by
    intro o
    cases o with
    | eintr => simp [outcomeFailures, classes]
    | error => simp [outcomeFailures, classes]
    | status s =>
      simp only [outcomeFailures, statusFailures_classes, stopCount_status, contOf_eq, stopCount_nil]
      cases hc : classify s with
      | exited c => cases c <;> simp [StatusClass.expected, StatusClass.isStopped]
      | signaled n => simp [StatusClass.expected, StatusClass.isStopped]
      | stopped k => simp [StatusClass.expected, StatusClass.isStopped]
      | other => simp [StatusClass.expected, StatusClass.isStopped]
  have hall : ∀ l : List WaitOutcome, (classes (l.flatMap outcomeFailures)).count FailClass.stopped = stopCount l := by
    intro l
    induction l with
    | nil => simp [classes]
    | cons o l ih =>
      have h1 := hone o
      simp only [classes, List.flatMap_cons, List.map_append, List.count_append] at h1 ih ⊢
      rw [h1, ih]
      simp [stopCount, List.countP_cons]; omega
  simp only [classes, List.map_append, List.count_append] at hend hall ⊢
  rw [hall, hend]; simp

/-! ## fork and wait failures -/

/-- **fork fails:** exactly one failure, nothing is waited for. -/
theorem fork_failure_reported (outs : List WaitOutcome) :
    runSeparate { forkOk := false, outs := outs } =
      { failures := [forkFailure], consumed := 0, conts := 0, ended := .forkFailed } := rfl

/-- **waitpid fails (not EINTR):** exactly one more failure, and the parent returns. -/
theorem wait_error_reported (pre post : List WaitOutcome)
    (hpre : ∀ o ∈ pre, o.nonFinal = true) (hb : eintrCount pre ≤ retryBound + 1) :
    classes (parentLoop 0 (pre ++ .error :: post)).failures
        = List.replicate (stopCount pre) FailClass.stopped ++ [.waitFailed] ∧
    (parentLoop 0 (pre ++ .error :: post)).consumed = pre.length + 1 ∧
    (parentLoop 0 (pre ++ .error :: post)).ended = .waitError := by
  have happ := parentLoop_append pre 0 (.error :: post) hpre (by omega)
  rw [happ, parentLoop_error]
  have he := expected_of_nonFinal pre hpre
  refine ⟨?_, rfl, rfl⟩
  simp only [classes, List.map_append] at he ⊢
  rw [he.1, he.2]; rfl

/-! ## interrupted waits -/

theorem replicate_eintr_facts (n : Nat) :
    (∀ o ∈ List.replicate n WaitOutcome.eintr, o.nonFinal = true) ∧
    eintrCount (List.replicate n .eintr) = n ∧ stopCount (List.replicate n .eintr) = 0 ∧
    (List.replicate n WaitOutcome.eintr).flatMap outcomeFailures = [] := by
  induction n with
  | zero => simp
  | succ n ih =>
    obtain ⟨h1, h2, h3, h4⟩ := ih
    refine ⟨?_, ?_, ?_, ?_⟩
    · intro o ho
      rw [List.replicate_succ] at ho
      rcases List.mem_cons.mp ho with e | e
      · subst e; rfl
      · exact h1 o e
    · simp [List.replicate_succ, h2]
    · simp [List.replicate_succ, h3]
    · simp [List.replicate_succ, outcomeFailures, h4]

/-- up to `retryBound + 1` interrupted waits in a row are retried: the parent goes on with what
    comes next and records nothing for them (the child is not lost) -/
theorem eintr_retried (n : Nat) (rest : List WaitOutcome) (h : n ≤ retryBound + 1) :
    parentLoop 0 (List.replicate n .eintr ++ rest) =
      { failures := (parentLoop n rest).failures, consumed := n + (parentLoop n rest).consumed,
        conts := (parentLoop n rest).conts, ended := (parentLoop n rest).ended } := by
  obtain ⟨h1, h2, h3, h4⟩ := replicate_eintr_facts n
  have := parentLoop_append (List.replicate n .eintr) 0 rest h1 (by omega)
  rw [this, h2, h3, h4]; simp

/-- `retryBound + 2` or more interrupted waits in a row: the parent returns after exactly
    `retryBound + 2` of them with exactly one failure, whatever follows -/
theorem eintr_gives_up (n : Nat) (rest : List WaitOutcome) (h : retryBound + 2 ≤ n) :
    parentLoop 0 (List.replicate n .eintr ++ rest) =
      { failures := [giveUpFailure], consumed := retryBound + 2, conts := 0, ended := .gaveUp } := by
  obtain ⟨k, rfl⟩ : ∃ k, n = (retryBound + 1) + (k + 1) := ⟨n - (retryBound + 2), by omega⟩
  rw [← List.replicate_append_replicate, List.append_assoc, eintr_retried _ _ (Nat.le_refl _),
    List.replicate_succ, List.cons_append, parentLoop_eintr, if_pos (by omega)]
  rfl

/-- **Interrupted waits are retried a bounded number of times — for every result list:** the
    parent never uses more than `retryBound + 2` EINTR results in total (the counter is not reset
    by a successful wait), it gives up exactly when it has used that many, and giving up is
    exactly one failure. -/
theorem eintr_retries_bounded (outs : List WaitOutcome) :
    eintrCount (outs.take (parentLoop 0 outs).consumed) ≤ retryBound + 2 ∧
    ((parentLoop 0 outs).ended = .gaveUp ↔
      eintrCount (outs.take (parentLoop 0 outs).consumed) = retryBound + 2) ∧
    (classes (parentLoop 0 outs).failures).count .eintrGiveUp
      = (if (parentLoop 0 outs).ended = .gaveUp then 1 else 0) := by
  have h := eintr_used_le outs 0 (by omega)
  refine ⟨by omega, by simpa using h.2, ?_⟩
  rw [failures_exact]
  have hall : ∀ l : List WaitOutcome, (classes (l.flatMap outcomeFailures)).count FailClass.eintrGiveUp = 0 := by
    intro l
    induction l with
    | nil => simp [classes]
    | cons o l ih =>
      simp only [classes, List.flatMap_cons, List.map_append, List.count_append] at ih ⊢
      rw [ih]
      cases o with
      | eintr => simp [outcomeFailures]
      | error => simp [outcomeFailures]
      | status s =>
        have := statusFailures_classes s
        simp only [classes] at this
        simp only [outcomeFailures, this]
        cases hc : classify s with
        | exited c => cases c <;> simp [StatusClass.expected]
        | signaled n => simp [StatusClass.expected]
        | stopped k => simp [StatusClass.expected]
        | other => simp [StatusClass.expected]
  simp only [classes, List.map_append, List.count_append] at hall ⊢
  rw [hall]
  cases (parentLoop 0 outs).ended <;> simp [endFailures, giveUpFailure, waitFailure, forkFailure, noForkFailure]

/-- the bound the source states is a small constant: at most `retryBound + 2 ≤ 1002` waits are
    ever interrupted before the parent returns -/
theorem retry_bound_is_small : retryBound ≤ 1000 := by decide

/-! ## when the loop ends -/

theorem take_len_succ {α} (pre : List α) (x : α) (post : List α) :
    (pre ++ x :: post).take (pre.length + 1) = pre ++ [x] := by
  induction pre with
  | nil => simp
  | cons a l ih => simpa using ih

/-- **The loop leaves through its condition iff the child exited or was killed**, and then at
    the first such status: everything before it kept the child alive and stayed within the
    retry budget. -/
theorem loop_ends_iff_exited_or_signalled (outs : List WaitOutcome) :
    (parentLoop 0 outs).ended = .childGone ↔
      ∃ pre s post, outs = pre ++ .status s :: post ∧ (∀ o ∈ pre, o.nonFinal = true) ∧
        eintrCount pre ≤ retryBound + 1 ∧ (classify s).terminal = true := by
  constructor
  · intro h
    obtain ⟨pre, s, post, e, hnf, ht, hc⟩ := childGone_only_if outs 0 h
    refine ⟨pre, s, post, e, hnf, ?_, ht⟩
    have hb := eintr_used_le outs 0 (by omega)
    have hne : ¬ (parentLoop 0 outs).ended = .gaveUp := by rw [h]; simp
    have htake : outs.take (parentLoop 0 outs).consumed = pre ++ [.status s] := by
      rw [hc, e]; exact take_len_succ pre _ post
    rw [htake] at hb
    have hcnt : eintrCount (pre ++ [.status s]) = eintrCount pre := by
      simp [eintrCount, List.countP_append, WaitOutcome.isEintr]
    rw [hcnt] at hb
    have := hb.1
    have h2 := hb.2
    simp only [Nat.zero_add] at this h2
    rcases Nat.lt_or_ge (eintrCount pre) (retryBound + 2) with hlt | hge
    · omega
    · exact absurd (h2.mpr (by omega)) hne
  · rintro ⟨pre, s, post, e, hnf, hb, ht⟩
    rw [e]
    exact (every_death_recorded_once pre s post hnf hb ht).2.2.2

/-- the parent never calls `waitpid` again after a result that ended the waiting -/
theorem never_waits_past_the_end (outs : List WaitOutcome) :
    ∀ o ∈ outs.take ((parentLoop 0 outs).consumed - 1), o.nonFinal = true :=
  used_prefix_nonFinal outs 0

/-- **No hanging, no lost child:** if the results contain the child's death or a waitpid error,
    or at least `retryBound + 2` EINTRs, the parent returns; if it is still waiting, it has used
    every result it was given. -/
theorem parent_returns (outs : List WaitOutcome)
    (h : HasFinal outs ∨ retryBound + 2 ≤ eintrCount outs) :
    (parentLoop 0 outs).ended ≠ .starved := by
  intro hs
  obtain ⟨hnf, _, hb⟩ := starved_only_if outs 0 (by omega) hs
  rcases h with ⟨o, ho, hf⟩ | h
  · rw [hnf o ho] at hf; cases hf
  · omega

theorem still_waiting_used_everything (outs : List WaitOutcome)
    (h : (parentLoop 0 outs).ended = .starved) : (parentLoop 0 outs).consumed = outs.length :=
  (starved_only_if outs 0 (by omega) h).2.1

/-- the exact account of the failures, for every result list: those of the results used, in
    order, plus the one that ends a failed wait -/
theorem failures_account (outs : List WaitOutcome) :
    (parentLoop 0 outs).failures =
      (outs.take (parentLoop 0 outs).consumed).flatMap outcomeFailures ++ endFailures (parentLoop 0 outs).ended :=
  failures_exact outs 0

/-! ## composition with the registry loop -/

/-- failures the tests of a registry add, summed -/
def failuresOf (ts : List TestScript) : Nat := (ts.map (fun t => (runSeparate t).failures.length)).sum

theorem runResults_all : ∀ (rs : List LoopResult) (idx : Nat) (st : RunState),
    (∀ r ∈ rs, r.ended ≠ .starved) → st.hung = false →
    (runResults idx rs st).started = st.started ++ List.range' idx rs.length ∧
    (runResults idx rs st).runCount = st.runCount + rs.length ∧
    (runResults idx rs st).failureCount = st.failureCount + (rs.map (·.failures.length)).sum ∧
    (runResults idx rs st).hung = false ∧ (runResults idx rs st).inRunner = st.inRunner
  | [], idx, st, _, hh => by simp [runResults, hh]
  | r :: rs, idx, st, hr, hh => by
    have hret : r.ended ≠ .starved := hr r (List.mem_cons_self ..)
    have hhung : (runResultAt idx r st).hung = false := by simp [runResultAt, hret]
    have ih := runResults_all rs (idx + 1) (runResultAt idx r st)
      (fun r' hr' => hr r' (List.mem_cons_of_mem _ hr')) hhung
    simp only [runResults, hhung, Bool.false_eq_true, if_false]
    obtain ⟨i1, i2, i3, i4, i5⟩ := ih
    refine ⟨?_, ?_, ?_, i4, ?_⟩
    · rw [i1]; simp [runResultAt, List.range'_succ]
    · rw [i2]; simp [runResultAt]; omega
    · rw [i3]; simp [runResultAt, RunState.failureCount]; omega
    · rw [i5]; simp [runResultAt]

theorem runTests_all (ts : List TestScript) (idx : Nat) (st : RunState)
    (hr : ∀ t ∈ ts, t.returns) (hh : st.hung = false) :
    (runTests idx ts st).started = st.started ++ List.range' idx ts.length ∧
    (runTests idx ts st).runCount = st.runCount + ts.length ∧
    (runTests idx ts st).failureCount = st.failureCount + failuresOf ts ∧
    (runTests idx ts st).hung = false := by
  have h := runResults_all (ts.map runSeparate) idx st
    (by intro r hr'; obtain ⟨t, ht, rfl⟩ := List.mem_map.mp hr'; exact hr t ht) hh
  simp only [List.length_map, List.map_map] at h
  exact ⟨h.1, h.2.1, h.2.2.1, h.2.2.2.1⟩

/-- **The parent goes on to the remaining tests:** when every test's wait returns (see
    `parent_returns`), every test of the registry is started, in order, and counted as run —
    whatever happened to the earlier ones. -/
theorem later_tests_still_run (ts : List TestScript) (h : ∀ t ∈ ts, t.returns) :
    (runAll ts).started = List.range ts.length ∧ (runAll ts).runCount = ts.length ∧
    (runAll ts).hung = false ∧ (runAll ts).failureCount = failuresOf ts := by
  obtain ⟨h1, h2, h3, h4⟩ := runTests_all ts 0 RunState.init h rfl
  refine ⟨?_, ?_, h4, ?_⟩
  · rw [runAll, h1]; simp [RunState.init, List.range_eq_range']
  · rw [runAll, h2]; simp [RunState.init]
  · rw [runAll, h3]; simp [RunState.init, RunState.failureCount]

/-- a test "dies" (in the property's sense) exactly when its run adds a failure -/
theorem no_failure_iff_clean (t : TestScript) :
    (runSeparate t).failures = [] ↔
      t.forkOk = true ∧ endFailures (runSeparate t).ended = [] ∧
      ∀ o ∈ t.outs.take (runSeparate t).consumed, outcomeFailures o = [] := by
  unfold runSeparate
  cases hf : t.forkOk with
  | false => simp [forkFailure]
  | true =>
    simp only [if_true, true_and]
    rw [failures_exact]
    simp [List.flatMap_eq_nil_iff, and_comm]

theorem sum_lengths_ne_zero_iff (ts : List TestScript) :
    (ts.map (fun t => (runSeparate t).failures.length)).sum ≠ 0 ↔ ∃ t ∈ ts, (runSeparate t).failures ≠ [] := by
  induction ts with
  | nil => simp
  | cons t ts ih =>
    simp only [List.map_cons, List.sum_cons, List.mem_cons, exists_eq_or_imp]
    rw [← ih]
    cases hl : (runSeparate t).failures with
    | nil => simp
    | cons f fs => simp

/-- **Overall result:** the run is reported as failed iff some test added a failure; in
    particular one dying test is enough, wherever it is in the registry. -/
theorem overall_failure (ts : List TestScript) (h : ∀ t ∈ ts, t.returns) :
    (runAll ts).overallFailure = true ↔ ∃ t ∈ ts, (runSeparate t).failures ≠ [] := by
  have hc := (later_tests_still_run ts h).2.2.2
  rw [← sum_lengths_ne_zero_iff]
  simp only [RunState.overallFailure, hc, failuresOf, bne_iff_ne, ne_eq]

/-- a registry in which a test is killed by a signal: all tests run and the result is a failure -/
theorem one_signal_death_fails_the_run (before after : List TestScript) (pre post : List WaitOutcome)
    (s : BitVec 32) (n : Nat)
    (hb : ∀ t ∈ before, t.returns) (ha : ∀ t ∈ after, t.returns)
    (hpre : ∀ o ∈ pre, o.nonFinal = true) (hbud : eintrCount pre ≤ retryBound + 1)
    (hs : classify s = .signaled n) :
    let ts := before ++ { forkOk := true, outs := pre ++ .status s :: post } :: after
    (runAll ts).started = List.range ts.length ∧ (runAll ts).overallFailure = true := by
  intro ts
  have hdeath := every_death_recorded_once pre s post hpre hbud (by simp [hs, StatusClass.terminal])
  have hret : ∀ t ∈ ts, t.returns := by
    intro t ht
    rcases List.mem_append.mp ht with h | h
    · exact hb t h
    · rcases List.mem_cons.mp h with h | h
      · subst h
        simp [TestScript.returns, runSeparate, hdeath.2.2.2]
      · exact ha t h
  refine ⟨(later_tests_still_run ts hret).1, ?_⟩
  rw [overall_failure ts hret]
  refine ⟨_, List.mem_append_right _ (List.mem_cons_self ..), ?_⟩
  intro hnil
  have := hdeath.1
  simp only [runSeparate, if_true] at hnil
  rw [hnil] at this
  simp [classes, hs, StatusClass.expected] at this

/-! ## every test of the registry is forked (the per-test flag) -/

/-- `runAllTests` sets the separate-process flag for every test, not only at a group start
    (regenerated from the position of the statement in the loop) -/
theorem sep_flag_set_for_every_test : sepFlagPlacement = .everyTest := by decide

theorem runResults_inRunner : ∀ (rs : List LoopResult) (idx : Nat) (st : RunState),
    (runResults idx rs st).inRunner = st.inRunner
  | [], _, _ => rfl
  | r :: rs, idx, st => by
    simp only [runResults]
    split
    · rfl
    · rw [runResults_inRunner rs (idx + 1)]; rfl

theorem runRegistryFrom_everyTest : ∀ (ts : List RegTest) (idx : Nat) (gs : Bool) (st : RunState),
    runRegistryFrom .everyTest idx gs ts st = runTests idx (ts.map (·.script)) st
  | [], _, _, _ => rfl
  | t :: ts, idx, gs, st => by
    simp only [runRegistryFrom, sepFlag, if_true, runTests, List.map_cons, runResults]
    split
    · rfl
    · exact runRegistryFrom_everyTest ts (idx + 1) _ _

/-- **Whatever the grouping of the tests, every test is run through fork:** the registry as the
    source has it behaves like a registry whose tests all carry the flag, and no test is ever
    executed inside the runner process — so a dying test can only kill its own child. -/
theorem registry_forks_every_test (ts : List RegTest) :
    runRegistry ts = runAll (ts.map (·.script)) ∧ (runRegistry ts).inRunner = [] := by
  have h : runRegistry ts = runAll (ts.map (·.script)) := by
    unfold runRegistry; rw [sep_flag_set_for_every_test]; exact runRegistryFrom_everyTest ts 0 true _
  refine ⟨h, ?_⟩
  rw [h, runAll, runTests, runResults_inRunner]; rfl

/-- what the model says about the other placement: with the statement inside `if (groupStart)`,
    the second test of a group is executed in the runner itself (this is the behaviour the
    harness looks for with registries whose dying test is not the first of its group) -/
theorem group_start_only_misses_later_tests (g : Nat) (t1 t2 : TestScript) (h : t1.returns) :
    (runRegistryFrom .groupStartOnly 0 true [⟨g, t1⟩, ⟨g, t2⟩] RunState.init).inRunner = [1] := by
  have hh : ¬ (runSeparate t1).ended = .starved := h
  simp [runRegistryFrom, sepFlag, endOfGroup, hh, runInRunnerAt, runResultAt, RunState.init]

/-- **`-p` anywhere on the command line switches separate-process mode on, whatever other
    switches are given with it** (the statement list of `initializeTestRun` is regenerated: an
    `else` coupling `-p` to another switch falsifies this) -/
theorem dash_p_switches_separate_mode_on (v vv c ri f : Bool) :
    separateModeOn { verbose := v, veryVerbose := vv, color := c, separateProcess := true,
                     runIgnored := ri, crashOnFail := f } = true := by
  revert v vv c ri f; decide

/-- … and then every test is forked, none runs inside the runner -/
theorem dash_p_forks_every_test (a : CliArgs) (ts : List RegTest) (h : a.separateProcess = true) :
    runCommandLine a ts = runAll (ts.map (·.script)) ∧ (runCommandLine a ts).inRunner = [] := by
  have hon : separateModeOn a = true := by
    cases a with
    | mk v vv c p ri f => simp at h; subst h; exact dash_p_switches_separate_mode_on v vv c ri f
  unfold runCommandLine; rw [hon]; simp only [if_true]
  exact registry_forks_every_test ts

/-- no statement of `initializeTestRun` is coupled to the one before it by `else` -/
theorem init_statements_independent : initStatements.all (fun s => !s.isElse) = true := by decide

/-! ## every kind of test is forked: `IGNORE_TEST` entries under run-ignored (`-ri`) -/

/-- the run-ignored branch of `IgnoredUtestShell::runOneTest` goes through `UtestShell::runOneTest`,
    i.e. through the same separate-process decision as every other test (regenerated) -/
theorem ignored_shell_goes_through_runOneTest : ignoredRunCall = .viaRunOneTest := by decide

theorem runKindsFrom_all_forked : ∀ (ts : List KTest) (idx : Nat) (gs : Bool) (st : RunState),
    runKindsFrom .viaRunOneTest .everyTest true idx gs ts st = runTests idx (ts.map (·.script)) st
  | [], _, _, _ => rfl
  | t :: ts, idx, gs, st => by
    have hh : howRun .viaRunOneTest true (sepFlag .everyTest gs) t.kind = .forked := by
      cases t.kind <;> simp [howRun, sepFlag]
    simp only [runKindsFrom, hh, runTests, List.map_cons, runResults]
    split
    · rfl
    · exact runKindsFrom_all_forked ts (idx + 1) _ _

theorem runKindsFrom_inRunner : ∀ (ts : List KTest) (ri : Bool) (idx : Nat) (gs : Bool) (st : RunState),
    (runKindsFrom .viaRunOneTest .everyTest ri idx gs ts st).inRunner = st.inRunner
  | [], _, _, _, _ => rfl
  | t :: ts, ri, idx, gs, st => by
    cases hk : t.kind <;> cases ri <;>
      simp only [runKindsFrom, howRun, sepFlag, hk, if_true, Bool.false_eq_true, if_false]
    all_goals first
      | (split
         · rfl
         · rw [runKindsFrom_inRunner ts _ (idx + 1)]; rfl)
      | (rw [runKindsFrom_inRunner ts _ (idx + 1)]; rfl)

/-- **Whatever its kind, no test is ever executed inside the runner in separate-process mode**, with
    or without run-ignored; and with run-ignored every entry — `TEST` or `IGNORE_TEST` — is forked
    exactly like a registry of ordinary tests, so every theorem above (one failure per death, later
    tests still run, overall failure) covers dying `IGNORE_TEST`s run with `-ri` as well. -/
theorem every_kind_is_forked (ts : List KTest) (ri : Bool) :
    (runKinds ri ts).inRunner = [] ∧ runKinds true ts = runAll (ts.map (·.script)) := by
  unfold runKinds
  rw [sep_flag_set_for_every_test, ignored_shell_goes_through_runOneTest]
  exact ⟨by rw [runKindsFrom_inRunner]; rfl, runKindsFrom_all_forked ts 0 true _⟩

/-- deaths of run-ignored tests are contained: all entries are started in order and the run fails
    iff some entry added a failure -/
theorem run_ignored_deaths_contained (ts : List KTest) (h : ∀ t ∈ ts, t.script.returns) :
    (runKinds true ts).started = List.range ts.length ∧ (runKinds true ts).hung = false ∧
    ((runKinds true ts).overallFailure = true ↔ ∃ t ∈ ts, (runSeparate t.script).failures ≠ []) := by
  have hr : ∀ t ∈ ts.map (·.script), t.returns := by
    intro t ht; obtain ⟨k, hk, rfl⟩ := List.mem_map.mp ht; exact h k hk
  rw [(every_kind_is_forked ts true).2]
  have h1 := later_tests_still_run _ hr
  refine ⟨by simpa using h1.1, h1.2.2.1, ?_⟩
  rw [overall_failure _ hr]
  constructor
  · rintro ⟨t, ht, hf⟩; obtain ⟨k, hk, rfl⟩ := List.mem_map.mp ht; exact ⟨k, hk, hf⟩
  · rintro ⟨k, hk, hf⟩; exact ⟨k.script, List.mem_map.mpr ⟨k, hk, rfl⟩, hf⟩

/-- what the model says about the other shape of the branch: an `IGNORE_TEST` run with `-ri` is
    executed in the runner itself (a dying body takes the runner down) -/
theorem ignored_in_current_process_escapes (g : Nat) (t : TestScript) (ts : List KTest) :
    0 ∈ (runKindsFrom .inCurrentProcess .everyTest true 0 true (⟨.ignored, g, t⟩ :: ts) RunState.init).inRunner := by
  have mono : ∀ (ts : List KTest) (idx : Nat) (gs : Bool) (st : RunState), 0 ∈ st.inRunner →
      0 ∈ (runKindsFrom .inCurrentProcess .everyTest true idx gs ts st).inRunner := by
    intro ts
    induction ts with
    | nil => intro _ _ _ h; exact h
    | cons k ks ih =>
      intro idx gs st h
      cases hk : k.kind <;> simp only [runKindsFrom, howRun, sepFlag, hk, if_true]
      · split
        · exact h
        · exact ih _ _ _ h
      · exact ih _ _ _ (by simp [runInRunnerAt, h])
  simp only [runKindsFrom, howRun, if_true]
  exact mono _ _ _ _ (by simp [runInRunnerAt, RunState.init])

/-- `-p -ri` (with any other switches): separate-process mode and run-ignored are both switched on,
    and nothing runs inside the runner -/
theorem dash_p_dash_ri_forks_every_kind (a : CliArgs) (ts : List KTest) (hp : a.separateProcess = true) :
    (runCommandLineKinds a ts).inRunner = [] ∧
    (a.runIgnored = true → runCommandLineKinds a ts = runAll (ts.map (·.script))) := by
  have hon : separateModeOn a = true := by
    cases a with
    | mk v vv c p ri f => simp at hp; subst hp; exact dash_p_switches_separate_mode_on v vv c ri f
  unfold runCommandLineKinds
  rw [hon]; simp only [if_true]
  refine ⟨(every_kind_is_forked ts _).1, ?_⟩
  intro hri
  have : runIgnoredOn a = true := by
    cases a with
    | mk v vv c p ri f => simp at hri hp; subst hri; subst hp; revert v vv c f; decide
  rw [this]; exact (every_kind_is_forked ts true).2

/-! ## the build without fork / waitpid / kill -/

/-- **No fork on this platform:** `-p` cannot work; every test run in separate-process mode is
    given exactly one failure saying so, nothing is forked or waited for. -/
theorem no_fork_platform_reports_failure (t : TestScript) :
    runSeparateOn .withoutFork t =
      { failures := [noForkFailure], consumed := 0, conts := 0, ended := .noFork } := rfl

theorem with_fork_platform_is_the_wait_loop (ts : List TestScript) : runAllOn .withFork ts = runAll ts := rfl

/-- on such a build every test is still started and counted, each one fails once, and a
    non-empty run is reported as failed -/
theorem no_fork_platform_all_tests_fail (ts : List TestScript) :
    (runAllOn .withoutFork ts).started = List.range ts.length ∧
    (runAllOn .withoutFork ts).runCount = ts.length ∧
    (runAllOn .withoutFork ts).failureCount = ts.length ∧
    (runAllOn .withoutFork ts).hung = false ∧
    (ts ≠ [] → (runAllOn .withoutFork ts).overallFailure = true) := by
  have h := runResults_all (ts.map (runSeparateOn .withoutFork)) 0 RunState.init
    (by intro r hr; obtain ⟨t, _, rfl⟩ := List.mem_map.mp hr; simp [runSeparateOn]) rfl
  have hsum : ∀ l : List TestScript,
      ((l.map (runSeparateOn .withoutFork)).map (·.failures.length)).sum = l.length := by
    intro l
    induction l with
    | nil => rfl
    | cons t l ih =>
      simp only [List.map_cons, List.sum_cons, List.length_cons, ih]
      simp [runSeparateOn]; omega
  simp only [List.length_map, hsum ts] at h
  have hc : (runAllOn .withoutFork ts).failureCount = ts.length := by
    rw [runAllOn, h.2.2.1]; simp [RunState.init, RunState.failureCount]
  refine ⟨?_, ?_, hc, h.2.2.2.1, ?_⟩
  · rw [runAllOn, h.1]; simp [RunState.init, List.range_eq_range']
  · rw [runAllOn, h.2.1]; simp [RunState.init]
  · intro hne
    simp only [RunState.overallFailure, hc, bne_iff_ne, ne_eq]
    cases ts with
    | nil => exact absurd rfl hne
    | cons t ts => simp

/-! ## the child's side -/

def addedBy : List ChildStep → Nat
  | [] => 0
  | .adds k :: rest => k + addedBy rest
  | .dies _ :: rest => addedBy rest

def noDeath : List ChildStep → Bool
  | [] => true
  | .adds _ :: rest => noDeath rest
  | .dies _ :: _ => false

theorem childStatus_no_death : ∀ (steps : List ChildStep) (initial cur : Nat), noDeath steps = true →
    childStatus initial cur steps = BitVec.ofNat 32 (childExitCode initial (cur + addedBy steps) * 256)
  | [], _, _, _ => by simp [childStatus, addedBy]
  | .adds k :: rest, initial, cur, h => by
    have := childStatus_no_death rest initial (cur + k) (by simpa [noDeath] using h)
    simp only [childStatus, addedBy, this]; congr 3; omega
  | .dies s :: rest, _, _, h => by simp [noDeath] at h

/-- **A failure anywhere in the child makes it exit non-zero** — in a plugin's pre action, in
    setup, body or teardown, or reported by a plugin's post action straight into `result`; the
    verdict depends only on the failure counter, not on `UtestShell::hasFailed_`.  A child
    without failures exits with 0. -/
theorem child_exit_status (steps : List ChildStep) (initial : Nat) (h : noDeath steps = true) :
    classify (childStatus initial initial steps) = .exited (if addedBy steps = 0 then 0 else 1) := by
  rw [childStatus_no_death steps initial initial h]
  unfold childExitCode
  by_cases h0 : addedBy steps = 0
  · simp [h0]; decide
  · have : initial < initial + addedBy steps := by omega
    simp [h0, this]; decide

/-- a child that dies on the way ends with that status, whatever it had recorded before -/
theorem child_death_status : ∀ (pre : List ChildStep) (s : BitVec 32) (rest : List ChildStep) (initial cur : Nat),
    noDeath pre = true → childStatus initial cur (pre ++ .dies s :: rest) = s
  | [], _, _, _, _, _ => rfl
  | .adds k :: pre, s, rest, initial, cur, h => by
    simp only [List.cons_append, childStatus]
    exact child_death_status pre s rest initial (cur + k) (by simpa [noDeath] using h)
  | .dies _ :: _, _, _, _, _, h => by simp [noDeath] at h

/-- child and parent together: a child that fails a check (or whose plugin reports a failure)
    and then ends normally is recorded in the parent exactly once; one without failures not at all -/
theorem failing_child_recorded_once (steps : List ChildStep) (initial : Nat) (h : noDeath steps = true)
    (post : List WaitOutcome) :
    classes (parentLoop 0 (.status (childStatus initial initial steps) :: post)).failures
      = (if addedBy steps = 0 then [] else [.exitedNonZero]) := by
  have hc := child_exit_status steps initial h
  have := (every_death_recorded_once [] (childStatus initial initial steps) post (by simp) (by simp [eintrCount])
    (by simp [hc, StatusClass.terminal])).1
  simp only [List.nil_append, stopCount_nil, List.replicate_zero] at this
  rw [this, hc]
  by_cases h0 : addedBy steps = 0 <;> simp [h0, StatusClass.expected]

/-! ## the runner's exit code (`-p` on the command line ends in the same registry call) -/

/-- the process exit code of the runner is non-zero iff the run is a failure, and then it is the
    number of failures -/
theorem exit_code_reports_failure (st : RunState) (h : st.runCount ≠ 0) :
    (st.exitCode ≠ 0 ↔ st.overallFailure = true) ∧
    (st.overallFailure = true → st.exitCode = st.failureCount) := by
  unfold RunState.exitCode RunState.overallFailure
  by_cases hf : st.failureCount = 0
  · simp [hf, h]
  · simp [hf]

/-! ## the source itself: the function regenerated from the clang AST

`Gen/SeparateProcessLoop.lean` is produced on every run from the typed AST of
`SetTestFailureByStatusCode` and `GccPlatformSpecificRunTestInASeperateProcess` (macros expanded by
the installed headers, `status` a 32-bit `int`, `amountOfRetries` a 64-bit `size_t`).  The theorems
below say that it *is* the hand model, and restate the main results directly about it. -/

open Gen.SepProcLoop

/-- **The wait loop regenerated from the AST is the hand-written `parentLoop`** (as far as the
    source can tell: texts instead of classes), for every list of waitpid results, from every
    counter value the loop can reach, whatever `status` held before. -/
theorem genLoop_eq_parentLoop : ∀ (outs : List WaitOutcome) (r : Nat) (st : BitVec 32), r ≤ retryBound + 1 →
    genLoop outs (BitVec.ofNat 64 r) st = (parentLoop r outs).gen
  | [], _, _, _ => rfl
  | .eintr :: rest, r, st, h => by
    rw [genLoop, waitBodyGen_eintr r st h, parentLoop_eintr]
    by_cases hgt : r > retryBound
    · simp [hgt, genStep, LoopResult.gen, LoopEnd.gen, giveUpFailure]
    · have ih := genLoop_eq_parentLoop rest (r + 1) st (by omega)
      simp only [hgt, if_false, genStep, if_true, ih, gen_prepend, List.map_nil]
  | .error :: rest, r, st, _ => by
    rw [genLoop, waitBodyGen_error, parentLoop_error]
    simp [genStep, LoopResult.gen, LoopEnd.gen, waitFailure]
  | .status s :: rest, r, st, h => by
    have ih := genLoop_eq_parentLoop rest r s h
    rw [genLoop, waitBodyGen_status, parentLoop_status]
    cases hterm : (wIfExited s || wIfSignaled s)
    · simp [genStep, ih, gen_prepend]
    · simp [genStep, LoopResult.gen, LoopEnd.gen]

/-- the whole parent side of `GccPlatformSpecificRunTestInASeperateProcess`, as regenerated -/
theorem genRunSeparate_eq_model (t : TestScript) : genRunSeparate t = (runSeparate t).gen := by
  unfold genRunSeparate runSeparate
  cases t.forkOk
  · simp [genForkFailed, forkFailedGen, LoopResult.gen, LoopEnd.gen, forkFailure, msgForkFailed]
  · simp only [if_true]
    exact genLoop_eq_parentLoop t.outs 0 loopInitStatus (by omega)


/-- the regenerated `SetTestFailureByStatusCode`: one message per death event, none for exit 0 -/
theorem source_status_failures_exact (s : BitVec 32) :
    ∃ fs : List Failure, setTestFailureGen s = fs.map (·.text) ∧ classes fs = (classify s).expected :=
  ⟨statusFailures s, setTestFailureGen_eq s, statusFailures_classes s⟩

theorem source_status_failure_count (s : BitVec 32) :
    (setTestFailureGen s).length = (classify s).expected.length := by
  rw [setTestFailureGen_eq, List.length_map, ← statusFailures_classes s, classes, List.length_map]

/-- **Every death is recorded once — by the code as the source has it.**  Same statement as
    `every_death_recorded_once`, about the function regenerated from the AST: the number of failures
    added is one per stop plus what the final status asks for, the failures are those of the hand
    model (same texts, classes as proved there), one SIGCONT per stop, the loop is left through
    its `while` condition exactly at the final status. -/
theorem source_every_death_recorded_once (pre : List WaitOutcome) (s : BitVec 32) (post : List WaitOutcome)
    (hpre : ∀ o ∈ pre, o.nonFinal = true) (hb : eintrCount pre ≤ retryBound + 1)
    (ht : (classify s).terminal = true) :
    (∃ fs : List Failure,
      (genRunSeparate { forkOk := true, outs := pre ++ .status s :: post }).failures = fs.map (·.text) ∧
      classes fs = List.replicate (stopCount pre) FailClass.stopped ++ (classify s).expected) ∧
    (genRunSeparate { forkOk := true, outs := pre ++ .status s :: post }).failures.length
      = stopCount pre + (classify s).expected.length ∧
    (genRunSeparate { forkOk := true, outs := pre ++ .status s :: post }).consumed = pre.length + 1 ∧
    (genRunSeparate { forkOk := true, outs := pre ++ .status s :: post }).conts = stopCount pre ∧
    (genRunSeparate { forkOk := true, outs := pre ++ .status s :: post }).ended = .condFalse := by
  have h := every_death_recorded_once pre s post hpre hb ht
  rw [genRunSeparate_eq_model]
  simp only [runSeparate, if_true, LoopResult.gen]
  refine ⟨⟨_, rfl, h.1⟩, ?_, h.2.1, h.2.2.1, ?_⟩
  · have := congrArg List.length h.1
    simpa [classes] using this
  · rw [h.2.2.2]; rfl

/-- a signal death, as the source prints it: the last message is one of the source's message
    literals followed by the decimal number of the signal -/
theorem source_signal_message_names_signal (s : BitVec 32) (n : Nat) (h : classify s = .signaled n) :
    ∃ e ∈ statusChain, setTestFailureGen s = [e.msg ++ toString n] := by
  obtain ⟨e, he, hs⟩ := signal_message_names_signal s n h
  exact ⟨e, he, by rw [setTestFailureGen_eq, hs]; rfl⟩

/-- a normal exit adds nothing — in the regenerated function -/
theorem source_normal_exit_no_failure (pre : List WaitOutcome) (s : BitVec 32) (post : List WaitOutcome)
    (hpre : ∀ o ∈ pre, o.nonFinal = true) (hb : eintrCount pre ≤ retryBound + 1)
    (hstops : stopCount pre = 0) (hs : classify s = .exited 0) :
    (genRunSeparate { forkOk := true, outs := pre ++ .status s :: post }).failures = [] := by
  have h := normal_exit_no_failure pre s post hpre hb hstops hs
  rw [genRunSeparate_eq_model]
  simp [runSeparate, LoopResult.gen, h.1]

/-- fork fails: the regenerated function adds exactly its fork message and returns at once -/
theorem source_fork_failure_reported (outs : List WaitOutcome) :
    genRunSeparate { forkOk := false, outs := outs } =
      { failures := [msgForkFailed], consumed := 0, conts := 0, ended := .returned } := by
  rw [genRunSeparate_eq_model]; rfl

/-- waitpid fails: one more failure and a `return` -/
theorem source_wait_error_reported (pre post : List WaitOutcome)
    (hpre : ∀ o ∈ pre, o.nonFinal = true) (hb : eintrCount pre ≤ retryBound + 1) :
    (genRunSeparate { forkOk := true, outs := pre ++ .error :: post }).failures.length = stopCount pre + 1 ∧
    (genRunSeparate { forkOk := true, outs := pre ++ .error :: post }).ended = .returned := by
  have h := wait_error_reported pre post hpre hb
  rw [genRunSeparate_eq_model]
  simp only [runSeparate, if_true, LoopResult.gen]
  refine ⟨?_, by rw [h.2.2]; rfl⟩
  have := congrArg List.length h.1
  simpa [classes] using this

/-- **Bounded retry and no hanging — in the regenerated function:** it never uses more than
    `retryBound + 2` interrupted waits, and it returns whenever the results contain the child's
    death, a waitpid error or that many interruptions. -/
theorem source_retries_bounded_and_returns (outs : List WaitOutcome) :
    eintrCount (outs.take (genRunSeparate { forkOk := true, outs := outs }).consumed) ≤ retryBound + 2 ∧
    ((HasFinal outs ∨ retryBound + 2 ≤ eintrCount outs) →
      (genRunSeparate { forkOk := true, outs := outs }).ended ≠ .starved) := by
  rw [genRunSeparate_eq_model]
  simp only [runSeparate, if_true, LoopResult.gen]
  refine ⟨(eintr_retries_bounded outs).1, ?_⟩
  intro h hs
  have := parent_returns outs h
  cases he : (parentLoop 0 outs).ended <;> simp_all [LoopEnd.gen]

/-- the loop is left through its condition exactly when the hand model says the child is gone -/
theorem source_loop_ends_iff (outs : List WaitOutcome) :
    (genRunSeparate { forkOk := true, outs := outs }).ended = .condFalse ↔
      ∃ pre s post, outs = pre ++ .status s :: post ∧ (∀ o ∈ pre, o.nonFinal = true) ∧
        eintrCount pre ≤ retryBound + 1 ∧ (classify s).terminal = true := by
  rw [← loop_ends_iff_exited_or_signalled, genRunSeparate_eq_model]
  simp only [runSeparate, if_true, LoopResult.gen]
  cases (parentLoop 0 outs).ended <;> simp [LoopEnd.gen]

/-! ### the child's `_exit` argument, regenerated -/

/-- `_exit(initialFailureCount < result->getFailureCount())` on 64-bit counters is the hand model's
    exit code, shifted into the status word -/
theorem genChildStatus_eq (i f : Nat) (hi : i < 2 ^ 64) (hf : f < 2 ^ 64) :
    genChildStatus i f = BitVec.ofNat 32 (childExitCode i f * 256) := by
  unfold genChildStatus childExitGen childExitCode
  simp only [BitVec.ult, BitVec.toNat_ofNat, Nat.mod_eq_of_lt hi, Nat.mod_eq_of_lt hf]
  by_cases h : i < f <;> simp [h] <;> decide

/-- **A child that records any new failure exits non-zero, one that records none exits 0 — whatever
    number of failures the shared result object already held** (the count the earlier tests left),
    as long as the 64-bit counter does not wrap. -/
theorem source_child_exit_status (steps : List ChildStep) (initial : Nat) (h : noDeath steps = true)
    (hw : initial + addedBy steps < 2 ^ 64) :
    classify (genChildStatus initial (initial + addedBy steps)) = .exited (if addedBy steps = 0 then 0 else 1) ∧
    genChildStatus initial (initial + addedBy steps) = childStatus initial initial steps := by
  have e := genChildStatus_eq initial (initial + addedBy steps) (by omega) hw
  rw [e, ← childStatus_no_death steps initial initial h]
  exact ⟨child_exit_status steps initial h, rfl⟩

/-- child and parent, both regenerated: the child's verdict arrives in the parent as exactly one
    failure, or none -/
theorem source_failing_child_recorded_once (steps : List ChildStep) (initial : Nat) (h : noDeath steps = true)
    (hw : initial + addedBy steps < 2 ^ 64) (post : List WaitOutcome) :
    (genRunSeparate ⟨true, .status (genChildStatus initial (initial + addedBy steps)) :: post⟩).failures.length
      = (if addedBy steps = 0 then 0 else 1) := by
  have hc := (source_child_exit_status steps initial h hw).1
  have := (source_every_death_recorded_once [] (genChildStatus initial (initial + addedBy steps)) post (by simp)
    (by simp [eintrCount]) (by rw [hc]; rfl)).2.1
  simp only [List.nil_append, stopCount_nil, Nat.zero_add] at this
  rw [this, hc]
  by_cases h0 : addedBy steps = 0 <;> simp [h0, StatusClass.expected]

/-! ## non-vacuity: concrete scripts that meet the hypotheses -/

/-- two interrupted waits, a stop (SIGSTOP), one more interrupted wait, then SIGSEGV with core -/
example : classes (parentLoop 0 [.eintr, .eintr, .status 0x137f#32, .eintr, .status 0x8b#32, .status 0#32]).failures
    = [.stopped, .killedBySignal 11] := by decide
example : (parentLoop 0 [.eintr, .eintr, .status 0x137f#32, .eintr, .status 0x8b#32, .status 0#32]).consumed = 5 := by decide
example : (∀ o ∈ [WaitOutcome.eintr, .eintr, .status 0x137f#32, .eintr], o.nonFinal = true) ∧
    eintrCount [.eintr, .eintr, .status 0x137f#32, .eintr] ≤ retryBound + 1 ∧
    classify 0x8b#32 = .signaled 11 := by decide
example : classify 0x0300#32 = .exited 3 ∧ classify 0#32 = .exited 0 ∧ classify 0xffff#32 = .other ∧
    classify 0x137f#32 = .stopped 19 := by decide
example : (parentLoop 0 [.status 0#32]).failures = [] := by decide
example : (parentLoop 0 (List.replicate (retryBound + 2) .eintr ++ [.status 0#32])).ended = .gaveUp := by decide
example : (parentLoop 0 (List.replicate (retryBound + 1) .eintr ++ [.status 0#32])).ended = .childGone := by decide
example : (runAll [⟨true, [.status 9#32]⟩, ⟨false, []⟩, ⟨true, [.status 0#32]⟩]).started = [0, 1, 2] ∧
    (runAll [⟨true, [.status 9#32]⟩, ⟨false, []⟩, ⟨true, [.status 0#32]⟩]).failureCount = 2 := by decide
example : HasFinal [.eintr, .status 0x137f#32, .error] := ⟨.error, by simp, rfl⟩
/-- three tests of one group, the second is killed: it is forked, nothing runs in the runner -/
example : (runRegistry [⟨7, ⟨true, [.status 0#32]⟩⟩, ⟨7, ⟨true, [.status 9#32]⟩⟩, ⟨7, ⟨true, [.status 0#32]⟩⟩]).started = [0, 1, 2] ∧
    (runRegistry [⟨7, ⟨true, [.status 0#32]⟩⟩, ⟨7, ⟨true, [.status 9#32]⟩⟩, ⟨7, ⟨true, [.status 0#32]⟩⟩]).inRunner = [] ∧
    (runRegistry [⟨7, ⟨true, [.status 0#32]⟩⟩, ⟨7, ⟨true, [.status 9#32]⟩⟩, ⟨7, ⟨true, [.status 0#32]⟩⟩]).failureCount = 1 := by decide
/-- an `IGNORE_TEST` killed by SIGKILL between two ordinary tests, run with `-ri`: forked, recorded once -/
example : (runKinds true [⟨.normal, 1, ⟨true, [.status 0#32]⟩⟩, ⟨.ignored, 1, ⟨true, [.status 9#32]⟩⟩, ⟨.normal, 1, ⟨true, [.status 0#32]⟩⟩]).started = [0, 1, 2] ∧
    (runKinds true [⟨.normal, 1, ⟨true, [.status 0#32]⟩⟩, ⟨.ignored, 1, ⟨true, [.status 9#32]⟩⟩, ⟨.normal, 1, ⟨true, [.status 0#32]⟩⟩]).failureCount = 1 ∧
    (runKinds false [⟨.normal, 1, ⟨true, [.status 0#32]⟩⟩, ⟨.ignored, 1, ⟨true, [.status 9#32]⟩⟩, ⟨.normal, 1, ⟨true, [.status 0#32]⟩⟩]).failureCount = 0 ∧
    (runKinds false [⟨.normal, 1, ⟨true, [.status 0#32]⟩⟩, ⟨.ignored, 1, ⟨true, [.status 9#32]⟩⟩, ⟨.normal, 1, ⟨true, [.status 0#32]⟩⟩]).runCount = 2 := by decide
/-- plugin pre ok, setup ok, body fails one check, teardown ok, plugin post reports a leak -/
example : classify (childStatus 3 3 [.adds 0, .adds 0, .adds 1, .adds 0, .adds 1]) = .exited 1 := by decide
example : childStatus 0 0 [.adds 0, .adds 1, .dies 0x8b#32, .adds 0] = 0x8b#32 := by decide
/-- the regenerated function on the first script above: same texts, same counts -/
example : (genRunSeparate ⟨true, [.eintr, .eintr, .status 0x137f#32, .eintr, .status 0x8b#32, .status 0#32]⟩).failures
    = ["Stopped in separate process - continuing", "Failed in separate process - killed by signal 11"] ∧
    (genRunSeparate ⟨true, [.eintr, .eintr, .status 0x137f#32, .eintr, .status 0x8b#32, .status 0#32]⟩).consumed = 5 ∧
    (genRunSeparate ⟨true, [.eintr, .eintr, .status 0x137f#32, .eintr, .status 0x8b#32, .status 0#32]⟩).conts = 1 := by decide
example : (genRunSeparate ⟨true, List.replicate (retryBound + 2) .eintr ++ [.status 0#32]⟩).ended = .returned := by decide
example : (genRunSeparate ⟨true, List.replicate (retryBound + 1) .eintr ++ [.status 0#32]⟩).ended = .condFalse := by decide
/-- 7 failures from earlier tests, this child's plugin reports two more: exit status 1 -/
example : genChildStatus 7 9 = 0x100#32 ∧ genChildStatus 7 7 = 0#32 ∧ genChildStatus 0 300 = 0x100#32 := by decide

/-! ## from the argument vector to separate-process mode (`Model/SeparateProcessArgv.lean` over C12's parser model)

What reaches `initializeTestRun` is the *parsed* configuration.  An option that takes its value from the
next argument swallows a `-p` standing there; `-r` takes its optional count from the next argument only
when that is a non-zero number, so `-r -p` is (repeat 2, separate process on). -/

theorem no_dash_p_leaves_separate_mode_off (v vv c ri f : Bool) :
    separateModeOn { verbose := v, veryVerbose := vv, color := c, separateProcess := false,
                     runIgnored := ri, crashOnFail := f } = false := by
  revert v vv c ri f; decide

/-- `registry_->setRunTestsInSeperateProcess()` is called iff the parsed configuration says so -/
theorem separate_mode_is_the_parsed_flag (c : CommandLine.Config) :
    separateModeOn (cliArgsOfConfig c) = c.separateProcess := by
  cases h : c.separateProcess
  · simp only [cliArgsOfConfig, h]; exact no_dash_p_leaves_separate_mode_off _ _ _ _ _
  · simp only [cliArgsOfConfig, h]; exact dash_p_switches_separate_mode_on _ _ _ _ _

theorem runKindsInRunner_keeps (ri : Bool) (x : Nat) : ∀ (ts : List KTest) (idx : Nat) (st : RunState),
    x ∈ st.inRunner → x ∈ (runKindsInRunner ri idx ts st).inRunner
  | [], _, _, h => h
  | t :: ts, idx, st, h => by
    unfold runKindsInRunner
    split
    · exact runKindsInRunner_keeps ri x ts (idx + 1) _ (by simpa [notRunAt] using h)
    · exact runKindsInRunner_keeps ri x ts (idx + 1) _ (by simp [runInRunnerAt, h])

/-- **For every argument vector the runner forks every test iff the parsed configuration has
    `runTestsInSeperateProcess`**: with the flag nothing is executed inside the runner (and with run-ignored
    the run is the all-forked run the theorems above are about); without it the very first test already
    runs inside the runner, where its death is the runner's. -/
theorem argv_forks_every_test_iff (args : List Text.Bytes) (t : KTest) (ts : List KTest) (hk : t.kind = .normal) :
    ((runArgv args (t :: ts)).inRunner = [] ↔ (parsedConfig args).separateProcess = true) ∧
    ((parsedConfig args).separateProcess = true → (parsedConfig args).runIgnored = true →
       runArgv args (t :: ts) = runAll ((t :: ts).map (·.script))) := by
  refine ⟨?_, ?_⟩
  · unfold runArgv runCommandLineKinds
    rw [separate_mode_is_the_parsed_flag]
    cases h : (parsedConfig args).separateProcess
    · simp only [Bool.false_eq_true, if_false, iff_false]
      intro he
      have : 0 ∈ (runKindsInRunner (runIgnoredOn (cliArgsOfConfig (parsedConfig args))) 0 (t :: ts) RunState.init).inRunner := by
        unfold runKindsInRunner
        simp only [hk]
        exact runKindsInRunner_keeps _ 0 ts 1 _ (by simp [runInRunnerAt, RunState.init])
      rw [he] at this; exact absurd this (by simp)
    · simp only [if_true, iff_true]
      exact (every_kind_is_forked (t :: ts) _).1
  · intro hp hri
    exact (dash_p_dash_ri_forks_every_kind (cliArgsOfConfig (parsedConfig args)) (t :: ts) hp).2 hri

def argDashR : Text.Bytes := [45, 114]          -- "-r"
def argDashP : Text.Bytes := [45, 112]          -- "-p"
def argDashR2 : Text.Bytes := [45, 114, 50]     -- "-r2"
def argTwo : Text.Bytes := [50]                 -- "2"
def argDashG : Text.Bytes := [45, 103]          -- "-g"

/-- **`-r -p`: a bare `-r` followed by something that is not a count does not consume it** — the run is
    repeated twice and separate-process mode is on; likewise for the other orders and spellings -/
theorem dash_r_dash_p_parses :
    (parseArgs [argDashR, argDashP]).isOk = true ∧
    (parsedConfig [argDashR, argDashP]).repeatCount = 2 ∧ (parsedConfig [argDashR, argDashP]).separateProcess = true ∧
    (parsedConfig [argDashP, argDashR]).repeatCount = 2 ∧ (parsedConfig [argDashP, argDashR]).separateProcess = true ∧
    (parsedConfig [argDashR2, argDashP]).repeatCount = 2 ∧ (parsedConfig [argDashR2, argDashP]).separateProcess = true ∧
    (parsedConfig [argDashR, argTwo, argDashP]).repeatCount = 2 ∧ (parsedConfig [argDashR, argTwo, argDashP]).separateProcess = true := by
  decide

/-- … so a test that is killed under `-r -p` is forked and recorded, in every repetition -/
theorem dash_r_dash_p_forks_every_test (t : KTest) (ts : List KTest) (hk : t.kind = .normal) :
    (runArgv [argDashR, argDashP] (t :: ts)).inRunner = [] ∧ repeatsOf [argDashR, argDashP] = 2 :=
  ⟨((argv_forks_every_test_iff _ t ts hk).1).2 (by decide), by decide⟩

/-- the runner's exit code over the repetitions is non-zero as soon as one repetition recorded a failure -/
theorem repeated_run_failure_reaches_exit_code (rounds : List (Nat × Bool)) (r : Nat × Bool) (hr : r ∈ rounds) (hf : r.1 ≠ 0) :
    exitCodeOfRounds rounds ≠ 0 := by
  have hle : ∀ (l : List Nat) (x : Nat), x ∈ l → x ≤ l.sum := by
    intro l
    induction l with
    | nil => intro x hx; cases hx
    | cons a l ih =>
      intro x hx
      rcases List.mem_cons.mp hx with rfl | h
      · simp
      · have := ih x h; simp only [List.sum_cons]; omega
  have h1 : r.1 ≤ (rounds.map (·.1)).sum := hle _ _ (List.mem_map.mpr ⟨r, hr, rfl⟩)
  unfold exitCodeOfRounds
  have hne : (rounds.map (·.1)).sum ≠ 0 := by omega
  simp [hne]

/-- non-vacuity: three tests, the second killed by SIGSEGV, `-r -p`: all forked, one failure, all started;
    with `-g -p` (the group option really takes the next argument) everything runs inside the runner -/
example : (runArgv [argDashR, argDashP] [⟨.normal, 0, ⟨true, [.status 0#32]⟩⟩, ⟨.normal, 0, ⟨true, [.status 11#32]⟩⟩, ⟨.normal, 0, ⟨true, [.status 0#32]⟩⟩]).inRunner = [] ∧
    (runArgv [argDashR, argDashP] [⟨.normal, 0, ⟨true, [.status 0#32]⟩⟩, ⟨.normal, 0, ⟨true, [.status 11#32]⟩⟩, ⟨.normal, 0, ⟨true, [.status 0#32]⟩⟩]).started = [0, 1, 2] ∧
    (runArgv [argDashR, argDashP] [⟨.normal, 0, ⟨true, [.status 0#32]⟩⟩, ⟨.normal, 0, ⟨true, [.status 11#32]⟩⟩, ⟨.normal, 0, ⟨true, [.status 0#32]⟩⟩]).failureCount = 1 ∧
    (parsedConfig [argDashG, argDashP]).separateProcess = false ∧
    (runArgv [argDashG, argDashP] [⟨.normal, 0, ⟨true, [.status 0#32]⟩⟩, ⟨.normal, 0, ⟨true, [.status 11#32]⟩⟩]).inRunner = [0, 1] ∧
    exitCodeOfRounds [(1, true), (1, true)] = 2 ∧ exitCodeOfRounds [(0, true), (0, false)] = 1 := by decide

end SepProc
