import CppUModel.Props.C02
import CppUModel.Props.C13
/-!
# C02x — `TestFilter::match` and `UtestShell::shouldRun` executed on the C13 string objects

Composition theorems.  They connect

* `Model/Registry.lean` (C02): `Filter.matches`, `matchFilters`, `shouldRun`, written over textbook byte strings
  (`==` and `Text.isInfix`), with
* `Model/SimpleString.lean` (C13): the bounded-buffer objects and `SStr.equals` (`operator==` = `StrCmp(...) == 0`)
  and `SStr.contains` (`StrStr(...) != 0`).

`matchObj` is `TestFilter::match` as the C++ evaluates it (only ONE of the two comparisons is made, depending on
`strictMatching_`), on objects; `matchLoopObj` / `matchFiltersObj` the loop of `UtestShell::match`; `shouldRunObj`
`UtestShell::shouldRun`.  For all NUL-free names and filter texts they return `.ok` (no read outside a buffer, no
fuel exhaustion) of exactly the C02 model's decision, and hence (C02's `selected_iff`) of the documented selection.
-/
namespace Compose.C02x
open CStr SStr Text

/-- a `TestFilter` whose `filter_` is a C13 string object -/
structure FilterObj where
  text   : Obj
  strict : Bool
  invert : Bool

/-- `TestFilter::match(name)`:
```
if (strictMatching_) matches = name == filter_; else matches = name.contains(filter_);
return invertMatching_ ? !matches : matches;
``` -/
def matchObj (f : FilterObj) (name : Obj) : Except Err Bool :=
  match (if f.strict then equals name f.text else contains name f.text) with
  | .error e => .error e
  | .ok m => .ok (if f.invert then !m else m)

/-- the `for` loop of `UtestShell::match`: stop at the first filter that accepts -/
def matchLoopObj (target : Obj) : List FilterObj → Except Err Bool
  | [] => .ok false
  | f :: fs =>
    match matchObj f target with
    | .error e => .error e
    | .ok true => .ok true
    | .ok false => matchLoopObj target fs

/-- `UtestShell::match(target, filters)`: `if (filters == NULLPTR) return true;` then the loop -/
def matchFiltersObj (target : Obj) : List FilterObj → Except Err Bool
  | [] => .ok true
  | f :: fs => matchLoopObj target (f :: fs)

/-- `UtestShell::shouldRun`: `match(group_, groupFilters) && match(name_, nameFilters)` (short-circuit) -/
def shouldRunObj (group name : Obj) (groupFilters nameFilters : List FilterObj) : Except Err Bool :=
  match matchFiltersObj group groupFilters with
  | .error e => .error e
  | .ok false => .ok false
  | .ok true => matchFiltersObj name nameFilters

/-- the filter object represents the C02 filter: its buffer holds the filter text -/
def Rep (fo : FilterObj) (f : Registry.Filter) : Prop :=
  Holds fo.text f.text ∧ fo.strict = f.strict ∧ fo.invert = f.invert

def RepAll : List FilterObj → List Registry.Filter → Prop
  | [], [] => True
  | fo :: fos, f :: fs => Rep fo f ∧ RepAll fos fs
  | _, _ => False

theorem beq_bytes (a b : Bytes) : (a == b) = decide (a = b) := by
  by_cases h : a = b
  · simp [h]
  · simp [h]

/-- **`TestFilter::match` on objects = the C02 decision.**  Connects `Registry.Filter.matches` (C02) with
    `SStr.equals` / `SStr.contains` (C13): for every NUL-free name and filter text the object-level evaluation
    returns `.ok` of the model's value — in particular it never reads outside a buffer. -/
theorem match_on_objects {fo : FilterObj} {f : Registry.Filter} {name : Obj} {a : Bytes}
    (hf : Rep fo f) (hn : Holds name a) : matchObj fo name = .ok (f.matches a) := by
  obtain ⟨ht, hs, hi⟩ := hf
  unfold matchObj Registry.Filter.matches Gen.Registry.filterMatch
  rw [hs, hi]
  cases f.strict with
  | true =>
    simp only [if_true]
    rw [C13.eq_eq hn ht, beq_bytes]
  | false =>
    simp only [Bool.false_eq_true, if_false]
    rw [C13.contains_iff_isInfix hn ht]

theorem matchLoop_on_objects {target : Obj} {a : Bytes} (hn : Holds target a) :
    ∀ {fos : List FilterObj} {fs : List Registry.Filter}, RepAll fos fs →
      matchLoopObj target fos = .ok (Registry.matchLoop a fs)
  | [], [], _ => rfl
  | fo :: fos, f :: fs, h => by
    simp only [matchLoopObj, Registry.matchLoop, match_on_objects h.1 hn]
    cases f.matches a with
    | true => rfl
    | false => exact matchLoop_on_objects hn h.2
  | [], _ :: _, h => h.elim
  | _ :: _, [], h => h.elim

/-- **`UtestShell::match` on objects = the C02 decision**, for filter lists of any length. -/
theorem matchFilters_on_objects {target : Obj} {a : Bytes} (hn : Holds target a)
    {fos : List FilterObj} {fs : List Registry.Filter} (h : RepAll fos fs) :
    matchFiltersObj target fos = .ok (Registry.matchFilters a fs) := by
  match fos, fs, h with
  | [], [], _ => rfl
  | fo :: fos, f :: fs, h => exact matchLoop_on_objects hn (fos := fo :: fos) (fs := f :: fs) h
  | [], _ :: _, h => exact h.elim
  | _ :: _, [], h => exact h.elim

/-- **`UtestShell::shouldRun` on objects = the C02 decision.**  Connects `Registry.shouldRun` (C02) with the C13
    string objects: group and name of the test and all filter texts are arbitrary NUL-free byte strings. -/
theorem shouldRun_on_objects (cfg : Registry.Cfg) (t : Registry.Test) {group name : Obj} {gfo nfo : List FilterObj}
    (hg : Holds group t.group) (hn : Holds name t.name) (hgf : RepAll gfo cfg.groupFilters)
    (hnf : RepAll nfo cfg.nameFilters) :
    shouldRunObj group name gfo nfo = .ok (Registry.shouldRun cfg t) := by
  unfold shouldRunObj Registry.shouldRun Gen.Registry.shouldRun
  rw [matchFilters_on_objects hg hgf]
  cases Registry.matchFilters t.group cfg.groupFilters with
  | false => rfl
  | true =>
    simp only [Bool.true_and]
    exact matchFilters_on_objects hn hnf

/-- … hence the object-level evaluation decides the documented selection (C02's `selected_iff`): a test is run
    iff its group is accepted by some group filter (or none is given) and its name by some name filter. -/
theorem shouldRun_on_objects_iff_selected (cfg : Registry.Cfg) (t : Registry.Test) {group name : Obj}
    {gfo nfo : List FilterObj} (hg : Holds group t.group) (hn : Holds name t.name)
    (hgf : RepAll gfo cfg.groupFilters) (hnf : RepAll nfo cfg.nameFilters) :
    (∃ b, shouldRunObj group name gfo nfo = .ok b) ∧
    (shouldRunObj group name gfo nfo = .ok true ↔ Registry.Selected cfg t) := by
  rw [shouldRun_on_objects cfg t hg hn hgf hnf]
  refine ⟨⟨_, rfl⟩, ?_⟩
  rw [← Registry.selected_iff]
  constructor
  · intro h; injection h
  · intro h; rw [h]

/-- every C02 filter has a representing object (exact-size buffer), for NUL-free texts -/
theorem rep_mk (id : Nat) (f : Registry.Filter) (h : TextExt.NulFree f.text) :
    Rep ⟨mkObj id f.text, f.strict, f.invert⟩ f := ⟨holds_mkObj h, rfl, rfl⟩

/-! ## non-vacuity -/

/-- filter `-g "ab"` (substring), object with slack behind the terminator; name "xaby" -/
example : matchObj ⟨⟨1, [97, 98, 0, 7, 7], 5⟩, false, false⟩ (mkObj 2 [120, 97, 98, 121]) = .ok true := rfl
/-- strict filter: "ab" ≠ "xaby"; inverted strict filter accepts -/
example : matchObj ⟨mkObj 1 [97, 98], true, false⟩ (mkObj 2 [120, 97, 98, 121]) = .ok false := rfl
example : matchObj ⟨mkObj 1 [97, 98], true, true⟩ (mkObj 2 [120, 97, 98, 121]) = .ok true := rfl
/-- an unterminated filter buffer is an out-of-bounds read in the object model (the hypothesis `Holds` is needed) -/
example : matchObj ⟨⟨1, [97, 98], 2⟩, true, false⟩ (mkObj 2 [97, 98]) = .error .oob := rfl

example : Rep ⟨⟨1, [97, 98, 0, 7, 7], 5⟩, false, false⟩ ⟨[97, 98], false, false⟩ :=
  ⟨⟨by decide, [7, 7], rfl⟩, rfl, rfl⟩

example : shouldRunObj (mkObj 1 [71]) (mkObj 2 [110, 49]) [⟨mkObj 3 [71], true, false⟩]
    [⟨mkObj 4 [120], false, false⟩, ⟨mkObj 5 [49], false, false⟩] = .ok true := rfl

end Compose.C02x
