import CppUModel.Proofs.Runner
/-!
# C01 — a failing check always fails the run: lifecycle, failure count, exit value

Property theorems only.  Model: `CppUModel/Model/Runner.lean` (from `Utest.cpp`,
`UtestPlatform.cpp`, `TestResult`, `TestOutput.cpp`, `TestPlugin.cpp`, `TestRegistry.cpp`,
`CommandLineTestRunner.cpp`); vocabulary (textbook reading of the property, console reader):
`CppUModel/Spec/Runner.lean`.  Regenerated from the source on every run: the length of the
setjmp buffer array, `TestResult::isFailure`, the return expression of `runAllTests`
(`Gen/RunnerConstants.lean`).

All theorems hold for every test program (any number of tests, any statements in the three
phases), every plugin chain, every filter set, every repeat count and **both build variants**
(`cfg.exceptions` is universally quantified), with rethrow mode off.
-/
namespace Runner

/-- the two slots a test needs: `jmp_buf_index = d` on entry, `d` and `d+1` inside the array -/
theorem inBuf_of {d : Int} (h0 : 0 ≤ d) (h1 : d + 2 ≤ Int.ofNat Gen.Runner.jmpBufLen) :
    inBuf d = true ∧ inBuf (d + 1) = true := by
  simp only [inBuf, Bool.and_eq_true, decide_eq_true_eq]
  omega

/-- at top level (`jmp_buf_index = 0`) the regenerated array length is enough -/
theorem inBuf_top : inBuf 0 = true ∧ inBuf (0 + 1) = true := by decide

/-! ## statements after a terminating statement never execute -/

theorem executed_append_terminator (exc : Bool) (s : Stmt) (post : List Stmt) (hs : s.terminates exc = true) :
    ∀ (pre : List Stmt), (∀ x ∈ pre, x.terminates exc = false) → executed exc (pre ++ s :: post) = pre ++ [s]
  | [], _ => by simp [executed, hs]
  | x :: pre, h => by
    have hx : x.terminates exc = false := h x (by simp)
    have ih := executed_append_terminator exc s post hs pre (fun y hy => h y (by simp [hy]))
    simp [executed, hx, ih]

/-- **Nothing placed after a terminating statement has any effect**: the whole outcome of a phase
    (events, counters, failed flag, way of leaving) does not depend on what follows the first
    failing check / TEST_EXIT / throw. -/
theorem no_effect_after_terminator (cfg : Cfg) (t : Test) (ph : Phase) (d : Int) (s : Stmt) (post : List Stmt)
    (hs : s.terminates cfg.exceptions = true) :
    ∀ (pre : List Stmt) (res : Result) (hf : Bool),
      runStmts cfg t ph d res hf (pre ++ s :: post) = runStmts cfg t ph d res hf (pre ++ [s])
  | [], res, hf => by
    cases hx : cfg.exceptions <;> cases s <;> simp_all [runStmts, Stmt.terminates]
  | x :: pre, res, hf => by
    have ih := no_effect_after_terminator cfg t ph d s post hs pre
    cases hx : cfg.exceptions <;> cases x <;> simp [runStmts, hx, ih]

/-- **no_statement_after_terminator**: the marks a phase produces are exactly the marks placed
    before its first terminating statement; the terminating statement leaves the phase. -/
theorem no_statement_after_terminator (cfg : Cfg) (t : Test) (ph : Phase) (d : Int) (res : Result) (hf : Bool)
    (pre : List Stmt) (s : Stmt) (post : List Stmt)
    (hpre : ∀ x ∈ pre, x.terminates cfg.exceptions = false) (hs : s.terminates cfg.exceptions = true) :
    marksIn (runStmts cfg t ph d res hf (pre ++ s :: post)).evs = (marksOf pre).map (fun n => (ph, n)) ∧
    (runStmts cfg t ph d res hf (pre ++ s :: post)).exit ≠ .normal := by
  refine ⟨?_, ?_⟩
  · rw [runStmts_marks, executed_append_terminator cfg.exceptions s post hs pre hpre]
    cases s <;> simp [marksOf, Stmt.markNo, Stmt.terminates] at hs ⊢
  · rw [runStmts_exit]
    intro h
    have hc := (exitOf_normal_iff cfg.exceptions (pre ++ s :: post)).mp h
    simp [completes, hs] at hc

/-- a phase without a terminating statement runs all its statements and returns normally -/
theorem phase_without_terminator_completes (cfg : Cfg) (t : Test) (ph : Phase) (d : Int) (res : Result) (hf : Bool)
    (p : List Stmt) (hp : ∀ x ∈ p, x.terminates cfg.exceptions = false) :
    marksIn (runStmts cfg t ph d res hf p).evs = (marksOf p).map (fun n => (ph, n)) ∧
    (runStmts cfg t ph d res hf p).exit = .normal := by
  have hex : executed cfg.exceptions p = p := by
    induction p with
    | nil => rfl
    | cons x p ih =>
      simp [executed, hp x (by simp), ih (fun y hy => hp y (by simp [hy]))]
  refine ⟨by rw [runStmts_marks, hex], ?_⟩
  rw [runStmts_exit, exitOf_normal_iff]
  simp only [completes, Bool.not_eq_eq_eq_not, Bool.not_true, List.any_eq_false]
  intro x hx; simp [hp x hx]

/-! ## one test: lifecycle, setjmp depth, current test, failed flag -/

/-- **test_outcome**: `runOneTest` never faults (no index outside the 10-slot array, every
    longjmp lands in the innermost frame) and does what the property demands, for every test,
    plugin chain and build variant. -/
theorem test_outcome (cfg : Cfg) (plugins : List Plugin) (t : Test) (st : TSt)
    (hr : cfg.rethrow = false) (h0 : 0 ≤ st.depth) (h1 : st.depth + 2 ≤ Int.ofNat Gen.Runner.jmpBufLen) :
    ∃ j, runOneTest cfg plugins t st = .ok j ∧ TestOutcome cfg plugins t st j :=
  runOneTest_closed cfg plugins t st hr (inBuf_of h0 h1).1 (inBuf_of h0 h1).2

/-- **body_iff_setup_completed**: the body is entered (exactly once) iff setup reached its end. -/
theorem body_iff_setup_completed (cfg : Cfg) (plugins : List Plugin) (t : Test) (st : TSt) (j : JmpOut)
    (hr : cfg.rethrow = false) (h0 : 0 ≤ st.depth) (h1 : st.depth + 2 ≤ Int.ofNat Gen.Runner.jmpBufLen)
    (hj : runOneTest cfg plugins t st = .ok j) :
    (Phase.body ∈ entersOf j.evs ↔ completes cfg.exceptions t.setup = true) ∧
    (entersOf j.evs).count .body ≤ 1 := by
  obtain ⟨j', hj', o⟩ := test_outcome cfg plugins t st hr h0 h1
  have : j = j' := by rw [hj] at hj'; exact Except.ok.inj hj'
  subst this
  rw [o.enters, phasesRun]
  cases completes cfg.exceptions t.setup <;> simp

/-- **teardown_iff_setup_entered**: setup and teardown are each entered exactly once, setup first
    and teardown last, whatever happened in between. -/
theorem teardown_iff_setup_entered (cfg : Cfg) (plugins : List Plugin) (t : Test) (st : TSt) (j : JmpOut)
    (hr : cfg.rethrow = false) (h0 : 0 ≤ st.depth) (h1 : st.depth + 2 ≤ Int.ofNat Gen.Runner.jmpBufLen)
    (hj : runOneTest cfg plugins t st = .ok j) :
    (entersOf j.evs).count .setup = 1 ∧ (entersOf j.evs).count .teardown = 1 ∧
    (entersOf j.evs).head? = some .setup ∧ (entersOf j.evs).getLast? = some .teardown := by
  obtain ⟨j', hj', o⟩ := test_outcome cfg plugins t st hr h0 h1
  have : j = j' := by rw [hj] at hj'; exact Except.ok.inj hj'
  subst this
  rw [o.enters, phasesRun]
  cases completes cfg.exceptions t.setup <;> simp

/-- the statements a test executes are exactly: setup up to its first terminating statement; the
    body likewise, only if setup completed; teardown likewise, always -/
theorem test_marks (cfg : Cfg) (plugins : List Plugin) (t : Test) (st : TSt) (j : JmpOut)
    (hr : cfg.rethrow = false) (h0 : 0 ≤ st.depth) (h1 : st.depth + 2 ≤ Int.ofNat Gen.Runner.jmpBufLen)
    (hj : runOneTest cfg plugins t st = .ok j) :
    marksIn j.evs =
      (marksOf (executed cfg.exceptions t.setup)).map (fun n => (Phase.setup, n)) ++
      (if completes cfg.exceptions t.setup then (marksOf (executed cfg.exceptions t.body)).map (fun n => (Phase.body, n)) else []) ++
      (marksOf (executed cfg.exceptions t.teardown)).map (fun n => (Phase.teardown, n)) := by
  obtain ⟨j', hj', o⟩ := test_outcome cfg plugins t st hr h0 h1
  have : j = j' := by rw [hj] at hj'; exact Except.ok.inj hj'
  subst this
  rw [o.marks, testMarks, phasesRun]
  cases completes cfg.exceptions t.setup <;> simp [stmtsOf]

/-- **jmp_depth_restored** (one test): after the test `jmp_buf_index` is what it was before, for
    every way the three phases can end. -/
theorem jmp_depth_restored (cfg : Cfg) (plugins : List Plugin) (t : Test) (st : TSt)
    (hr : cfg.rethrow = false) (h0 : 0 ≤ st.depth) (h1 : st.depth + 2 ≤ Int.ofNat Gen.Runner.jmpBufLen) :
    ∃ j, runOneTest cfg plugins t st = .ok j ∧ j.st.depth = st.depth ∧ j.esc = none := by
  obtain ⟨j, hj, o⟩ := test_outcome cfg plugins t st hr h0 h1
  exact ⟨j, hj, o.depth, o.esc⟩

/-- **current_test_restored**: the saved `currentTest_` is put back. -/
theorem current_test_restored (cfg : Cfg) (plugins : List Plugin) (t : Test) (st : TSt)
    (hr : cfg.rethrow = false) (h0 : 0 ≤ st.depth) (h1 : st.depth + 2 ≤ Int.ofNat Gen.Runner.jmpBufLen) :
    ∃ j, runOneTest cfg plugins t st = .ok j ∧ j.st.current = st.current := by
  obtain ⟨j, hj, o⟩ := test_outcome cfg plugins t st hr h0 h1
  exact ⟨j, hj, o.current⟩

/-- the per-test failed flag is set exactly when a phase of the test recorded a failure
    (plugin-reported errors go to the result only) -/
theorem failed_flag_iff (cfg : Cfg) (plugins : List Plugin) (t : Test) (st : TSt)
    (hr : cfg.rethrow = false) (h0 : 0 ≤ st.depth) (h1 : st.depth + 2 ≤ Int.ofNat Gen.Runner.jmpBufLen) :
    ∃ j, runOneTest cfg plugins t st = .ok j ∧ (j.st.hasFailed = true ↔ testPhaseFailures cfg t ≠ []) := by
  obtain ⟨j, hj, o⟩ := test_outcome cfg plugins t st hr h0 h1
  refine ⟨j, hj, ?_⟩
  rw [o.hasFailed]
  cases testPhaseFailures cfg t <;> simp

/-- **jmp_depth_restored_tests** (by induction over the test list): after ANY list of tests —
    in particular after any number of consecutive failing tests of any kinds — the loop has not
    faulted, `jmp_buf_index` and the current test are what they were. -/
theorem jmp_depth_restored_tests (cfg : Cfg) (plugins : List Plugin) (ts : List Test) (s : LSt)
    (hr : cfg.rethrow = false) (h0 : 0 ≤ s.depth) (h1 : s.depth + 2 ≤ Int.ofNat Gen.Runner.jmpBufLen) :
    ∃ a, runTests cfg plugins ts s = .ok a ∧ a.st.depth = s.depth ∧ a.st.current = s.current := by
  obtain ⟨a, ha, o⟩ := runTests_closed cfg plugins hr ts s (inBuf_of h0 h1).1 (inBuf_of h0 h1).2
  exact ⟨a, ha, o.depth, o.current⟩

/-- after every single test of the run the observed depth and current test are the initial ones -/
theorem depth_after_every_test (cfg : Cfg) (plugins : List Plugin) (ts : List Test) (s : LSt)
    (hr : cfg.rethrow = false) (h0 : 0 ≤ s.depth) (h1 : s.depth + 2 ≤ Int.ofNat Gen.Runner.jmpBufLen) :
    ∃ a, runTests cfg plugins ts s = .ok a ∧
      ∀ e ∈ endedOf a.evs, e.1 = s.depth ∧ e.2.1 = s.current := by
  obtain ⟨a, ha, o⟩ := runTests_closed cfg plugins hr ts s (inBuf_of h0 h1).1 (inBuf_of h0 h1).2
  refine ⟨a, ha, ?_⟩
  rw [o.ended]
  intro e he
  simp only [List.mem_map] at he
  obtain ⟨t, _, rfl⟩ := he
  exact ⟨rfl, rfl⟩

/-! ## the whole run -/

/-- **run_outcome**: `CommandLineTestRunner::runAllTests` never faults and its observable result
    is the declarative one. `d = 0` is the depth `main` runs at. -/
theorem run_outcome (cfg : Cfg) (plugins : List Plugin) (ts : List Test) (n : Nat) (d : Int)
    (hr : cfg.rethrow = false) (h0 : 0 ≤ d) (h1 : d + 2 ≤ Int.ofNat Gen.Runner.jmpBufLen) :
    ∃ o, runAllTests cfg plugins ts n d = .ok o ∧ RunOutcome cfg plugins ts n d o :=
  runAllTests_closed cfg plugins ts n d hr (inBuf_of h0 h1).1 (inBuf_of h0 h1).2

/-- the same at top level, where the only hypothesis left is the regenerated array length (checked
    by `decide` in `inBuf_top`): the 10-slot array is never indexed out of range -/
theorem run_outcome_top (cfg : Cfg) (plugins : List Plugin) (ts : List Test) (n : Nat)
    (hr : cfg.rethrow = false) :
    ∃ o, runAllTests cfg plugins ts n 0 = .ok o ∧ RunOutcome cfg plugins ts n 0 o :=
  runAllTests_closed cfg plugins ts n 0 hr inBuf_top.1 inBuf_top.2

/-- **jmp_depth_restored_run**: after all repetitions the depth is the initial one -/
theorem jmp_depth_restored_run (cfg : Cfg) (plugins : List Plugin) (ts : List Test) (n : Nat)
    (hr : cfg.rethrow = false) :
    ∃ o, runAllTests cfg plugins ts n 0 = .ok o ∧ o.depth = 0 ∧ o.current = none ∧
      ∀ e ∈ endedOf o.evs, e.1 = 0 ∧ e.2.1 = none := by
  obtain ⟨o, ho, oo⟩ := run_outcome_top cfg plugins ts n hr
  refine ⟨o, ho, oo.depth, oo.current, ?_⟩
  rw [oo.ended]
  intro e he
  simp only [flattenRep, List.mem_flatten, List.mem_replicate] at he
  obtain ⟨l, ⟨_, rfl⟩, he⟩ := he
  simp only [List.mem_map] at he
  obtain ⟨t, _, rfl⟩ := he
  exact ⟨rfl, rfl⟩

/-- **failures_recorded_once**: the failure records printed in a run are, in order, exactly the
    failing events of each repetition (failed check, escaped exception per phase, plugin-reported
    error) — each once; and the failure counter of every repetition is their number. -/
theorem failures_recorded_once (cfg : Cfg) (plugins : List Plugin) (ts : List Test) (n : Nat)
    (hr : cfg.rethrow = false) :
    ∃ o, runAllTests cfg plugins ts n 0 = .ok o ∧
      failuresOf o.evs = (List.replicate n (expectedFailures cfg plugins ts)).flatten ∧
      ∀ r ∈ o.reps, r.failureCount = (expectedFailures cfg plugins ts).length := by
  obtain ⟨o, ho, oo⟩ := run_outcome_top cfg plugins ts n hr
  refine ⟨o, ho, oo.failures, ?_⟩
  rw [oo.reps]
  intro r hrm
  rw [(List.mem_replicate.mp hrm).2]
  rfl

/-- each failing check is recorded with ITS OWN file and line; an escaping exception with the
    test's file and line -/
theorem failure_location (cfg : Cfg) (t : Test) (s : Stmt) (r : FailRec) (h : s.failure cfg t = some r) :
    (∀ loc msg, (s = .failCpp loc msg ∨ s = .failC loc msg) → r.file = loc.file ∧ r.line = loc.line ∧ r.msg = msg) ∧
    ((s = .throwStd ∨ s = .throwOther) → r.file = t.file ∧ r.line = t.line) ∧
    r.testName = formattedName cfg t := by
  cases s <;> simp [Stmt.failure, mkRec, mkRecAtTest] at h ⊢
  · subst h; simp
  · subst h; simp
  · obtain ⟨_, rfl⟩ := h; simp
  · obtain ⟨_, rfl⟩ := h; simp

/-- what is printed for a record is read back by a reader of the console as that record: its own
    file:line, the test name, the message (both print shapes of `TestOutput::printFailure`) -/
theorem failure_printed_with_location (r : FailRec) (rest : List String) (hmsg : r.msg ≠ ":") :
    ∃ p, parseFailureAt (failureToks r ++ rest) = some p ∧ p.file = r.file ∧ p.line = toString r.line ∧
      p.testName = r.testName ∧ p.msg = r.msg :=
  ⟨r.printed, parseFailureAt_failureToks r rest hmsg, rfl, rfl, rfl, rfl⟩

/-- **summary_counts_true**: every repetition prints one summary, and it carries the true counts
    (tests, run, checks, ignored, filtered out, failures). -/
theorem summary_counts_true (cfg : Cfg) (plugins : List Plugin) (ts : List Test) (n : Nat)
    (hr : cfg.rethrow = false) :
    ∃ o, runAllTests cfg plugins ts n 0 = .ok o ∧
      summariesOf o.evs = List.replicate n (expectedCounts cfg plugins ts) ∧
      o.reps = List.replicate n (expectedCounts cfg plugins ts) := by
  obtain ⟨o, ho, oo⟩ := run_outcome_top cfg plugins ts n hr
  exact ⟨o, ho, oo.summaries, oo.reps⟩

theorem isFailure_iff (r : Result) : r.isFailure = true ↔ ¬ r.ok := by
  unfold Result.isFailure Gen.Runner.isFailure Result.ok
  simp only [Bool.or_eq_true, bne_iff_ne, beq_iff_eq, ne_eq]
  omega

/-- the printed summary line is read back as the counts it was printed for -/
theorem summary_printed (r : Result) (rest : List String) :
    parseSummaryAt ((summaryToks r ++ rest).tail) = some r.printedSummary := by
  rw [parseSummaryAt_summaryToks]
  have h := isFailure_iff r
  unfold Result.printedSummary
  by_cases hok : r.ok
  · have hf : r.isFailure = false := by
      cases hx : r.isFailure
      · rfl
      · exact absurd hok (h.mp hx)
    have h0 : r.failureCount = 0 := hok.1
    simp [hf, hok, h0]
  · have hf : r.isFailure = true := h.mpr hok
    by_cases h0 : r.failureCount = 0
    · simp [hf, hok, h0]
    · have : r.failureCount > 0 := Nat.pos_of_ne_zero h0
      simp [hf, hok, h0, this]

/-- **summary_ok_iff**: the summary reads "OK (" exactly when the repetition had no failure and
    ran or ignored at least one test. -/
theorem summary_ok_iff (r : Result) (rest : List String) :
    ∃ p, parseSummaryAt ((summaryToks r ++ rest).tail) = some p ∧
      (p.ok = true ↔ r.failureCount = 0 ∧ 0 < r.runCount + r.ignoredCount) := by
  refine ⟨r.printedSummary, summary_printed r rest, ?_⟩
  exact decide_eq_true_iff

/-- ... and the head token itself -/
theorem summary_head_ok_iff (r : Result) :
    (summaryHead r).head? = some "OK (" ↔ r.failureCount = 0 ∧ 0 < r.runCount + r.ignoredCount := by
  have h := isFailure_iff r
  unfold summaryHead
  by_cases hok : r.ok
  · have hf : r.isFailure = false := by
      cases hx : r.isFailure
      · rfl
      · exact absurd hok (h.mp hx)
    simp only [hf]; simpa [Result.ok] using hok
  · have hf : r.isFailure = true := h.mpr hok
    simp only [hf, if_true]
    have : ¬(r.failureCount = 0 ∧ 0 < r.runCount + r.ignoredCount) := hok
    split <;> simp [this]

/-! ## the value the runner returns -/

theorem castInt_zero_iff (x : Nat) (hx : x < 4294967296) : Gen.Runner.castInt x = 0 ↔ x = 0 := by
  unfold Gen.Runner.castInt
  rw [Nat.mod_eq_of_lt hx]
  split <;> simp only [Int.ofNat_eq_natCast] <;> omega

/-- accumulated over the repetitions the loop produced -/
theorem returnValue_zero_iff (ft fe : Nat) (h1 : ft < 4294967296) (h2 : fe < 4294967296) :
    Gen.Runner.returnValue ft fe = 0 ↔ ft = 0 ∧ fe = 0 := by
  unfold Gen.Runner.returnValue
  by_cases h : ft = 0
  · simp [h, castInt_zero_iff fe h2]
  · simp [h, castInt_zero_iff ft h1]

/-- **exit_zero_iff**: below 2^32 accumulated failures (the `(int)` cast of a `size_t`), the value
    returned by the runner is zero iff every repetition had no failure and ran or ignored
    something. -/
theorem exit_zero_iff (cfg : Cfg) (plugins : List Plugin) (ts : List Test) (n : Nat)
    (hr : cfg.rethrow = false)
    (hsmall : n * (expectedFailures cfg plugins ts).length < 4294967296) (hn : n < 4294967296) :
    ∃ o, runAllTests cfg plugins ts n 0 = .ok o ∧ (o.ret = 0 ↔ ∀ r ∈ o.reps, r.ok) := by
  obtain ⟨o, ho, oo⟩ := run_outcome_top cfg plugins ts n hr
  refine ⟨o, ho, ?_⟩
  have hfc : (expectedCounts cfg plugins ts).failureCount = (expectedFailures cfg plugins ts).length := rfl
  have hisf := isFailure_iff (expectedCounts cfg plugins ts)
  rw [oo.ret, oo.reps, returnValue_zero_iff _ _ (by rw [hfc]; exact hsmall) (by split <;> omega)]
  constructor
  · rintro ⟨h1, h2⟩ r hrm
    obtain ⟨hn0, rfl⟩ := List.mem_replicate.mp hrm
    by_cases hok : (expectedCounts cfg plugins ts).ok
    · exact hok
    · rw [if_pos (hisf.mpr hok)] at h2; exact absurd h2 hn0
  · intro hall
    by_cases hn0 : n = 0
    · subst hn0; simp
    · have hok : (expectedCounts cfg plugins ts).ok := hall _ (List.mem_replicate.mpr ⟨hn0, rfl⟩)
      have hnf : (expectedCounts cfg plugins ts).isFailure = false := by
        cases hx : (expectedCounts cfg plugins ts).isFailure
        · rfl
        · exact absurd hok (hisf.mp hx)
      refine ⟨?_, by simp [hnf]⟩
      rw [hok.1]; simp

/-- **exit_value_wraps**: why the bound is needed — with exactly 2^32 recorded failures the
    expression `(int)(failedTestCount != 0 ? failedTestCount : failedExecutionCount)` is 0
    although a repetition failed (accepted limit of the `int` return type, not a finding). -/
theorem exit_value_wraps : Gen.Runner.returnValue 4294967296 1 = 0 ∧ Gen.Runner.returnValue 4294967295 1 ≠ 0 := by
  constructor <;> decide

/-! ## the same limit with a real program, and the console reader on a whole run -/

theorem toksOf_append (a b : List Ev) : toksOf (a ++ b) = toksOf a ++ toksOf b := by
  simp [toksOf, List.flatMap_append]

/-- **console_reader_partial**: wherever the run prints a failure record, a reader positioned there
    reads back exactly that record; wherever it prints a summary, the reader reads back the counts
    of that repetition. -/
theorem console_reader_partial (pre post : List Ev) :
    (∀ r, r.msg ≠ ":" →
      parseFailureAt ((toksOf (pre ++ .failure r :: post)).drop (toksOf pre).length) = some r.printed) ∧
    (∀ r, parseSummaryAt (((toksOf (pre ++ .summary r :: post)).drop (toksOf pre).length).tail) = some r.printedSummary) := by
  constructor
  · intro r hmsg
    have : toksOf (pre ++ .failure r :: post) = toksOf pre ++ (failureToks r ++ toksOf post) := by
      rw [toksOf_append]; simp [toksOf, Ev.toks]
    rw [this, List.drop_left]
    exact parseFailureAt_failureToks r _ hmsg
  · intro r
    have : toksOf (pre ++ .summary r :: post) = toksOf pre ++ (summaryToks r ++ toksOf post) := by
      rw [toksOf_append]; simp [toksOf, Ev.toks]
    rw [this, List.drop_left]
    exact summary_printed r _

/-- Full strength, NOT proved: scanning the *whole* console text of a run (every position, not only
    the positions where a record starts) yields exactly the failing events and the summaries.  It
    needs well-formedness of every string of the program (no test name, file name or message equal
    to "\n" or ":", ...) and a case analysis over every token the runner can print next to a
    record.  The check covers it per run instead: the oracle scans the implementation's text with
    `scanFailures`/`scanSummaries`, and the model's text is compared with it token by token. -/
def console_reader_full : Prop :=
  ∀ (cfg : Cfg) (plugins : List Plugin) (ts : List Test) (n : Nat), cfg.rethrow = false →
    (∀ r ∈ expectedFailures cfg plugins ts, r.msg ≠ ":" ∧ r.msg ≠ "\n" ∧ r.file ≠ ":" ∧ r.file ≠ "\n" ∧
        r.testFile ≠ ":" ∧ r.testFile ≠ "\n") →
    ∃ o, runAllTests cfg plugins ts n 0 = .ok o ∧
      scanFailures (toksOf o.evs) = (failuresOf o.evs).map FailRec.printed ∧
      scanSummaries (toksOf o.evs) = (summariesOf o.evs).map Result.printedSummary

theorem expectedFailures_replicate (cfg : Cfg) (plugins : List Plugin) (t : Test)
    (hs : shouldRun cfg t = true) (hw : willRun cfg t = true) :
    ∀ N, (expectedFailures cfg plugins (List.replicate N t)).length = N * (testFailures cfg plugins t).length
  | 0 => by simp [expectedFailures, running, selected]
  | N + 1 => by
    have ih := expectedFailures_replicate cfg plugins t hs hw N
    simp only [expectedFailures] at ih ⊢
    rw [List.replicate_succ, running_cons]
    have : running cfg [t] = [t] := by simp [running, selected, hs, hw]
    rw [this, List.flatMap_append, List.length_append, ih]
    simp [Nat.succ_mul, Nat.add_comm]

/-- a test whose body fails one check -/
def failingTest : Test :=
  { group := "g", name := "n", file := "f.cpp", line := 1, ignored := false,
    setup := [], body := [.failCpp ⟨"f.cpp", 2⟩ "x"], teardown := [] }

def plainCfg (exc : Bool) : Cfg :=
  { exceptions := exc, rethrow := false, verbose := false, runIgnored := false, groupFilters := [], nameFilters := [],
    stdExcMsg := "std", otherExcMsg := "other" }

/-- **exit_value_wraps_program**: a program of exactly 2^32 failing tests makes the runner return 0
    although the repetition failed — in both build variants.  This is why `exit_zero_iff` carries
    the bound; it is the accepted limit of the `int` return type. -/
theorem exit_value_wraps_program (exc : Bool) :
    ∃ o, runAllTests (plainCfg exc) [] (List.replicate 4294967296 failingTest) 1 0 = .ok o ∧
      o.ret = 0 ∧ ¬ (∀ r ∈ o.reps, r.ok) := by
  obtain ⟨o, ho, oo⟩ := run_outcome_top (plainCfg exc) [] (List.replicate 4294967296 failingTest) 1 rfl
  have hlen : (expectedFailures (plainCfg exc) [] (List.replicate 4294967296 failingTest)).length = 4294967296 := by
    rw [expectedFailures_replicate (plainCfg exc) [] failingTest (by cases exc <;> decide) (by cases exc <;> decide)]
    have : (testFailures (plainCfg exc) [] failingTest).length = 1 := by cases exc <;> decide
    rw [this]
  have hfc : (expectedCounts (plainCfg exc) [] (List.replicate 4294967296 failingTest)).failureCount = 4294967296 := hlen
  have hisf : (expectedCounts (plainCfg exc) [] (List.replicate 4294967296 failingTest)).isFailure = true := by
    rw [isFailure_iff]; intro hok; rw [Result.ok, hfc] at hok; exact absurd hok.1 (by decide)
  refine ⟨o, ho, ?_, ?_⟩
  · rw [oo.ret, hfc, hisf]; decide
  · rw [oo.reps]
    intro hall
    have := hall _ (List.mem_replicate.mpr ⟨by decide, rfl⟩)
    rw [Result.ok, hfc] at this
    exact absurd this.1 (by decide)

/-! ## non-vacuity: concrete programs -/

def exCfg (exc : Bool) : Cfg :=
  { exceptions := exc, rethrow := false, verbose := false, runIgnored := false, groupFilters := [], nameFilters := [],
    stdExcMsg := "std", otherExcMsg := "other" }

/-- setup fails a C++-style check after mark 1; body must not run; teardown throws after mark 4 -/
def exTest : Test :=
  { group := "g", name := "n", file := "f.cpp", line := 10, ignored := false,
    setup := [.mark 1, .failCpp ⟨"f.cpp", 12⟩ "boom", .mark 2],
    body := [.mark 3],
    teardown := [.mark 4, .throwStd, .mark 5] }

def exPlugin : Plugin := { name := "p", enabled := true, pre := [], post := [⟨none, ⟨"h.c", 7⟩, "leak"⟩] }

/-- with exceptions: marks 1 and 4 only, three failures (check, exception, plugin), depth back to 0,
    return value 3 -/
example :
    (runAllTests (exCfg true) [exPlugin] [exTest] 1 0).toOption.map
      (fun o => (marksIn o.evs, (failuresOf o.evs).map (fun r => (r.file, r.line)), o.depth, o.ret, o.reps.map (·.failureCount)))
    = some ([(.setup, 1), (.teardown, 4)], [("f.cpp", 12), ("f.cpp", 10), ("h.c", 7)], 0, 3, [3]) := by
  decide

/-- without exceptions the throw statement does not exist: teardown runs to its end -/
example :
    (runAllTests (exCfg false) [exPlugin] [exTest] 1 0).toOption.map
      (fun o => (marksIn o.evs, (failuresOf o.evs).length, o.depth, o.ret))
    = some ([(.setup, 1), (.teardown, 4), (.teardown, 5)], 2, 0, 2) := by
  decide

/-- 25 consecutive failing tests, two repetitions: no fault, depth 0 after every test -/
example :
    (runAllTests (exCfg true) [] (List.replicate 25 exTest) 2 0).toOption.map
      (fun o => (o.depth, (endedOf o.evs).all (fun e => e.1 == 0), o.ret, (endedOf o.evs).length))
    = some (0, true, 100, 50) := by
  decide

/-- the depth hypothesis is needed: started at index 9 of 10, the test's inner setjmp would use
    slot 10 — the model reports the fault instead of hiding it -/
example :
    (match runAllTests (exCfg true) [] [exTest] 1 9 with
     | .error (.jmpIndex 10) => true
     | _ => false) = true := by decide

/-- a filter that selects nothing: "ran nothing", not OK, return value 1 -/
example :
    (runAllTests { exCfg true with nameFilters := [⟨"zz", false⟩] } [] [exTest] 1 0).toOption.map
      (fun o => (o.ret, o.reps.map (·.isFailure), o.reps.map (·.filteredOutCount)))
    = some (1, [true], [1]) := by
  decide

end Runner
