import CppUModel.Proofs.Runner
import CppUModel.Proofs.RunnerCode
/-!
# C01 — a failing check always fails the run: lifecycle, failure count, exit value

Property theorems only.  Model: `CppUModel/Model/Runner.lean` (from `Utest.cpp`,
`UtestPlatform.cpp`, `TestResult`, `TestOutput.cpp`, `TestPlugin.cpp`, `TestRegistry.cpp`,
`CommandLineTestRunner.cpp`); vocabulary (textbook reading of the property, console reader):
`CppUModel/Spec/Runner.lean`.  Regenerated from the source on every run: the length of the
setjmp buffer array, `TestResult::isFailure`, the verdict condition of
`TestOutput::printTestsEnded`, the return expression of `runAllTests` (`Gen/RunnerConstants.lean`).

All theorems hold for every test program (any number of tests, any statements in the three
phases), every plugin chain, every filter set, every repeat count and **both build variants**
(`cfg.exceptions` is universally quantified), every verbosity (`-v`, `-vv`), with and without
colour, every stream of clock readings, with rethrow mode off — and in rethrow mode as long as no
std / foreign exception leaves a test (`QuietTest`); what happens when one does is
`rethrow_propagates`.
-/
namespace Runner

/-- rethrow mode off: every test is quiet -/
theorem quiet_of_rethrow_off {cfg : Cfg} (hr : cfg.rethrow = false) (t : Test) : QuietTest cfg t := Or.inl hr

/-- the two slots a test needs: `jmp_buf_index = d` on entry, `d` and `d+1` inside the array -/
theorem inBuf_of {d : Int} (h0 : 0 ≤ d) (h1 : d + 2 ≤ Int.ofNat Gen.Runner.jmpBufLen) :
    inBuf d = true ∧ inBuf (d + 1) = true := by
  simp only [inBuf, Bool.and_eq_true, decide_eq_true_eq]
  omega

/-- at top level (`jmp_buf_index = 0`) the regenerated array length is enough -/
theorem inBuf_top : inBuf 0 = true ∧ inBuf (0 + 1) = true := by decide

/-! ## statements after a terminating statement never execute -/

theorem executed_append_terminator (exc : Bool) (s : Stmt) (post : List Stmt) (hs : s.terminates exc = true) :
    ∀ (pre : List Stmt), (∀ x ∈ pre, x.terminates exc = false) → executed exc (pre ++ s :: post) = pre ++ [s]
  | [], _ => by simp [executed, hs]
  | x :: pre, h => by
    have hx : x.terminates exc = false := h x (by simp)
    have ih := executed_append_terminator exc s post hs pre (fun y hy => h y (by simp [hy]))
    simp [executed, hx, ih]

/-- **Nothing placed after a terminating statement has any effect**: the whole outcome of a phase
    (events, counters, failed flag, way of leaving) does not depend on what follows the first
    failing check / TEST_EXIT / throw. -/
theorem no_effect_after_terminator (cfg : Cfg) (t : Test) (ph : Phase) (d : Int) (s : Stmt) (post : List Stmt)
    (hs : s.terminates cfg.exceptions = true) :
    ∀ (pre : List Stmt) (res : Result) (hf : Bool),
      runStmts cfg t ph d res hf (pre ++ s :: post) = runStmts cfg t ph d res hf (pre ++ [s])
  | [], res, hf => by
    cases hx : cfg.exceptions <;> cases s <;> simp_all [runStmts, Stmt.terminates, outcome_fails]
  | x :: pre, res, hf => by
    have ih := no_effect_after_terminator cfg t ph d s post hs pre
    cases hx : cfg.exceptions <;> cases x <;> simp [runStmts, hx, ih]

/-- **no_statement_after_terminator**: the marks a phase produces are exactly the marks placed
    before its first terminating statement; the terminating statement leaves the phase. -/
theorem no_statement_after_terminator (cfg : Cfg) (t : Test) (ph : Phase) (d : Int) (res : Result) (hf : Bool)
    (pre : List Stmt) (s : Stmt) (post : List Stmt)
    (hpre : ∀ x ∈ pre, x.terminates cfg.exceptions = false) (hs : s.terminates cfg.exceptions = true) :
    marksIn (runStmts cfg t ph d res hf (pre ++ s :: post)).evs = (marksOf pre).map (fun n => (ph, n)) ∧
    (runStmts cfg t ph d res hf (pre ++ s :: post)).exit ≠ .normal := by
  refine ⟨?_, ?_⟩
  · rw [runStmts_marks, executed_append_terminator cfg.exceptions s post hs pre hpre]
    cases s <;> simp [marksOf, Stmt.markNo, Stmt.terminates] at hs ⊢
  · rw [runStmts_exit]
    intro h
    have hc := (exitOf_normal_iff cfg.exceptions (pre ++ s :: post)).mp h
    simp [completes, hs] at hc

/-- a phase without a terminating statement runs all its statements and returns normally -/
theorem phase_without_terminator_completes (cfg : Cfg) (t : Test) (ph : Phase) (d : Int) (res : Result) (hf : Bool)
    (p : List Stmt) (hp : ∀ x ∈ p, x.terminates cfg.exceptions = false) :
    marksIn (runStmts cfg t ph d res hf p).evs = (marksOf p).map (fun n => (ph, n)) ∧
    (runStmts cfg t ph d res hf p).exit = .normal := by
  have hex : executed cfg.exceptions p = p := by
    induction p with
    | nil => rfl
    | cons x p ih =>
      simp [executed, hp x (by simp), ih (fun y hy => hp y (by simp [hy]))]
  refine ⟨by rw [runStmts_marks, hex], ?_⟩
  rw [runStmts_exit, exitOf_normal_iff]
  simp only [completes, Bool.not_eq_eq_eq_not, Bool.not_true, List.any_eq_false]
  intro x hx; simp [hp x hx]

/-! ## one test: lifecycle, setjmp depth, current test, failed flag -/

/-- **test_outcome**: `runOneTest` never faults (no index outside the 10-slot array, every
    longjmp lands in the innermost frame) and does what the property demands, for every test,
    plugin chain and build variant. -/
theorem test_outcome (cfg : Cfg) (plugins : List Plugin) (t : Test) (st : TSt)
    (hr : cfg.rethrow = false) (h0 : 0 ≤ st.depth) (h1 : st.depth + 2 ≤ Int.ofNat Gen.Runner.jmpBufLen) :
    ∃ j, runOneTest cfg plugins t st = .ok j ∧ TestOutcome cfg plugins t st j :=
  runOneTest_closed cfg plugins t st (quiet_of_rethrow_off hr t) (inBuf_of h0 h1).1 (inBuf_of h0 h1).2

/-- **body_iff_setup_completed**: the body is entered (exactly once) iff setup reached its end. -/
theorem body_iff_setup_completed (cfg : Cfg) (plugins : List Plugin) (t : Test) (st : TSt) (j : JmpOut)
    (hr : cfg.rethrow = false) (h0 : 0 ≤ st.depth) (h1 : st.depth + 2 ≤ Int.ofNat Gen.Runner.jmpBufLen)
    (hj : runOneTest cfg plugins t st = .ok j) :
    (Phase.body ∈ entersOf j.evs ↔ completes cfg.exceptions t.setup = true) ∧
    (entersOf j.evs).count .body ≤ 1 := by
  obtain ⟨j', hj', o⟩ := test_outcome cfg plugins t st hr h0 h1
  have : j = j' := by rw [hj] at hj'; exact Except.ok.inj hj'
  subst this
  rw [o.enters, phasesRun]
  cases completes cfg.exceptions t.setup <;> simp

/-- **teardown_iff_setup_entered**: setup and teardown are each entered exactly once, setup first
    and teardown last, whatever happened in between. -/
theorem teardown_iff_setup_entered (cfg : Cfg) (plugins : List Plugin) (t : Test) (st : TSt) (j : JmpOut)
    (hr : cfg.rethrow = false) (h0 : 0 ≤ st.depth) (h1 : st.depth + 2 ≤ Int.ofNat Gen.Runner.jmpBufLen)
    (hj : runOneTest cfg plugins t st = .ok j) :
    (entersOf j.evs).count .setup = 1 ∧ (entersOf j.evs).count .teardown = 1 ∧
    (entersOf j.evs).head? = some .setup ∧ (entersOf j.evs).getLast? = some .teardown := by
  obtain ⟨j', hj', o⟩ := test_outcome cfg plugins t st hr h0 h1
  have : j = j' := by rw [hj] at hj'; exact Except.ok.inj hj'
  subst this
  rw [o.enters, phasesRun]
  cases completes cfg.exceptions t.setup <;> simp

/-- the statements a test executes are exactly: setup up to its first terminating statement; the
    body likewise, only if setup completed; teardown likewise, always -/
theorem test_marks (cfg : Cfg) (plugins : List Plugin) (t : Test) (st : TSt) (j : JmpOut)
    (hr : cfg.rethrow = false) (h0 : 0 ≤ st.depth) (h1 : st.depth + 2 ≤ Int.ofNat Gen.Runner.jmpBufLen)
    (hj : runOneTest cfg plugins t st = .ok j) :
    marksIn j.evs =
      (marksOf (executed cfg.exceptions t.setup)).map (fun n => (Phase.setup, n)) ++
      (if completes cfg.exceptions t.setup then (marksOf (executed cfg.exceptions t.body)).map (fun n => (Phase.body, n)) else []) ++
      (marksOf (executed cfg.exceptions t.teardown)).map (fun n => (Phase.teardown, n)) := by
  obtain ⟨j', hj', o⟩ := test_outcome cfg plugins t st hr h0 h1
  have : j = j' := by rw [hj] at hj'; exact Except.ok.inj hj'
  subst this
  rw [o.marks, testMarks, phasesRun]
  cases completes cfg.exceptions t.setup <;> simp [stmtsOf]

/-- **jmp_depth_restored** (one test): after the test `jmp_buf_index` is what it was before, for
    every way the three phases can end. -/
theorem jmp_depth_restored (cfg : Cfg) (plugins : List Plugin) (t : Test) (st : TSt)
    (hr : cfg.rethrow = false) (h0 : 0 ≤ st.depth) (h1 : st.depth + 2 ≤ Int.ofNat Gen.Runner.jmpBufLen) :
    ∃ j, runOneTest cfg plugins t st = .ok j ∧ j.st.depth = st.depth ∧ j.esc = none := by
  obtain ⟨j, hj, o⟩ := test_outcome cfg plugins t st hr h0 h1
  exact ⟨j, hj, o.depth, o.esc⟩

/-- **current_test_restored**: the saved `currentTest_` is put back. -/
theorem current_test_restored (cfg : Cfg) (plugins : List Plugin) (t : Test) (st : TSt)
    (hr : cfg.rethrow = false) (h0 : 0 ≤ st.depth) (h1 : st.depth + 2 ≤ Int.ofNat Gen.Runner.jmpBufLen) :
    ∃ j, runOneTest cfg plugins t st = .ok j ∧ j.st.current = st.current := by
  obtain ⟨j, hj, o⟩ := test_outcome cfg plugins t st hr h0 h1
  exact ⟨j, hj, o.current⟩

/-- the per-test failed flag is set exactly when a phase of the test recorded a failure
    (plugin-reported errors go to the result only) -/
theorem failed_flag_iff (cfg : Cfg) (plugins : List Plugin) (t : Test) (st : TSt)
    (hr : cfg.rethrow = false) (h0 : 0 ≤ st.depth) (h1 : st.depth + 2 ≤ Int.ofNat Gen.Runner.jmpBufLen) :
    ∃ j, runOneTest cfg plugins t st = .ok j ∧ (j.st.hasFailed = true ↔ testPhaseFailures cfg t ≠ []) := by
  obtain ⟨j, hj, o⟩ := test_outcome cfg plugins t st hr h0 h1
  refine ⟨j, hj, ?_⟩
  rw [o.hasFailed]
  cases testPhaseFailures cfg t <;> simp

/-- **jmp_depth_restored_tests** (by induction over the test list): after ANY list of tests —
    in particular after any number of consecutive failing tests of any kinds — the loop has not
    faulted, `jmp_buf_index` and the current test are what they were. -/
theorem jmp_depth_restored_tests (cfg : Cfg) (plugins : List Plugin) (ts : List Test) (s : LSt)
    (hr : cfg.rethrow = false) (h0 : 0 ≤ s.depth) (h1 : s.depth + 2 ≤ Int.ofNat Gen.Runner.jmpBufLen) :
    ∃ a, runTests cfg plugins ts s = .ok a ∧ a.st.depth = s.depth ∧ a.st.current = s.current := by
  obtain ⟨a, ha, o⟩ := runTests_closed cfg plugins ts s (fun t _ => quiet_of_rethrow_off hr t) (inBuf_of h0 h1).1 (inBuf_of h0 h1).2
  exact ⟨a, ha, o.depth, o.current⟩

/-- after every single test of the run the observed depth and current test are the initial ones -/
theorem depth_after_every_test (cfg : Cfg) (plugins : List Plugin) (ts : List Test) (s : LSt)
    (hr : cfg.rethrow = false) (h0 : 0 ≤ s.depth) (h1 : s.depth + 2 ≤ Int.ofNat Gen.Runner.jmpBufLen) :
    ∃ a, runTests cfg plugins ts s = .ok a ∧
      ∀ e ∈ endedOf a.evs, e.1 = s.depth ∧ e.2.1 = s.current := by
  obtain ⟨a, ha, o⟩ := runTests_closed cfg plugins ts s (fun t _ => quiet_of_rethrow_off hr t) (inBuf_of h0 h1).1 (inBuf_of h0 h1).2
  refine ⟨a, ha, ?_⟩
  rw [o.ended]
  intro e he
  simp only [List.mem_map] at he
  obtain ⟨t, _, rfl⟩ := he
  exact ⟨rfl, rfl⟩

/-! ## the whole run -/

/-- **run_outcome**: `CommandLineTestRunner::runAllTests` never faults and its observable result
    is the declarative one. `d = 0` is the depth `main` runs at. -/
theorem run_outcome (cfg : Cfg) (plugins : List Plugin) (ts : List Test) (n : Nat) (d : Int)
    (hr : cfg.rethrow = false) (h0 : 0 ≤ d) (h1 : d + 2 ≤ Int.ofNat Gen.Runner.jmpBufLen) :
    ∃ o, runAllTests cfg plugins ts n d = .ok o ∧ RunOutcome cfg plugins ts n d o :=
  runAllTests_closed cfg plugins ts n d (fun t _ => quiet_of_rethrow_off hr t) (inBuf_of h0 h1).1 (inBuf_of h0 h1).2

/-- the same at top level, where the only hypothesis left is the regenerated array length (checked
    by `decide` in `inBuf_top`): the 10-slot array is never indexed out of range -/
theorem run_outcome_top (cfg : Cfg) (plugins : List Plugin) (ts : List Test) (n : Nat)
    (hr : cfg.rethrow = false) :
    ∃ o, runAllTests cfg plugins ts n 0 = .ok o ∧ RunOutcome cfg plugins ts n 0 o :=
  runAllTests_closed cfg plugins ts n 0 (fun t _ => quiet_of_rethrow_off hr t) inBuf_top.1 inBuf_top.2

/-- **jmp_depth_restored_run**: after all repetitions the depth is the initial one -/
theorem jmp_depth_restored_run (cfg : Cfg) (plugins : List Plugin) (ts : List Test) (n : Nat)
    (hr : cfg.rethrow = false) :
    ∃ o, runAllTests cfg plugins ts n 0 = .ok o ∧ o.depth = 0 ∧ o.current = none ∧
      ∀ e ∈ endedOf o.evs, e.1 = 0 ∧ e.2.1 = none := by
  obtain ⟨o, ho, oo⟩ := run_outcome_top cfg plugins ts n hr
  refine ⟨o, ho, oo.depth, oo.current, ?_⟩
  rw [oo.ended]
  intro e he
  simp only [flattenRep, List.mem_flatten, List.mem_replicate] at he
  obtain ⟨l, ⟨_, rfl⟩, he⟩ := he
  simp only [List.mem_map] at he
  obtain ⟨t, _, rfl⟩ := he
  exact ⟨rfl, rfl⟩

theorem sum_map_length {α β} (f : α → List β) : ∀ (l : List α), (l.map (fun a => (f a).length)).sum = (l.flatMap f).length
  | [] => rfl
  | a :: l => by
    have ih := sum_map_length f l
    simp only [List.map_cons, List.sum_cons, List.flatMap_cons, List.length_append, ih]

theorem testFailCount_in_process (cfg : Cfg) (plugins : List Plugin) (hsep : cfg.separate = false) :
    testFailCount cfg plugins = fun t => (testFailures cfg plugins t).length := by
  funext t; simp [testFailCount, hsep]

theorem testRecords_in_process (cfg : Cfg) (plugins : List Plugin) (hsep : cfg.separate = false) :
    testRecords cfg plugins = testFailures cfg plugins := by
  funext t; simp [testRecords, hsep]

/-- without `-p` the run's failure counter is the number of failing events -/
theorem failureCount_in_process (cfg : Cfg) (plugins : List Plugin) (ts : List Test) (hsep : cfg.separate = false) :
    (expectedCounts cfg plugins ts).failureCount = (expectedFailures cfg plugins ts).length := by
  simp only [expectedCounts, expectedFailures, testFailCount_in_process cfg plugins hsep]
  exact sum_map_length _ _

/-- without `-p` nothing but the failing events is printed as a record -/
theorem expectedRecords_in_process (cfg : Cfg) (plugins : List Plugin) (ts : List Test) (hsep : cfg.separate = false) :
    expectedRecords cfg plugins ts = expectedFailures cfg plugins ts := by
  simp only [expectedRecords, expectedFailures, testRecords_in_process cfg plugins hsep]

/-- **failures_recorded_once**: the failure records printed in a run are, in order, exactly the
    failing events of each repetition (failed check, escaped exception per phase, plugin-reported
    error) — each once; and the failure counter of every repetition is their number. -/
theorem failures_recorded_once (cfg : Cfg) (plugins : List Plugin) (ts : List Test) (n : Nat)
    (hr : cfg.rethrow = false) :
    ∃ o, runAllTests cfg plugins ts n 0 = .ok o ∧
      failuresOf o.evs = (List.replicate n (expectedFailures cfg plugins ts)).flatten ∧
      ∀ r ∈ o.reps, r.failureCount = ((running cfg ts).map (testFailCount cfg plugins)).sum ∧
        (cfg.separate = false → r.failureCount = (expectedFailures cfg plugins ts).length) := by
  obtain ⟨o, ho, oo⟩ := run_outcome_top cfg plugins ts n hr
  refine ⟨o, ho, oo.failures, ?_⟩
  rw [oo.reps]
  intro r hrm
  rw [(List.mem_replicate.mp hrm).2]
  exact ⟨rfl, failureCount_in_process cfg plugins ts⟩

/-- **recorded_once_with_separate_process** (`-p`): every failing event (failed check, escaped exception,
    plugin-reported error — in the child's pre or post action alike) is printed exactly once, by the
    child that ran the test, in order (`failures_recorded_once` holds unchanged); the parent prints ONE
    further record "Failed in separate process", located at the test, for every child that recorded
    at least one failing event, and counts one failure for it; a child without a failing event adds
    nothing.  So with `-p` a repetition's failure counter is the number of failed tests, and it is zero
    iff there was no failing event at all. -/
theorem recorded_once_with_separate_process (cfg : Cfg) (plugins : List Plugin) (ts : List Test) (n : Nat)
    (hr : cfg.rethrow = false) (hsep : cfg.separate = true) :
    ∃ o, runAllTests cfg plugins ts n 0 = .ok o ∧
      failuresOf o.evs = (List.replicate n (expectedFailures cfg plugins ts)).flatten ∧
      recordsOf o.evs = (List.replicate n ((running cfg ts).flatMap (fun t =>
        testFailures cfg plugins t ++ (if (testFailures cfg plugins t).isEmpty then [] else [sepRec cfg t])))).flatten ∧
      (∀ r ∈ o.reps, r.failureCount = ((running cfg ts).filter (fun t => !(testFailures cfg plugins t).isEmpty)).length ∧
        (r.failureCount = 0 ↔ expectedFailures cfg plugins ts = []) ∧ r.checkCount = 0) := by
  obtain ⟨o, ho, oo⟩ := run_outcome_top cfg plugins ts n hr
  have hcount : ∀ (l : List Test), (l.map (testFailCount cfg plugins)).sum =
      (l.filter (fun t => !(testFailures cfg plugins t).isEmpty)).length := by
    intro l
    induction l with
    | nil => rfl
    | cons a l ih =>
      cases ha : (testFailures cfg plugins a).isEmpty <;>
        simp [testFailCount, hsep, ha, List.filter_cons, ih] <;> omega
  refine ⟨o, ho, oo.failures, ?_, ?_⟩
  · rw [oo.records]
    have hrec : testRecords cfg plugins = fun t =>
        testFailures cfg plugins t ++ (if (testFailures cfg plugins t).isEmpty then [] else [sepRec cfg t]) := by
      funext t
      cases hh : (testFailures cfg plugins t).isEmpty <;> simp [testRecords, hsep, hh]
    simp only [flattenRep, expectedRecords, hrec]
  · rw [oo.reps]
    intro r hrm
    rw [(List.mem_replicate.mp hrm).2]
    refine ⟨hcount _, ?_, ?_⟩
    · show ((running cfg ts).map (testFailCount cfg plugins)).sum = 0 ↔ _
      rw [hcount, expectedFailures]
      simp only [List.length_eq_zero_iff, List.filter_eq_nil_iff, List.flatMap_eq_nil_iff]
      constructor
      · intro h t ht
        have := h t ht
        simpa using this
      · intro h t ht
        simp [h t ht]
    · show ((running cfg ts).map (testChecksCounted cfg)).sum = 0
      have : testChecksCounted cfg = fun _ => 0 := by funext t; simp [testChecksCounted, hsep]
      rw [this]
      induction running cfg ts with
      | nil => rfl
      | cons a l ih => simpa using ih

/-- each failing check is recorded with ITS OWN file and line; an escaping exception with the
    test's file and line -/
theorem failure_location (cfg : Cfg) (t : Test) (s : Stmt) (r : FailRec) (h : s.failure cfg t = some r) :
    (∀ loc msg, (s = .failCpp loc msg ∨ s = .failC loc msg) → r.file = loc.file ∧ r.line = loc.line ∧ r.msg = msg) ∧
    ((s = .throwStd ∨ s = .throwOther) → r.file = t.file ∧ r.line = t.line) ∧
    r.testName = formattedName cfg t := by
  cases s <;> simp [Stmt.failure, mkRec, mkRecAtTest] at h ⊢
  · subst h; simp
  · subst h; simp
  · obtain ⟨_, rfl⟩ := h; simp
  · obtain ⟨_, rfl⟩ := h; simp
  · obtain ⟨_, rfl⟩ := h; rfl

/-- the documented counting rule (every check one, a passing CHECK_COMPARE none) is what C03's model
    of the check macros counts, statement by statement -/
theorem checkCount_eq_c03 (s : Stmt) : s.checkCount = s.c03Counted := by
  cases s <;> simp [Stmt.checkCount, Stmt.c03Counted, Stmt.c03Outcome, outcome_counted] <;> rfl

theorem testChecks_eq_c03 (cfg : Cfg) (t : Test) : testChecks cfg t = c03ChecksOfTest cfg t := by
  simp only [testChecks, c03ChecksOfTest, checksOf]
  congr 1
  apply List.map_congr_left
  intro ph _
  congr 1
  apply List.map_congr_left
  intro s _
  exact checkCount_eq_c03 s

/-- **summary_checks_are_c03_counts**: the "checks" figure of a repetition is the sum, over the tests
    that run and the statements that execute, of the counts property C03's model assigns to each
    check macro (`Asserts.assert_family_counts_one`, `compare_pass_counts_zero`, …). -/
theorem summary_checks_are_c03_counts (cfg : Cfg) (plugins : List Plugin) (ts : List Test)
    (hsep : cfg.separate = false) :
    (expectedCounts cfg plugins ts).checkCount = ((running cfg ts).map (c03ChecksOfTest cfg)).sum := by
  simp only [expectedCounts]
  congr 1
  apply List.map_congr_left
  intro t _
  simp only [testChecksCounted, hsep, Bool.false_eq_true, if_false]
  exact testChecks_eq_c03 cfg t

/-- **summary_counts_true**: every repetition prints one summary, and it carries the true counts
    (tests, run, checks, ignored, filtered out, failures) — for every verbosity, colour setting and
    stream of clock readings; the check count is the sum of C03's per-statement counts.  (With `-p`
    the counters of the children are lost: `expectedCounts` then has one failure per failed child and
    no checks — see `recorded_once_with_separate_process`.) -/
theorem summary_counts_true (cfg : Cfg) (plugins : List Plugin) (ts : List Test) (n : Nat)
    (hr : cfg.rethrow = false) :
    ∃ o, runAllTests cfg plugins ts n 0 = .ok o ∧
      (summariesOf o.evs).map Prod.fst = List.replicate n (expectedCounts cfg plugins ts) ∧
      o.reps = List.replicate n (expectedCounts cfg plugins ts) ∧
      (cfg.separate = false → ∀ r ∈ o.reps, r.checkCount = ((running cfg ts).map (c03ChecksOfTest cfg)).sum) := by
  obtain ⟨o, ho, oo⟩ := run_outcome_top cfg plugins ts n hr
  refine ⟨o, ho, oo.summaries, oo.reps, ?_⟩
  rw [oo.reps]
  intro hsep r hrm
  rw [(List.mem_replicate.mp hrm).2]
  exact summary_checks_are_c03_counts cfg plugins ts hsep

/-- **printed_verdict_is_the_returned_verdict**: the condition `printTestsEnded` uses to choose between
    "Errors (" and "OK (" and the condition the runner's return value is computed from
    (`TestResult::isFailure`) — both regenerated from the source — agree on every result. -/
theorem printed_verdict_is_the_returned_verdict (r : Result) : r.printsFailure = r.isFailure := by
  have h1 := printsFailure_iff r
  have h2 := isFailure_iff r
  cases hp : r.printsFailure <;> cases hi : r.isFailure <;> simp_all

/-- **summary_ok_iff**: the summary a repetition prints is read back (by the reader that scans the
    whole text) as exactly one summary carrying the true counts and the elapsed time, and it reads
    "OK (" exactly when the repetition had no failure and ran or ignored at least one test — with and
    without colour. -/
theorem summary_ok_iff (c : Bool) (r : Result) (time : Nat) (rest : List String) :
    ∃ p, scanSummaries (summaryToks c r time ++ rest) = p :: scanSummaries rest ∧
      (p.ok = true ↔ r.failureCount = 0 ∧ 0 < r.runCount + r.ignoredCount) ∧
      p.tests = toString r.testCount ∧ p.ran = toString r.runCount ∧ p.checks = toString r.checkCount ∧
      p.ignored = toString r.ignoredCount ∧ p.filtered = toString r.filteredOutCount ∧ p.time = toString time ∧
      (p.failures = if r.failureCount = 0 then none else some (toString r.failureCount)) :=
  ⟨r.printedSummary time, scanSummaries_summaryToks c r time rest, decide_eq_true_iff, rfl, rfl, rfl, rfl, rfl, rfl, rfl⟩

/-- the colour option only adds the three escape strings -/
theorem colour_only_wraps (r : Result) (time : Nat) :
    (summaryToks true r time).filter (fun s => s != "\x1b[31;1m" && s != "\x1b[32;1m" && s != "\x1b[m")
      = summaryToks false r time := by
  have hn : ∀ n : Nat, (n.repr != "\x1b[31;1m" && n.repr != "\x1b[32;1m" && n.repr != "\x1b[m") = true := by
    intro n
    have a := repr_ne_of_nondigit n "\x1b[31;1m" '[' (by decide) (by decide)
    have b := repr_ne_of_nondigit n "\x1b[32;1m" '[' (by decide) (by decide)
    have c := repr_ne_of_nondigit n "\x1b[m" '[' (by decide) (by decide)
    simp [a, b, c]
  unfold summaryToks summaryHead
  cases r.printsFailure <;> by_cases h0 : r.failureCount > 0 <;>
    simp [h0, noteText, List.filter_cons, hn]

/-! ## the value the runner returns -/

theorem castInt_zero_iff (x : Nat) (hx : x < 4294967296) : Gen.Runner.castInt x = 0 ↔ x = 0 := by
  unfold Gen.Runner.castInt
  rw [Nat.mod_eq_of_lt hx]
  split <;> simp only [Int.ofNat_eq_natCast] <;> omega

/-- accumulated over the repetitions the loop produced -/
theorem returnValue_zero_iff (ft fe : Nat) (h1 : ft < 4294967296) (h2 : fe < 4294967296) :
    Gen.Runner.returnValue ft fe = 0 ↔ ft = 0 ∧ fe = 0 := by
  unfold Gen.Runner.returnValue
  by_cases h : ft = 0
  · simp [h, castInt_zero_iff fe h2]
  · simp [h, castInt_zero_iff ft h1]

/-- **exit_zero_iff**: below 2^32 accumulated failures (the `(int)` cast of a `size_t`), the value
    returned by the runner is zero iff every repetition had no failure and ran or ignored
    something. -/
theorem exit_zero_iff (cfg : Cfg) (plugins : List Plugin) (ts : List Test) (n : Nat)
    (hr : cfg.rethrow = false)
    (hsmall : n * (expectedCounts cfg plugins ts).failureCount < 4294967296) (hn : n < 4294967296) :
    ∃ o, runAllTests cfg plugins ts n 0 = .ok o ∧ (o.ret = 0 ↔ ∀ r ∈ o.reps, r.ok) := by
  obtain ⟨o, ho, oo⟩ := run_outcome_top cfg plugins ts n hr
  refine ⟨o, ho, ?_⟩
  have hisf := isFailure_iff (expectedCounts cfg plugins ts)
  rw [oo.ret, oo.reps, returnValue_zero_iff _ _ hsmall (by split <;> omega)]
  constructor
  · rintro ⟨h1, h2⟩ r hrm
    obtain ⟨hn0, rfl⟩ := List.mem_replicate.mp hrm
    by_cases hok : (expectedCounts cfg plugins ts).ok
    · exact hok
    · rw [if_pos (hisf.mpr hok)] at h2; exact absurd h2 hn0
  · intro hall
    by_cases hn0 : n = 0
    · subst hn0; simp
    · have hok : (expectedCounts cfg plugins ts).ok := hall _ (List.mem_replicate.mpr ⟨hn0, rfl⟩)
      have hnf : (expectedCounts cfg plugins ts).isFailure = false := by
        cases hx : (expectedCounts cfg plugins ts).isFailure
        · rfl
        · exact absurd hok (hisf.mp hx)
      refine ⟨?_, by simp [hnf]⟩
      rw [hok.1]; simp

/-- **exit_value_wraps**: why the bound is needed — with exactly 2^32 recorded failures the
    expression `(int)(failedTestCount != 0 ? failedTestCount : failedExecutionCount)` is 0
    although a repetition failed (accepted limit of the `int` return type, not a finding). -/
theorem exit_value_wraps : Gen.Runner.returnValue 4294967296 1 = 0 ∧ Gen.Runner.returnValue 4294967295 1 ≠ 0 := by
  constructor <;> decide

/-! ## the reader of the whole console text -/

/-- **record_read_back**: whatever is printed before and after it, the strings of one failure record
    are read back as exactly that record — its own file:line, test name, message, in both print
    shapes of `TestOutput::printFailure`. -/
theorem record_read_back (r : FailRec) (hc : r.clean) (before after : List String) :
    ∃ w, scanFrom before (failureToks r ++ after) = r.printed :: scanFrom w after ∧
      r.printed.file = r.file ∧ r.printed.line = toString r.line ∧ r.printed.testName = r.testName ∧
      r.printed.msg = r.msg :=
  ⟨_, scanFrom_failureToks r hc before after, rfl, rfl, rfl, rfl⟩

/-- failing events of a program are clean when their free strings are not markers (the test name
    never is: it ends in ")") -/
theorem clean_of_strings (cfg : Cfg) (t : Test) (loc : Loc) (msg : String)
    (h1 : msg ≠ ":") (h2 : msg ∉ markers) (h3 : loc.file ∉ markers) (h4 : t.file ∉ markers) :
    (mkRec cfg t loc msg).clean :=
  ⟨h1, h2, h3, h4, formattedName_not_marker cfg t⟩

/-- **console_reader_full**: reading the WHOLE console text of a run — every position, every
    verbosity, with or without colour, any clock — yields exactly the failing events of every
    repetition, in order, each once, with its own file:line, and exactly one summary per repetition
    carrying the true counts; provided the free strings of the failing events (message, file names)
    are not themselves one of the three marker strings and no message is a lone ":". -/
theorem console_reader_full (cfg : Cfg) (plugins : List Plugin) (ts : List Test) (n : Nat)
    (hr : cfg.rethrow = false) (hclean : ∀ r ∈ expectedRecords cfg plugins ts, r.clean) :
    ∃ o, runAllTests cfg plugins ts n 0 = .ok o ∧
      scanFailures (toksOf cfg.color o.evs) =
        ((List.replicate n (expectedRecords cfg plugins ts)).flatten).map FailRec.printed ∧
      (cfg.separate = false → scanFailures (toksOf cfg.color o.evs) =
        ((List.replicate n (expectedFailures cfg plugins ts)).flatten).map FailRec.printed) ∧
      scanSummaries (toksOf cfg.color o.evs) = (summariesOf o.evs).map (fun x => x.1.printedSummary x.2) ∧
      (scanSummaries (toksOf cfg.color o.evs)).map (fun p => (p.ok, p.tests, p.ran, p.checks, p.ignored, p.filtered, p.failures))
        = List.replicate n
            (let p := (expectedCounts cfg plugins ts).printedSummary 0
             (p.ok, p.tests, p.ran, p.checks, p.ignored, p.filtered, p.failures)) := by
  obtain ⟨o, ho, oo⟩ := run_outcome_top cfg plugins ts n hr
  have hce : CleanEvs o.evs := by
    refine ⟨oo.safe, ?_⟩
    rw [oo.records]
    intro r hrm
    simp only [flattenRep, List.mem_flatten, List.mem_replicate] at hrm
    obtain ⟨l, ⟨_, rfl⟩, hrl⟩ := hrm
    exact hclean r hrl
  have hs := scanSummaries_toksOf cfg.color o.evs hce
  have hf : scanFailures (toksOf cfg.color o.evs) =
      ((List.replicate n (expectedRecords cfg plugins ts)).flatten).map FailRec.printed := by
    unfold scanFailures
    rw [scanFrom_toksOf cfg.color o.evs [] hce, oo.records]
    rfl
  refine ⟨o, ho, hf, ?_, hs, ?_⟩
  · intro hsep
    rw [hf, expectedRecords_in_process cfg plugins ts hsep]
  · rw [hs, List.map_map]
    have hm := oo.summaries
    have : (summariesOf o.evs).map ((fun p : PrintedSummary => (p.ok, p.tests, p.ran, p.checks, p.ignored, p.filtered, p.failures)) ∘
        (fun x : Result × Nat => x.1.printedSummary x.2)) =
        ((summariesOf o.evs).map Prod.fst).map (fun r => ((r.printedSummary 0).ok, (r.printedSummary 0).tests,
          (r.printedSummary 0).ran, (r.printedSummary 0).checks, (r.printedSummary 0).ignored,
          (r.printedSummary 0).filtered, (r.printedSummary 0).failures)) := by
      rw [List.map_map]
      apply List.map_congr_left
      intro x _
      rfl
    rw [this, hm, List.map_replicate]

/-- **summary_time_is_elapsed**: the time a summary shows is the last clock reading of its repetition
    minus the first one, as unsigned 64-bit subtraction — whatever the clock does. -/
theorem summary_time_is_elapsed (cfg : Cfg) (plugins : List Plugin) (ts : List Test) (s : LSt)
    (hres : s.res = {}) (hr : cfg.rethrow = false) (h0 : 0 ≤ s.depth) (h1 : s.depth + 2 ≤ Int.ofNat Gen.Runner.jmpBufLen) :
    ∃ a, registryRunAll cfg plugins ts s = .ok a ∧
      ∃ first last, (clocksOf a.evs).head? = some first ∧ (clocksOf a.evs).getLast? = some last ∧
        summariesOf a.evs = [(expectedCounts cfg plugins ts, elapsed last first)] := by
  obtain ⟨a, ha, oa⟩ := registryRunAll_closed cfg plugins ts s hres (fun t _ => quiet_of_rethrow_off hr t)
    (inBuf_of h0 h1).1 (inBuf_of h0 h1).2
  exact ⟨a, ha, oa.summary⟩

/-- the counts do not depend on the clock readings, the verbosity or the colour option -/
theorem counts_independent_of_output_options (cfg : Cfg) (plugins : List Plugin) (ts : List Test)
    (clock : List Nat) (v vv c : Bool) :
    expectedCounts { cfg with clock := clock, verbose := v, veryVerbose := vv, color := c } plugins ts
      = expectedCounts cfg plugins ts := rfl

/-! ## progress output (no `-v`) -/

/-- **progress_output**: without `-v`/`-vv` the plain strings of a repetition are one "." per test
    that runs and one "!" per ignored test, in order, with a line break after every 50th. -/
theorem progress_output (cfg : Cfg) (plugins : List Plugin) (ts : List Test) (s : LSt)
    (hv : cfg.anyVerbose = false) (hres : s.res = {}) (hr : cfg.rethrow = false)
    (h0 : 0 ≤ s.depth) (h1 : s.depth + 2 ≤ Int.ofNat Gen.Runner.jmpBufLen) :
    ∃ a, registryRunAll cfg plugins ts s = .ok a ∧
      plainToksOf a.evs = progressToks ((selected cfg ts).map (indicatorOf cfg)) s.out.dotCount ∧
      a.st.out.dotCount = 0 := by
  obtain ⟨a, ha, oa⟩ := registryRunAll_closed cfg plugins ts s hres (fun t _ => quiet_of_rethrow_off hr t)
    (inBuf_of h0 h1).1 (inBuf_of h0 h1).2
  exact ⟨a, ha, oa.plain hv, oa.dots⟩

/-- the progress line holds one indicator per test ... -/
theorem progress_indicators (inds : List String) (hi : ∀ i ∈ inds, i ≠ "\n") :
    ∀ d, (progressToks inds d).filter (· != "\n") = inds := by
  induction inds with
  | nil => intro d; simp [progressToks]
  | cons i rest ih =>
    intro d
    have h1 : i ≠ "\n" := hi i (by simp)
    have := ih (fun x hx => hi x (by simp [hx])) (d + 1)
    unfold progressToks
    split <;> simp [List.filter_cons, h1, this]

/-- ... and exactly one line break for every 50th of them (counting the `d` printed before) -/
theorem progress_line_breaks (inds : List String) (hi : ∀ i ∈ inds, i ≠ "\n") :
    ∀ d, ((progressToks inds d).filter (· == "\n")).length = (d + inds.length) / 50 - d / 50 := by
  induction inds with
  | nil => intro d; simp [progressToks]
  | cons i rest ih =>
    intro d
    have h1 : i ≠ "\n" := hi i (by simp)
    have := ih (fun x hx => hi x (by simp [hx])) (d + 1)
    unfold progressToks
    split
    · rename_i h50
      simp [List.filter_cons, h1, this]
      omega
    · rename_i h50
      simp [List.filter_cons, h1, this]
      omega

/-! ## TEST_EXIT, counting under a failing setup, the partition of the counts -/

/-- **exit_test_semantics**: `TEST_EXIT` (both terminators) ends its phase at once, is not a check,
    records no failure and does not set the failed flag; nothing after it runs. -/
theorem exit_test_semantics (cfg : Cfg) (t : Test) (ph : Phase) (d : Int) (res : Result) (hf : Bool)
    (pre post : List Stmt) (s : Stmt) (hs : s = .exitTest ∨ s = .exitTestC)
    (hpre : ∀ x ∈ pre, x.terminates cfg.exceptions = false) :
    let o := runStmts cfg t ph d res hf (pre ++ s :: post)
    marksIn o.evs = (marksOf pre).map (fun n => (ph, n)) ∧ o.exit ≠ .normal ∧
    failuresOf o.evs = [] ∧ o.res.failureCount = res.failureCount ∧
    o.res.checkCount = res.checkCount + checksOf pre ∧ o.hasFailed = hf := by
  have hterm : s.terminates cfg.exceptions = true := by rcases hs with rfl | rfl <;> rfl
  have hex := executed_append_terminator cfg.exceptions s post hterm pre hpre
  have hnf : ∀ x ∈ pre, Stmt.checkFailure cfg t x = none := by
    intro x hx
    have := hpre x hx
    cases x <;> simp [Stmt.terminates] at this <;> first | rfl | simp [Stmt.checkFailure, this]
  have hcf : checkFailures cfg t (pre ++ s :: post) = [] := by
    simp only [checkFailures, hex, List.filterMap_append, List.filterMap_eq_nil_iff]
    rw [List.append_eq_nil_iff]
    refine ⟨List.filterMap_eq_nil_iff.mpr hnf, ?_⟩
    rcases hs with rfl | rfl <;> simp [Stmt.checkFailure]
  obtain ⟨hm, hx⟩ := no_statement_after_terminator cfg t ph d res hf pre s post hpre hterm
  refine ⟨hm, hx, ?_, ?_, ?_, ?_⟩
  · rw [runStmts_failures, hcf]
  · rw [runStmts_res, hcf]; simp
  · rw [runStmts_res, hex]
    simp only [checksOf, List.map_append, List.sum_append]
    rcases hs with rfl | rfl <;> simp [Stmt.checkCount]
  · rw [runStmts_hasFailed, hcf]; simp

/-- **exit_in_setup_skips_body**: a `TEST_EXIT` in setup means setup did not complete: the body is not
    entered, teardown is; the test still counts as run. -/
theorem exit_in_setup_skips_body (cfg : Cfg) (plugins : List Plugin) (t : Test) (st : TSt)
    (pre post : List Stmt) (s : Stmt) (hs : s = .exitTest ∨ s = .exitTestC) (hsetup : t.setup = pre ++ s :: post)
    (hr : cfg.rethrow = false) (h0 : 0 ≤ st.depth) (h1 : st.depth + 2 ≤ Int.ofNat Gen.Runner.jmpBufLen) :
    ∃ j, runOneTest cfg plugins t st = .ok j ∧ entersOf j.evs = [.setup, .teardown] ∧
      j.st.res.runCount = st.res.runCount + 1 := by
  obtain ⟨j, hj, o⟩ := test_outcome cfg plugins t st hr h0 h1
  refine ⟨j, hj, ?_, ?_⟩
  · rw [o.enters, phasesRun]
    have : completes cfg.exceptions t.setup = false := by
      rw [hsetup]
      have hterm : s.terminates cfg.exceptions = true := by rcases hs with rfl | rfl <;> rfl
      simp [completes, hterm]
    simp [this]
  · rw [o.res]; simp [Result.bump, Result.countRun]

/-- **run_counted_whatever_happens**: a test that is selected and not ignored is counted as run exactly
    once — also when its setup fails, throws or exits; its checks are those of the statements that
    executed (setup up to its failure, no body, teardown). -/
theorem run_counted_whatever_happens (cfg : Cfg) (plugins : List Plugin) (t : Test) (st : TSt)
    (hr : cfg.rethrow = false) (h0 : 0 ≤ st.depth) (h1 : st.depth + 2 ≤ Int.ofNat Gen.Runner.jmpBufLen) :
    ∃ j, runOneTest cfg plugins t st = .ok j ∧
      j.st.res.runCount = st.res.runCount + 1 ∧
      j.st.res.ignoredCount = st.res.ignoredCount ∧ j.st.res.testCount = st.res.testCount ∧
      j.st.res.checkCount = st.res.checkCount + testChecks cfg t ∧
      (completes cfg.exceptions t.setup = false →
        testChecks cfg t = checksOf (executed cfg.exceptions t.setup) + checksOf (executed cfg.exceptions t.teardown)) := by
  obtain ⟨j, hj, o⟩ := test_outcome cfg plugins t st hr h0 h1
  refine ⟨j, hj, ?_, ?_, ?_, ?_, ?_⟩
  · rw [o.res]; simp [Result.bump, Result.countRun]
  · rw [o.res]; simp [Result.bump, Result.countRun]
  · rw [o.res]; simp [Result.bump, Result.countRun]
  · rw [o.res]; simp [Result.bump, Result.countRun]
  · intro hc; simp [testChecks, phasesRun, hc, stmtsOf]

/-- **counts_partition**: every registered test is counted exactly once as run, ignored or filtered out. -/
theorem counts_partition (cfg : Cfg) (plugins : List Plugin) (ts : List Test) :
    (expectedCounts cfg plugins ts).testCount =
      (expectedCounts cfg plugins ts).runCount + (expectedCounts cfg plugins ts).ignoredCount +
      (expectedCounts cfg plugins ts).filteredOutCount := by
  have h1 := selected_length_le cfg ts
  have h2 := running_length_le cfg ts
  simp only [expectedCounts]
  omega

/-! ## rethrow mode -/

/-- **rethrow_quiet_same**: rethrow mode changes nothing as long as no std / foreign exception leaves
    a test. -/
theorem rethrow_quiet_same (cfg : Cfg) (plugins : List Plugin) (ts : List Test) (n : Nat)
    (hq : ∀ t ∈ ts, QuietTest cfg t) :
    ∃ o, runAllTests cfg plugins ts n 0 = .ok o ∧ RunOutcome cfg plugins ts n 0 o :=
  runAllTests_closed cfg plugins ts n 0 hq inBuf_top.1 inBuf_top.2

/-- **rethrow_propagates**: in rethrow mode the first std / foreign exception that leaves a phase of a
    selected, running test is recorded once and then leaves `runAllTests` (the modelled outcome
    `Stop.propagated`): the phases after it, the post actions, the later tests, the summary and the
    return value never happen; the setjmp index stays one above its start and the current test is
    not restored (the process is expected to end). -/
theorem rethrow_propagates (cfg : Cfg) (plugins : List Plugin) (pre : List Test) (t : Test) (post : List Test)
    (ph : Phase) (k : ExcKind) (n : Nat)
    (hx : cfg.exceptions = true) (hr : cfg.rethrow = true) (hsep : cfg.separate = false) (hq : ∀ x ∈ pre, QuietTest cfg x)
    (hs : shouldRun cfg t = true) (hw : willRun cfg t = true) (hf : firstThrow cfg t = some (ph, k)) (hn : 0 < n) :
    ∃ p, runAllTests cfg plugins (pre ++ t :: post) n 0 = .error (.propagated p) ∧
      LeftOutcome cfg plugins pre t ph k 0 p :=
  runAllTests_propagates cfg plugins pre t post ph k n 0 hx hr hsep hq hs hw hf hn inBuf_top.1 inBuf_top.2

/-! ## the int cast with a real program -/

theorem expectedFailures_replicate (cfg : Cfg) (plugins : List Plugin) (t : Test)
    (hs : shouldRun cfg t = true) (hw : willRun cfg t = true) :
    ∀ N, (expectedFailures cfg plugins (List.replicate N t)).length = N * (testFailures cfg plugins t).length
  | 0 => by simp [expectedFailures, running, selected]
  | N + 1 => by
    have ih := expectedFailures_replicate cfg plugins t hs hw N
    simp only [expectedFailures] at ih ⊢
    rw [List.replicate_succ, running_cons]
    have : running cfg [t] = [t] := by simp [running, selected, hs, hw]
    rw [this, List.flatMap_append, List.length_append, ih]
    simp [Nat.succ_mul, Nat.add_comm]

/-- a test whose body fails one check -/
def failingTest : Test :=
  { group := "g", name := "n", file := "f.cpp", line := 1, ignored := false,
    setup := [], body := [.failCpp ⟨"f.cpp", 2⟩ "x"], teardown := [] }

def plainCfg (exc : Bool) : Cfg :=
  { exceptions := exc, rethrow := false, verbose := false, veryVerbose := false, color := false, runIgnored := false,
    groupFilters := [], nameFilters := [], stdExcMsg := "std", otherExcMsg := "other", clock := [] }

/-- **exit_value_wraps_program**: a program of exactly 2^32 failing tests makes the runner return 0
    although the repetition failed — in both build variants.  This is why `exit_zero_iff` carries
    the bound; it is the accepted limit of the `int` return type. -/
theorem exit_value_wraps_program (exc : Bool) :
    ∃ o, runAllTests (plainCfg exc) [] (List.replicate 4294967296 failingTest) 1 0 = .ok o ∧
      o.ret = 0 ∧ ¬ (∀ r ∈ o.reps, r.ok) := by
  obtain ⟨o, ho, oo⟩ := run_outcome_top (plainCfg exc) [] (List.replicate 4294967296 failingTest) 1 rfl
  have hlen : (expectedFailures (plainCfg exc) [] (List.replicate 4294967296 failingTest)).length = 4294967296 := by
    rw [expectedFailures_replicate (plainCfg exc) [] failingTest (by cases exc <;> decide) (by cases exc <;> decide)]
    have : (testFailures (plainCfg exc) [] failingTest).length = 1 := by cases exc <;> decide
    rw [this]
  have hfc : (expectedCounts (plainCfg exc) [] (List.replicate 4294967296 failingTest)).failureCount = 4294967296 := by
    rw [failureCount_in_process _ _ _ rfl]; exact hlen
  have hisf : (expectedCounts (plainCfg exc) [] (List.replicate 4294967296 failingTest)).isFailure = true := by
    rw [isFailure_iff]; intro hok; rw [Result.ok, hfc] at hok; exact absurd hok.1 (by decide)
  refine ⟨o, ho, ?_, ?_⟩
  · rw [oo.ret, hfc, hisf]; decide
  · rw [oo.reps]
    intro hall
    have := hall _ (List.mem_replicate.mpr ⟨by decide, rfl⟩)
    rw [Result.ok, hfc] at this
    exact absurd this.1 (by decide)

/-! ## non-vacuity: concrete programs -/

def exCfg (exc : Bool) : Cfg :=
  { exceptions := exc, rethrow := false, verbose := false, veryVerbose := false, color := false, runIgnored := false,
    groupFilters := [], nameFilters := [], stdExcMsg := "std", otherExcMsg := "other", clock := [] }

/-- setup fails a C++-style check after mark 1; body must not run; teardown throws after mark 4 -/
def exTest : Test :=
  { group := "g", name := "n", file := "f.cpp", line := 10, ignored := false,
    setup := [.mark 1, .failCpp ⟨"f.cpp", 12⟩ "boom", .mark 2],
    body := [.mark 3],
    teardown := [.mark 4, .throwStd, .mark 5] }

def exPlugin : Plugin := { name := "p", enabled := true, pre := [], post := [⟨none, ⟨"h.c", 7⟩, "leak"⟩] }

/-- with exceptions: marks 1 and 4 only, three failures (check, exception, plugin), depth back to 0,
    return value 3 -/
example :
    (runAllTests (exCfg true) [exPlugin] [exTest] 1 0).toOption.map
      (fun o => (marksIn o.evs, (failuresOf o.evs).map (fun r => (r.file, r.line)), o.depth, o.ret, o.reps.map (·.failureCount)))
    = some ([(.setup, 1), (.teardown, 4)], [("f.cpp", 12), ("f.cpp", 10), ("h.c", 7)], 0, 3, [3]) := by
  decide

/-- without exceptions the throw statement does not exist: teardown runs to its end -/
example :
    (runAllTests (exCfg false) [exPlugin] [exTest] 1 0).toOption.map
      (fun o => (marksIn o.evs, (failuresOf o.evs).length, o.depth, o.ret))
    = some ([(.setup, 1), (.teardown, 4), (.teardown, 5)], 2, 0, 2) := by
  decide

/-- 25 consecutive failing tests, two repetitions: no fault, depth 0 after every test -/
example :
    (runAllTests (exCfg true) [] (List.replicate 25 exTest) 2 0).toOption.map
      (fun o => (o.depth, (endedOf o.evs).all (fun e => e.1 == 0), o.ret, (endedOf o.evs).length))
    = some (0, true, 100, 50) := by
  decide

/-- the depth hypothesis is needed: started at index 9 of 10, the test's inner setjmp would use
    slot 10 — the model reports the fault instead of hiding it -/
example :
    (match runAllTests (exCfg true) [] [exTest] 1 9 with
     | .error (.fault (.jmpIndex 10)) => true
     | _ => false) = true := by decide

/-- a filter that selects nothing: "ran nothing", not OK, return value 1 -/
example :
    (runAllTests { exCfg true with nameFilters := [⟨"zz", false⟩] } [] [exTest] 1 0).toOption.map
      (fun o => (o.ret, o.reps.map (·.isFailure), o.reps.map (·.filteredOutCount)))
    = some (1, [true], [1]) := by
  decide

/-- very verbose, colour, a clock that runs 100, 107, 114, ...: the summary shows the elapsed time
    between the first and last reading of the repetition, wrapped in the colour escapes -/
example :
    (runAllTests { exCfg true with veryVerbose := true, color := true, clock := (List.range 40).map (fun i => 100 + 7 * i) }
        [] [exTest] 1 0).toOption.map
      (fun o => ((summariesOf o.evs).map (·.2), (toksOf true o.evs).filter (fun s => s == "\x1b[31;1m" || s == "\x1b[m"),
                 (plainToksOf o.evs).take 3))
    = some ([35], ["\x1b[31;1m", "\x1b[m"],
            ["TEST(g, n)", "\n-- before runAllPreTestAction: ", "\n-- after runAllPreTestAction: "]) := by
  decide

/-- rethrow mode: the exception thrown in teardown of the first test is recorded and leaves the run;
    the second test never starts, no summary, index one above its start, current test not restored -/
example :
    (match runAllTests { exCfg true with rethrow := true } [exPlugin] [exTest, exTest] 2 0 with
     | .error (.propagated p) =>
       (p.kind, p.depth, p.current, (failuresOf p.evs).map (·.line), marksIn p.evs, (summariesOf p.evs).length) ==
         (.std, 1, some "n", [12, 10], [(.setup, 1), (.teardown, 4)], 0)
     | _ => false) = true := by
  decide

/-- the reader finds the three records and the summary in the whole text of the first example run -/
example :
    ((runAllTests (exCfg true) [exPlugin] [exTest] 1 0).toOption.map
      (fun o => ((scanFailures (toksOf false o.evs)).map (fun p => (p.file, p.line)),
                 (scanSummaries (toksOf false o.evs)).map (fun p => (p.ok, p.failures.getD "-", p.tests, p.ran, p.checks))))
    == some ([("f.cpp", "12"), ("f.cpp", "10"), ("h.c", "7")], [(false, "3", "1", "1", "1")])) = true := by
  decide

/-- 51 passing tests, no `-v`: 51 dots and one line break after the 50th -/
example :
    let inds := List.replicate 51 "."
    (progressToks inds 0).length = 52 ∧ (progressToks inds 0)[50]? = some "\n" ∧ (progressToks inds 0)[51]? = some "." := by
  decide

/-- check kinds: a zero-length MEMCMP counts one and passes whatever the buffers hold, a passing
    CHECK_COMPARE counts none, a failing STRCMP_EQUAL counts one and ends the body: 2 checks, marks 1 2 -/
example :
    (runAllTests (exCfg true) []
      [{ exTest with setup := [], teardown := [],
                     body := [.check .memcmp0 false ⟨"f.cpp", 11⟩ "m", .mark 1, .check .compare true ⟨"f.cpp", 12⟩ "c", .mark 2,
                              .check .strcmp false ⟨"f.cpp", 13⟩ "s", .mark 3] }] 1 0).toOption.map
      (fun o => (marksIn o.evs, o.reps.map (·.checkCount), (failuresOf o.evs).map (·.line)))
    = some ([(.body, 1), (.body, 2)], [2], [13]) := by
  decide

/-- `-p`: a test whose ONLY failing event is reported by a plugin's post action in the child: the child
    prints it once, the parent adds "Failed in separate process", counts one failure, the run fails -/
example :
    ((runAllTests { exCfg true with separate := true } [exPlugin]
        [{ exTest with setup := [.mark 1], body := [.checkPass], teardown := [] }] 1 0).toOption.map
      (fun o => ((recordsOf o.evs).map (fun r => (r.file, r.line, r.msg)), o.reps.map (fun r => (r.failureCount, r.checkCount)),
                 o.ret, marksIn o.evs))
    == some ([("h.c", 7, "leak"), ("f.cpp", 10, "Failed in separate process")], [(1, 0)], 1, [(.setup, 1)])) = true := by
  decide

/-! ## the regenerated code of the runner (Gen/RunnerCode.lean) is the model the theorems above are about -/

/-- **runOneTest_is_the_source**: `UtestShell::runOneTest` around the interpreter of the REGENERATED statement
    lists of `runOneTestInCurrentProcess` and `Utest::run` (try blocks, statements, catch clauses, both
    build variants) is the hand-written `runOneTest` — for every program, plugin chain, state. -/
theorem runOneTestGen_eq (cfg : Cfg) (plugins : List Plugin) (t : Test) (st : TSt) :
    runOneTestGen cfg plugins t st = runOneTest cfg plugins t st := by
  unfold runOneTestGen runOneTest
  have h : runOneTestInCurrentProcessGen cfg plugins t = runOneTestInCurrentProcess cfg plugins t :=
    funext (runOneTestInCurrentProcessGen_eq cfg plugins t)
  rw [h]

/-- **regenerated_test_outcome**: the lifecycle / depth / failure theorems hold of the code as the source has
    it at check time: the interpreter of the regenerated statements never faults, restores the setjmp
    depth and the current test, and does exactly what the property demands of one test. -/
theorem regenerated_test_outcome (cfg : Cfg) (plugins : List Plugin) (t : Test) (st : TSt)
    (hr : cfg.rethrow = false) (h0 : 0 ≤ st.depth) (h1 : st.depth + 2 ≤ Int.ofNat Gen.Runner.jmpBufLen) :
    ∃ j, runOneTestGen cfg plugins t st = .ok j ∧ TestOutcome cfg plugins t st j ∧
      j.st.depth = st.depth ∧ j.st.current = st.current ∧ j.esc = none := by
  obtain ⟨j, hj, o⟩ := test_outcome cfg plugins t st hr h0 h1
  exact ⟨j, by rw [runOneTestGen_eq]; exact hj, o, o.depth, o.current, o.esc⟩

/-- every catch clause of both try blocks of `Utest::run` restores the jump buffer exactly once, and the
    two clauses for std / foreign exceptions record the failure before they may rethrow -/
theorem catch_clauses_restore_once :
    ∀ b ∈ Gen.Runner.utestRunExcCode, ∀ c ∈ b.catches,
      c.ops.count .restore = 1 ∧
      (c.pat ≠ .failed → c.ops.head? = some (.addFailure (c.pat == .std)) ∧ c.ops.getLast? = some .rethrowIfMode) := by
  decide

/-- handler selection: with the regenerated clauses a failed check's exception records nothing more, a
    std exception is reported with its type and text, anything else as unknown -/
theorem handler_selection :
    ∀ b ∈ Gen.Runner.utestRunExcCode,
      (findCatch b.catches .failed).map (·.ops) = some [.restore] ∧
      (findCatch b.catches .std).map (·.ops) = some [.addFailure true, .restore, .rethrowIfMode] ∧
      (findCatch b.catches .other).map (·.ops) = some [.addFailure false, .restore, .rethrowIfMode] := by
  decide

/-- the interpreter is sensitive to what it is given: the same code with the `RestoreJumpBuffer` call of
    the `CppUTestFailedException` clause removed leaves the depth one too high after a failing setup -/
example :
    let mutant : List Gen.Runner.TryBlock := Gen.Runner.utestRunExcCode.map (fun b =>
      { b with catches := b.catches.map (fun c => if c.pat = .failed then { c with ops := [] } else c) })
    ((execBlocks (exCfg true) exTest mutant ⟨⟨{}, false, 1, some "n"⟩, [], false⟩).toOption.map (·.st.depth),
     (utestRunGen (exCfg true) exTest ⟨{}, false, 1, some "n"⟩).toOption.map (·.st.depth)) = (some 2, some 1) := by
  decide

/-- the shapes of the loop-free shell functions the model mirrors: a failure is recorded BEFORE the test
    is left (`failWith`), recording sets the failed flag and then counts/prints (`addFailure`),
    `fail` counts the check first, `runOneTest` clears the flag and counts the run before it calls
    `PlatformSpecificSetJmp`, the crashing terminators (`-f`) crash before they would leave the test —
    so with `-f` the failure has been printed when the process dies -/
theorem shell_statement_orders :
    Gen.Runner.failWithCode = [.addFailure, .exitCurrentTest] ∧
    Gen.Runner.shellAddFailureCode = [.setFailed, .resultAddFailure] ∧
    Gen.Runner.failCode = [.countCheck, .failWith] ∧
    Gen.Runner.exitTestCode = [.exitCurrentTest] ∧
    Gen.Runner.runOneTestCode = [.clearFailed, .countRun, .mkInfo, .setJmpByMode] ∧
    Gen.Runner.terminatorWithoutExceptionsCode = [.longJmp] ∧
    Gen.Runner.crashingTerminatorCode = [.crash, .normalExit] ∧
    Gen.Runner.crashingTerminatorWithoutExceptionsCode = [.crash, .longJmpExit] := by
  decide

/-- **printFailure_is_the_source**: the strings `TestOutput::printFailure` hands to `print`, computed from
    the regenerated print sequences (location format, " Failure in ", message, one- and two-location
    layout, `isOutsideTestFile`, `isInHelperFunction`), are the model's `failureToks` in the eclipse
    environment (what the Gcc platform detects) and `failureToksVS` in the Visual Studio environment. -/
theorem printFailure_is_the_source (r : FailRec) :
    failureToksGen false r = failureToks r ∧ failureToksGen true r = failureToksVS r ∧
    envIsVisualStudio none = false ∧ envIsVisualStudio (some true) = true :=
  ⟨failureToksGen_eclipse r, failureToksGen_vs r, by decide, by decide⟩

/-- **record_read_back_vs**: in the Visual Studio environment too, whatever is printed before and after it,
    the strings of one failure record are read back as exactly that record with its own file and line. -/
theorem record_read_back_vs (r : FailRec) (hc : r.cleanVS) (before after : List String) :
    ∃ w, scanFromVS before (failureToksGen true r ++ after) = r.printed :: scanFromVS w after ∧
      r.printed.file = r.file ∧ r.printed.line = toString r.line ∧ r.printed.testName = r.testName ∧
      r.printed.msg = r.msg := by
  rw [failureToksGen_vs]
  exact ⟨_, scanFromVS_failureToksVS r hc before after, rfl, rfl, rfl, rfl⟩

/-- the two formats differ in the two separator strings only: same length, same file / line / name / message -/
theorem formats_differ_in_separators_only (r : FailRec) :
    (failureToksVS r).length = (failureToks r).length ∧
    (failureToksVS r).filter (fun s => s != "(" && s != "):" && s != ":") =
      (failureToks r).filter (fun s => s != "(" && s != "):" && s != ":") := by
  unfold failureToksVS failureToks
  cases r.twoLocations <;> simp [locToksVS, locToks, List.filter_cons]

/-- a failure outside the test's file, Visual Studio format -/
example :
    failureToksGen true ⟨"TEST(g, n)", "t.cpp", 10, "h.c", 7, "boom"⟩ =
      ["\n", "t.cpp", "(", "10", "):", " error:", " Failure in ", "TEST(g, n)", "\n", "h.c", "(", "7", "):", " error:",
       "\n", "\t", "boom", "\n\n"] ∧
    scanFailuresVS (failureToksGen true ⟨"TEST(g, n)", "t.cpp", 10, "h.c", 7, "boom"⟩) =
      [⟨"h.c", "7", "TEST(g, n)", "boom", some ("t.cpp", "10")⟩] := by
  decide

/-- **composite_forwards_once_to_each**: every callback `CompositeTestOutput` forwards reaches output one and
    then output two, each exactly once (`-ojunit -v`: the JUnit writer and the console) — in particular
    `printFailure`: each failure once per attached output. -/
theorem composite_forwards_once_to_each :
    (∀ e ∈ Gen.Runner.compositeReceivers, e.2 = [.one, .two]) ∧
    (Gen.Runner.compositeReceivers.map (·.1)).contains "printFailure" = true ∧
    (Gen.Runner.compositeReceivers.map (·.1)).contains "printTestsEnded" = true := by
  decide

/-- **printed_text_survives_process_end**: `ConsoleTestOutput::printBuffer` (regenerated statement list: write,
    then flush) leaves nothing in the stdio buffer, so whatever a process has printed is on the file
    descriptor even if the process then ends with `_exit` — as every child of `-p` does — or is killed by a
    later test: a failure that was printed stays printed. -/
theorem printed_text_survives_process_end (xs : List String) :
    (consolePrintAll {} xs).afterExit = xs ∧ (consolePrintAll {} xs).pending = [] := by
  have := printed_text_survives_exit {} rfl xs
  simpa using this

/-- the same for a child forked with an empty buffer that prints the text of a test's events -/
theorem child_failures_reach_the_console (parent : Stream) (hp : parent.pending = []) (c : Bool) (evs : List Ev) :
    (consolePrintAll parent (toksOf c evs)).afterExit = parent.visible ++ toksOf c evs :=
  (printed_text_survives_exit parent hp _).1

/-- why every print must flush: through a `printBuffer` that only writes, a process that `_exit`s shows nothing -/
theorem flush_is_needed (xs : List String) :
    (xs.foldl (fun s x => execPrintBuffer Gen.Runner.consoleFlushCode x [.fputs] s) ({} : Stream)).afterExit = [] :=
  (unflushed_text_is_lost xs).1

example : (consolePrintAll {} ["a", "b"]).afterExit = ["a", "b"] ∧
    (["a", "b"].foldl (fun s x => execPrintBuffer Gen.Runner.consoleFlushCode x [.fputs] s) ({} : Stream)).afterExit = [] := by
  decide

/-- **console_reader_full_vs**: in the Visual Studio working environment, reading the WHOLE console text of a run
    yields exactly the failing events of every repetition, in order, each once, with its own file and line
    (`file(line): error:` form); in the eclipse environment the text is the one `console_reader_full` reads. -/
theorem console_reader_full_vs (cfg : Cfg) (plugins : List Plugin) (ts : List Test) (n : Nat)
    (hr : cfg.rethrow = false) (hclean : ∀ r ∈ expectedRecords cfg plugins ts, r.cleanVS) :
    ∃ o, runAllTests cfg plugins ts n 0 = .ok o ∧
      scanFailuresVS (toksOfEnv true cfg.color o.evs) =
        ((List.replicate n (expectedRecords cfg plugins ts)).flatten).map FailRec.printed ∧
      toksOfEnv false cfg.color o.evs = toksOf cfg.color o.evs := by
  obtain ⟨o, ho, oo⟩ := run_outcome_top cfg plugins ts n hr
  have hce : CleanEvsVS o.evs := by
    refine ⟨oo.safe, ?_⟩
    rw [oo.records]
    intro r hrm
    simp only [flattenRep, List.mem_flatten, List.mem_replicate] at hrm
    obtain ⟨l, ⟨_, rfl⟩, hrl⟩ := hrm
    exact hclean r hrl
  refine ⟨o, ho, ?_, toksOfEnv_eclipse cfg.color o.evs⟩
  unfold scanFailuresVS
  rw [scanFromVS_toksOfEnv cfg.color o.evs [] hce, oo.records]
  rfl

/-- **composite_each_output_gets_every_callback**: whatever sequence of (forwarded) callbacks the runner makes on a
    `CompositeTestOutput`, each of its two outputs receives exactly that sequence, in order — in particular
    every `printFailure` once per attached output and every `printTestsEnded` once. -/
theorem composite_each_output_gets_every_callback {α} (who : Gen.Runner.Receiver) (calls : List (String × α))
    (hk : ∀ c ∈ calls, c.1 ∈ ["printTestsStarted", "printTestsEnded", "printCurrentTestStarted", "printCurrentTestEnded",
      "printCurrentGroupStarted", "printCurrentGroupEnded", "verbose", "color", "printBuffer", "print", "printDouble",
      "printFailure", "setProgressIndicator", "printVeryVerbose", "flush"]) :
    receivedBy who (compositeForward calls) = calls :=
  receivedBy_forward who calls (fun c hc => receiversOf_known c.1 (hk c hc))

/-- three failures and a summary through the composite: each output sees the four callbacks once, in order -/
example :
    let calls : List (String × Nat) := [("printFailure", 1), ("printFailure", 2), ("printTestsEnded", 0), ("printFailure", 3)]
    receivedBy .one (compositeForward calls) = calls ∧ receivedBy .two (compositeForward calls) = calls ∧
    (compositeForward calls).length = 8 := by
  decide

/-! ## several runner invocations in one process

The static `UtestShell::rethrowExceptions_` outlives a `CommandLineTestRunner`. `initializeTestRun` (its statements that
write the static are regenerated from the source) ASSIGNS the option of the current command line to it, so every
invocation of a sequence behaves as if it were the only one of the process: all theorems above hold for it with the
options of ITS OWN command line, whatever the earlier invocations' options were. -/

/-- the regenerated statements leave the option's value in the static, whatever it held before -/
theorem rethrow_flag_is_the_option :
    ∀ (opt flag : Bool), execRethrowInits opt Gen.Runner.initializeTestRunRethrowCode flag = opt := by
  decide

/-- **initializeTestRun_is_the_source**: `initializeTestRun` as regenerated from the source is the unconditional
    assignment of the hand-written model -/
theorem initializeTestRun_is_the_source (opt : Bool) (pr : Process) :
    initializeTestRunGen opt pr = initializeTestRun opt pr := by
  unfold initializeTestRunGen initializeTestRun
  rw [rethrow_flag_is_the_option]

/-- the tests of an invocation see the option of its own command line -/
theorem effectiveCfg_initialized (pr : Process) (i : Invocation) :
    effectiveCfg (initializeTestRun i.cfg.rethrow pr) i = i.cfg := rfl

theorem runnerInvoke_ok (pr : Process) (i : Invocation) (o : RunOut)
    (h : runAllTests i.cfg i.plugins i.tests i.repeatCount pr.depth = .ok o) :
    runnerInvoke pr i = ({ initializeTestRun i.cfg.rethrow pr with depth := o.depth }, .ok o) := by
  unfold runnerInvoke
  rw [effectiveCfg_initialized, h]

/-- **invocation_as_if_alone**: in ANY process state (whatever the earlier runners left in the static flag) an
    invocation yields what `runAllTests` yields for its own command line -/
theorem invocation_as_if_alone (pr : Process) (i : Invocation) :
    (runnerInvoke pr i).2 = runAllTests i.cfg i.plugins i.tests i.repeatCount pr.depth := by
  unfold runnerInvoke
  rw [effectiveCfg_initialized]
  cases h : runAllTests i.cfg i.plugins i.tests i.repeatCount pr.depth <;> rfl

/-- **with_e_after_any_history**: a runner started with `-e` in a process in which earlier runners ran with whatever
    options (any value of the static flag) returns, and its observable result is the declarative one: lifecycle,
    records, summaries, return value (all consequences of `RunOutcome` above apply) -/
theorem with_e_after_any_history (pr : Process) (hd : pr.depth = 0) (i : Invocation) (he : i.cfg.rethrow = false) :
    ∃ o, (runnerInvoke pr i).2 = .ok o ∧ RunOutcome i.cfg i.plugins i.tests i.repeatCount 0 o := by
  rw [invocation_as_if_alone, hd]
  exact run_outcome_top i.cfg i.plugins i.tests i.repeatCount he

/-- **sequence_every_invocation_alone**: a sequence of invocations in one process (each quiet: `-e`, or no std / foreign
    exception leaves a test) is the list of the single runs -/
theorem sequence_every_invocation_alone :
    ∀ (invs : List Invocation) (pr : Process), pr.depth = 0 → (∀ i ∈ invs, ∀ t ∈ i.tests, QuietTest i.cfg t) →
      runSequence pr invs = invs.map (fun i => runAllTests i.cfg i.plugins i.tests i.repeatCount 0)
  | [], _, _, _ => rfl
  | i :: rest, pr, hd, hq => by
    obtain ⟨o, ho, oo⟩ := rethrow_quiet_same i.cfg i.plugins i.tests i.repeatCount (hq i (List.mem_cons_self ..))
    have hinv := runnerInvoke_ok pr i o (by rw [hd]; exact ho)
    have hrest := sequence_every_invocation_alone rest { initializeTestRun i.cfg.rethrow pr with depth := o.depth } oo.depth
      (fun j hj => hq j (List.mem_cons_of_mem _ hj))
    simp only [runSequence, hinv, List.map_cons, hrest, ho]

/-- **sequence_invocation_outcome**: every invocation of such a sequence returns, with the declarative outcome of ITS
    OWN command line — whatever the options of the invocations before it were -/
theorem sequence_invocation_outcome (invs : List Invocation) (pr : Process) (hd : pr.depth = 0)
    (hq : ∀ i ∈ invs, ∀ t ∈ i.tests, QuietTest i.cfg t) (k : Nat) (hk : k < invs.length) :
    ∃ o, (runSequence pr invs)[k]? = some (.ok o) ∧
      RunOutcome invs[k].cfg invs[k].plugins invs[k].tests invs[k].repeatCount 0 o := by
  obtain ⟨o, ho, oo⟩ := rethrow_quiet_same invs[k].cfg invs[k].plugins invs[k].tests invs[k].repeatCount
    (hq invs[k] (List.getElem_mem hk))
  refine ⟨o, ?_, oo⟩
  rw [sequence_every_invocation_alone invs pr hd hq, List.getElem?_map, List.getElem?_eq_getElem hk, Option.map_some, ho]

/-- a passing test: the runner without `-e` that precedes the one with `-e` -/
def exQuietTest : Test :=
  { group := "w", name := "warmup", file := "f.cpp", line := 3, ignored := false, setup := [], body := [.checkPass], teardown := [] }

/-- runner 1 WITHOUT `-e` (switches the static on), runner 2 WITH `-e` and a test whose teardown lets a std exception
    out: runner 2 records check, exception and plugin error once each, runs mark 4, returns 3, depth 0 -/
example :
    (runSequence {} [⟨{ exCfg true with rethrow := true }, [], [exQuietTest], 1⟩, ⟨exCfg true, [exPlugin], [exTest], 1⟩]).map
      (fun r => r.toOption.map (fun o => (marksIn o.evs, (failuresOf o.evs).map (·.line), o.depth, o.ret)))
    = [some ([], [], 0, 0), some ([(.setup, 1), (.teardown, 4)], [12, 10, 7], 0, 3)] ∧
    (runnerInvoke {} ⟨{ exCfg true with rethrow := true }, [], [exQuietTest], 1⟩).1.rethrowExceptions = true := by
  decide

/-- the hypothesis on the regenerated code is needed: `if (option) setRethrowExceptions(true);` leaves the static on -/
example :
    execRethrowInits false [⟨.ifOption, .lit true⟩] true = true ∧
    execRethrowInits false Gen.Runner.initializeTestRunRethrowCode true = false := by
  decide

end Runner
