import CppUModel.Props.C01
import CppUModel.Props.C17
import CppUModel.Model.LeakPlugin
/-!
# C17x — the order of plugin actions around a test in the runner model is the one C17 proves

Composition theorems.  They connect

* `Model/Plugins.lean` (C17): the chain `firstPlugin_ → next_ → …` as a `List Plugin` with
  `runAllPre` (own action, then `next_`) and `runAllPost` (`next_` first, then own action) returning the NAMES of the
  plugins whose action ran, and C17's `pre_order_is_chain_order`, `post_order_is_reverse_of_pre`, with
* `Model/Runner.lean` (C01): `runAllPre` / `runAllPost` inside `runOneTestInCurrentProcess`, which thread the
  `TestResult` through the chain and emit `Ev.plug name post depth` around the `Ev.enter phase` events of `Utest::run`,
  and with
* `Gen/LeakPluginCode.lean` (C07): `runOneTestOrder`, the regenerated call order of
  `UtestShell::runOneTestInCurrentProcess` that the C07 model interprets.

`lifeOf evs` projects an event list to its lifecycle tags (pre action of plugin `n`, phase entered, post action of
plugin `n`).  For every test, chain, build variant and start state, the lifecycle of one `runOneTest` is: all pre
actions in chain order (= `Plugins.runAllPre`), then setup / body (iff setup completed) / teardown, then all post
actions in exactly the reverse order (= `Plugins.runAllPost`).
-/
namespace Compose.C17x
open Runner

/-- the runner model's chain as a C17 chain (position in the chain as identity; the runner model's plugins only record) -/
def toChainFrom : Nat → List Runner.Plugin → Plugins.Chain
  | _, [] => []
  | i, p :: rest => { id := i, name := p.name, enabled := p.enabled, kind := .recording } :: toChainFrom (i + 1) rest

def toChain (ps : List Runner.Plugin) : Plugins.Chain := toChainFrom 0 ps

inductive Tag
  | pre (name : String)
  | phase (ph : Phase)
  | post (name : String)
deriving DecidableEq, Repr

def Ev.tag? : Ev → Option Tag
  | .plug n false _ => some (.pre n)
  | .plug n true _ => some (.post n)
  | .enter ph _ => some (.phase ph)
  | _ => none

/-- lifecycle of an event list: plugin actions and phase entries, in order -/
def lifeOf (evs : List Ev) : List Tag := evs.filterMap Ev.tag?

@[simp] theorem lifeOf_nil : lifeOf [] = [] := rfl
@[simp] theorem lifeOf_append (a b : List Ev) : lifeOf (a ++ b) = lifeOf a ++ lifeOf b := by
  simp [lifeOf, List.filterMap_append]
@[simp] theorem lifeOf_cons (e : Ev) (l : List Ev) : lifeOf (e :: l) = (Ev.tag? e).toList ++ lifeOf l := by
  cases h : Ev.tag? e <;> simp [lifeOf, List.filterMap_cons, h]

theorem lifeOf_failures (l : List FailRec) : lifeOf (l.map Ev.failure) = [] := by
  induction l with
  | nil => rfl
  | cons a l ih => simp [Ev.tag?, ih]

@[simp] theorem lifeOf_vv (cfg : Cfg) (s : String) : lifeOf (vv cfg s) = [] := by
  unfold vv; split <;> simp [Ev.tag?]
@[simp] theorem lifeOf_vvU (cfg : Cfg) (s : String) : lifeOf (vvU cfg s) = [] := by
  unfold vvU; split <;> simp [Ev.tag?]
@[simp] theorem lifeOf_vvTail (cfg : Cfg) (ph : Phase) (e : Exit) : lifeOf (vvTail cfg ph e) = [] := by
  unfold vvTail; split <;> simp

/-! ## the phases emit no plugin action -/

theorem lifeOf_runStmts (cfg : Cfg) (t : Test) (ph : Phase) (d : Int) :
    ∀ (p : List Stmt) (res : Result) (hf : Bool), lifeOf (runStmts cfg t ph d res hf p).evs = []
  | [], res, hf => by simp [runStmts]
  | s :: rest, res, hf => by
    have ih := lifeOf_runStmts cfg t ph d rest
    cases hexc : cfg.exceptions <;>
    cases s <;> simp [runStmts, PhaseOut.cons, Ev.tag?, ih, hexc] <;>
    (split <;> simp [Ev.tag?, ih])      -- the `check` statement (one real check of a given kind): fails or goes on

theorem lifeOf_phaseStep (cfg : Cfg) (t : Test) (ph : Phase) (st : TSt) :
    lifeOf (phaseStep cfg t ph st).evs = [.phase ph] := by
  simp only [phaseStep, phaseEvs, phaseOut, lifeOf_append, lifeOf_cons, lifeOf_runStmts, lifeOf_failures, lifeOf_vvU,
    lifeOf_vvTail]
  simp [Ev.tag?]

theorem lifeOf_utestClosed (cfg : Cfg) (t : Test) (st : TSt) :
    lifeOf (utestClosed cfg t st).evs = (phasesRun cfg t).map Tag.phase := by
  simp only [utestClosed, afterBody, phasesRun, setup_normal_iff]
  cases completes cfg.exceptions t.setup <;> simp [lifeOf_phaseStep]

/-! ## the chain -/

theorem lifeOf_reportErrs (cfg : Cfg) (t : Test) (errs : List PErr) (st : TSt) :
    lifeOf (reportErrs cfg t errs st).evs = [] := by
  rw [(reportErrs_spec cfg t errs st).2]; exact lifeOf_failures _

/-- **Pre actions.**  Connects `Runner.runAllPre` (C01) with `Plugins.runAllPre` (C17): the plugins whose pre action
    runs, in the order in which it runs, whatever the pre actions report. -/
theorem pre_actions_agree (cfg : Cfg) (t : Test) : ∀ (ps : List Runner.Plugin) (st : TSt) (i : Nat),
    lifeOf (Runner.runAllPre cfg t ps st).evs = (Plugins.runAllPre (toChainFrom i ps)).map Tag.pre
  | [], _, _ => rfl
  | p :: rest, st, i => by
    unfold Runner.runAllPre toChainFrom Plugins.runAllPre
    cases h : p.enabled with
    | false => simpa [h] using pre_actions_agree cfg t rest st (i + 1)
    | true =>
      simp only [if_true, lifeOf_cons, lifeOf_append, lifeOf_reportErrs, Ev.tag?, Option.toList_some, List.nil_append,
        List.map_append, List.map_cons, List.map_nil]
      rw [pre_actions_agree cfg t rest _ (i + 1)]
      rfl

/-- **Post actions.**  Connects `Runner.runAllPost` with `Plugins.runAllPost`. -/
theorem post_actions_agree (cfg : Cfg) (t : Test) : ∀ (ps : List Runner.Plugin) (st : TSt) (i : Nat),
    lifeOf (Runner.runAllPost cfg t ps st).evs = (Plugins.runAllPost (toChainFrom i ps)).map Tag.post
  | [], _, _ => rfl
  | p :: rest, st, i => by
    unfold Runner.runAllPost toChainFrom Plugins.runAllPost
    cases h : p.enabled with
    | false => simpa [h] using post_actions_agree cfg t rest st (i + 1)
    | true =>
      simp only [if_true, lifeOf_cons, lifeOf_append, lifeOf_reportErrs, Ev.tag?, Option.toList_some, List.append_nil,
        List.map_append, List.map_cons, List.map_nil]
      rw [post_actions_agree cfg t rest st (i + 1)]

/-- **The life cycle of one test.**  Connects `Runner.runOneTest` (C01) with the chain order of C17: pre actions in
    chain order, then the phases `Utest::run` enters, then the post actions — for every test, chain, start state
    inside the jump-buffer array, with and without exception support. -/
theorem test_lifecycle (cfg : Cfg) (plugins : List Runner.Plugin) (t : Test) (st : TSt)
    (hr : cfg.rethrow = false) (h0 : 0 ≤ st.depth) (h1 : st.depth + 2 ≤ Int.ofNat Gen.Runner.jmpBufLen) :
    ∃ j, runOneTest cfg plugins t st = .ok j ∧
      lifeOf j.evs = (Plugins.runAllPre (toChain plugins)).map Tag.pre ++ (phasesRun cfg t).map Tag.phase ++
        (Plugins.runAllPost (toChain plugins)).map Tag.post := by
  have hb := inBuf_of h0 h1
  unfold runOneTest setJmp
  simp only [hb.1, Bool.not_true, Bool.false_eq_true, if_false, runOneTestInCurrentProcess]
  rw [utestRun_closed cfg t _ (quiet_of_rethrow_off hr t) (by simpa using hb.2)]
  simp only [setJmpAfter, afterRun, beforeRun]
  refine ⟨_, rfl, ?_⟩
  simp only [lifeOf_append, lifeOf_utestClosed, lifeOf_vv, List.nil_append, List.append_nil]
  rw [pre_actions_agree cfg t plugins _ 0, post_actions_agree cfg t plugins _ 0]
  rfl

/-- … and therefore (C17's `post_order_is_reverse_of_pre`, `pre_order_is_chain_order`): in the runner model the post
    actions run in exactly the reverse order of the pre actions, the pre actions in chain order over the enabled
    plugins, and a disabled plugin sees neither. -/
theorem test_lifecycle_ordered (cfg : Cfg) (plugins : List Runner.Plugin) (t : Test) (st : TSt)
    (hr : cfg.rethrow = false) (h0 : 0 ≤ st.depth) (h1 : st.depth + 2 ≤ Int.ofNat Gen.Runner.jmpBufLen) :
    ∃ j, runOneTest cfg plugins t st = .ok j ∧
      lifeOf j.evs = ((plugins.filter (·.enabled)).map (fun p => Tag.pre p.name)) ++ (phasesRun cfg t).map Tag.phase ++
        ((plugins.filter (·.enabled)).map (fun p => Tag.post p.name)).reverse := by
  obtain ⟨j, hj, hl⟩ := test_lifecycle cfg plugins t st hr h0 h1
  refine ⟨j, hj, ?_⟩
  rw [hl, Plugins.post_order_is_reverse_of_pre, Plugins.pre_order_is_chain_order]
  have key : ∀ (ps : List Runner.Plugin) (i : Nat),
      ((toChainFrom i ps).filter (·.enabled)).map (·.name) = (ps.filter (·.enabled)).map (·.name) := by
    intro ps
    induction ps with
    | nil => intro i; rfl
    | cons p rest ih =>
      intro i
      unfold toChainFrom
      cases h : p.enabled <;> simp [h, ih (i + 1)]
  unfold toChain
  rw [key plugins 0]
  simp [List.map_reverse, List.map_map, Function.comp_def]

/-! ## the regenerated call order of `runOneTestInCurrentProcess` (C07) -/

/-- what each call of `UtestShell::runOneTestInCurrentProcess` contributes to the life cycle -/
def segment (cfg : Cfg) (plugins : List Runner.Plugin) (t : Test) : LeakPlugin.RStep → List Tag
  | .preActions => (Plugins.runAllPre (toChain plugins)).map Tag.pre
  | .createTest => []
  | .runTest => (phasesRun cfg t).map Tag.phase
  | .destroyTest => []
  | .postActions => (Plugins.runAllPost (toChain plugins)).map Tag.post

/-- **The C07 model's call order is the runner model's.**  Connects `Gen.LeakCode.runOneTestOrder` (regenerated from
    `Utest.cpp`, interpreted by `LeakPlugin.runOneTest`) with `Runner.runOneTest`: laying out the segments in the
    regenerated order gives exactly the life cycle of the runner model. -/
theorem leak_model_order_is_runner_order (cfg : Cfg) (plugins : List Runner.Plugin) (t : Test) (st : TSt)
    (hr : cfg.rethrow = false) (h0 : 0 ≤ st.depth) (h1 : st.depth + 2 ≤ Int.ofNat Gen.Runner.jmpBufLen) :
    ∃ j, runOneTest cfg plugins t st = .ok j ∧
      lifeOf j.evs = Gen.LeakCode.runOneTestOrder.flatMap (segment cfg plugins t) := by
  obtain ⟨j, hj, hl⟩ := test_lifecycle cfg plugins t st hr h0 h1
  refine ⟨j, hj, ?_⟩
  rw [hl]
  simp [Gen.LeakCode.runOneTestOrder, segment]

/-! ## non-vacuity -/

def exPlugins : List Runner.Plugin :=
  [ { name := "a", enabled := true, pre := [], post := [⟨none, ⟨"h.c", 7⟩, "leak"⟩] },
    { name := "off", enabled := false, pre := [⟨none, ⟨"x.c", 1⟩, "never"⟩], post := [] },
    { name := "b", enabled := true, pre := [⟨none, ⟨"p.c", 2⟩, "pre"⟩], post := [] } ]

def exT : Test :=
  { group := "G", name := "t", file := "t.cpp", line := 10, ignored := false,
    setup := [.mark 1], body := [.failCpp ⟨"t.cpp", 12⟩ "boom", .mark 2], teardown := [.mark 3] }

def exCfg : Cfg :=
  { exceptions := true, rethrow := false, verbose := false, veryVerbose := true, color := false, runIgnored := false,
    groupFilters := [], nameFilters := [], stdExcMsg := "std", otherExcMsg := "other", clock := [] }

/-- the life-cycle theorem applied to a concrete chain (one plugin disabled), with the `-vv` trace switched on -/
example : ∃ j, runOneTest exCfg exPlugins exT ⟨{}, false, 0, none⟩ = .ok j ∧
    lifeOf j.evs = [.pre "a", .pre "b", .phase .setup, .phase .body, .phase .teardown, .post "b", .post "a"] := by
  obtain ⟨j, hj, hl⟩ := test_lifecycle_ordered exCfg exPlugins exT ⟨{}, false, 0, none⟩ rfl (by decide) (by decide)
  refine ⟨j, hj, ?_⟩
  rw [hl]
  decide

example : Plugins.runAllPre (toChain exPlugins) = ["a", "b"] ∧ Plugins.runAllPost (toChain exPlugins) = ["b", "a"] := by
  decide

end Compose.C17x
