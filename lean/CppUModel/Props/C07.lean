import CppUModel.Proofs.LeakPluginChain
/-!
# C07 — per-test leak verdict: leaking tests fail, clean ones pass, blame is correct

Property theorems only.  Model: `CppUModel/Model/LeakPlugin.lean`, an interpreter of the
statement lists regenerated from `MemoryLeakWarningPlugin.cpp`, `MemoryLeakDetector.cpp` and
`Utest.cpp` into `CppUModel/Gen/LeakPluginCode.lean`.  Vocabulary: `CppUModel/Spec/LeakPlugin.lean`
— `Hist.blocksOf live t` (blocks allocated between the test's start and end and still
outstanding), `Hist.ownFailures`, `Hist.ignores`, `Hist.expected`, `Hist.shouldFail` are defined
on the history alone (sets of block ids, no detector, no periods).

`Clean w` is the state between two tests; the constructor establishes it (`init_is_clean`) and
every test re-establishes it (`clean_after_every_test`), so the per-test theorems hold for every
test of every sequence (`…_in_sequence`, any number of tests before and after).

Not carried by these theorems (observed by the harness only): the byte-level text of the report.
A report with more entries than fit into the 4096-byte buffer is cut after the last entry that
fits ("etc etc etc …") and still states the true total; in the model a report is the list of
its entries plus the stated total, which is computed by the same counter as in the code
(independent of how many entries fit).
-/
namespace LeakPlugin
open Hist

/-! ## the states the theorems quantify over are the reachable ones -/

theorem init_is_clean (overloads : Bool) : Clean (World.init overloads) := init_clean overloads

theorem clean_after_every_test (w : World) (hc : Clean w) (ts : List Test) : Clean (runTests w ts).1 :=
  clean_runTests hc ts

/-- the model's table and the history agree on which blocks are outstanding after any sequence -/
theorem live_blocks_follow_history (w : World) (hc : Clean w) (ts : List Test) :
    (runTests w ts).1.liveIds = liveAfter w.liveIds ts := liveIds_runTests hc ts

/-! ## leak_failure_iff -/

/-- A test gets a leak failure exactly when it passed its own checks, did not ask to ignore
    leaks, and the number of blocks allocated between its start and its end and still outstanding
    differs from the number it declared (default zero). -/
theorem leak_failure_iff (w : World) (hc : Clean w) (hov : w.overloads = true) (t : Test) :
    (runTest w t).leakFail.isSome = true ↔
      (ownFailures w.liveIds t = 0 ∧ ignores w.liveIds t = false ∧
        (blocksOf w.liveIds t).length ≠ expected w.liveIds t) := by
  rw [leakFail_runTest hc t, hov]
  simp only [Bool.true_and]
  by_cases h : shouldFail w.liveIds t = true
  · simp only [h, if_true, Option.isSome_some, true_iff]
    simpa [shouldFail, and_assoc] using h
  · simp only [h]
    simp only [Bool.false_eq_true, if_false, Option.isSome_none, false_iff]
    intro h'
    apply h
    simpa [shouldFail, and_assoc] using h'

/-- The same for the test at any position of any sequence: the blocks outstanding before it are
    those the history of the earlier tests leaves (`liveAfter`). -/
theorem leak_failure_iff_in_sequence (w0 : World) (hc : Clean w0) (hov : w0.overloads = true)
    (pre : List Test) (t : Test) (post : List Test) :
    ∃ v, (runTests w0 (pre ++ t :: post)).2[pre.length]? = some v ∧
      (v.leakFail.isSome = true ↔ shouldFail (liveAfter w0.liveIds pre) t = true) := by
  refine ⟨_, verdict_at w0 pre t post, ?_⟩
  have hc' := clean_runTests hc pre
  have hov' : (runTests w0 pre).1.overloads = true := by rw [overloads_runTests]; exact hov
  show (runTest (runTests w0 pre).1 t).leakFail.isSome = true ↔ _
  rw [leak_failure_iff _ hc' hov', liveIds_runTests hc pre]
  simp [shouldFail, and_assoc]

/-- All verdicts of a whole run at once: for every sequence of tests the list of "got a leak
    failure" flags is the list the property statement prescribes on the history. -/
theorem all_verdicts_follow_history (w0 : World) (hc : Clean w0) (hov : w0.overloads = true) (ts : List Test) :
    (runTests w0 ts).2.map (fun v => v.leakFail.isSome) = verdicts w0.liveIds ts := by
  induction ts generalizing w0 with
  | nil => rfl
  | cons t ts ih =>
    simp only [runTests, List.map_cons, verdicts]
    rw [ih (runTest w0 t) (clean_runTest hc t) (by rw [overloads_runTest]; exact hov), liveIds_runTest hc t]
    congr 1
    simp only [verdictOf]
    rw [leakFail_runTest hc t, hov]
    cases shouldFail w0.liveIds t <;> rfl

/-- With the overloads off the plugin never adds a failure. -/
theorem no_leak_failure_without_overloads (w : World) (hc : Clean w) (hov : w.overloads = false) (t : Test) :
    (runTest w t).leakFail = none := by
  rw [leakFail_runTest hc t, hov]; rfl

/-! ## report_lists_exactly -/

/-- The leak failure's report lists exactly the blocks of this test that are still outstanding
    (same ids, each once) and states their number. -/
theorem report_lists_exactly (w : World) (hc : Clean w) (t : Test) (r : LeakReport)
    (h : (runTest w t).leakFail = some r) :
    r.entries.map (·.id) = blocksOf w.liveIds t ∧ (r.entries.map (·.id)).Nodup ∧
      r.total = (blocksOf w.liveIds t).length ∧ r.entries.length = r.total := by
  rw [leakFail_runTest hc t] at h
  split at h
  · cases h
    have hs := sim_atTeardownEnd hc t
    have hm : ((atTeardownEnd w t).det.recs.filter (fun r => r.period == .checking)).map (·.id) = blocksOf w.liveIds t := hs.chk
    refine ⟨hm, ?_, rfl, ?_⟩
    · rw [hm]; exact (blocksOf_nodup_sub w.liveIds t).1
    · show _ = (blocksOf w.liveIds t).length
      rw [← hm, List.length_map]
  · cases h

/-- every listed block is outstanding after the test (it really is a leak) -/
theorem reported_blocks_are_outstanding (w : World) (hc : Clean w) (t : Test) (r : LeakReport)
    (h : (runTest w t).leakFail = some r) :
    ∀ e ∈ r.entries, e.id ∈ (runTest w t).liveIds := by
  intro e he
  rw [liveIds_runTest hc t]
  apply (blocksOf_nodup_sub w.liveIds t).2
  rw [← (report_lists_exactly w hc t r h).1]
  exact List.mem_map_of_mem he

/-! ## no_charge_to_later_test -/

/-- After a test no record carries the checking stamp any more: whatever it leaked has been
    moved out of the accounting of the tests to come. -/
theorem leaks_demoted_after_test (w : World) (hc : Clean w) (t : Test) :
    ∀ r ∈ (runTest w t).det.recs, r.period ≠ .checking := (clean_runTest hc t).noChecking

/-- A block that is outstanding when some test has ended (in particular one that test leaked) is
    never listed in the report of a later test, however many tests run in between.  Blocks are
    identified by their allocation number. -/
theorem no_charge_to_later_test (w1 : World) (hc : Clean w1) (between : List Test) (t2 : Test) (rep : LeakReport)
    (h : (runTest (runTests w1 between).1 t2).leakFail = some rep) :
    ∀ e ∈ rep.entries, ∀ r0 ∈ w1.det.recs, e.num ≠ r0.num := by
  intro e he r0 hr0
  have hc2 := clean_runTests hc between
  rw [leakFail_runTest hc2 t2] at h
  split at h
  · cases h
    have hn := numInv_atTeardownEnd hc2 t2
    simp only [List.mem_filter, beq_iff_eq] at he
    have h1 : (atStart (runTests w1 between).1 t2).det.seq ≤ e.num := hn.fresh e he.1 he.2
    have h2 : r0.num < w1.det.seq := hc.numsBelow r0 hr0
    have h3 : w1.det.seq ≤ (runTests w1 between).1.det.seq := seq_le_runTests hc between
    have h4 : (runTests w1 between).1.det.seq ≤ (atStart (runTests w1 between).1 t2).det.seq :=
      seq_le_runOutside t2.before (clearObs (runTests w1 between).1)
    omega
  · cases h

/-- Blocks allocated between two tests (outside every window) are not charged either. -/
theorem no_charge_for_blocks_allocated_between_tests (w : World) (hc : Clean w) (t : Test) (rep : LeakReport)
    (h : (runTest w t).leakFail = some rep) :
    ∀ e ∈ rep.entries, ∀ r0 ∈ (runOutside (clearObs w) t.before).det.recs, e.num ≠ r0.num := by
  intro e he r0 hr0
  rw [leakFail_runTest hc t] at h
  split at h
  · cases h
    have hn := numInv_atTeardownEnd hc t
    simp only [List.mem_filter, beq_iff_eq] at he
    have h1 : (atStart w t).det.seq ≤ e.num := hn.fresh e he.1 he.2
    have h2 : r0.num < (atStart w t).det.seq := (clean_atStart hc t).numsBelow r0 hr0
    omega
  · cases h

/-! ## earlier_free_does_not_offset -/

/-- On the history: the frees of a block the test never allocates itself (every block of an
    earlier test is one) change neither the test's blocks nor anything else the verdict
    depends on. -/
theorem frees_of_foreign_block_do_not_matter (live : List Nat) (t : Test) (id : Nat)
    (hs : neverAllocs id t.setup) (hb : neverAllocs id t.body) (ht : neverAllocs id t.teardown) :
    blocksOf live (Test.dropFrees t id) = blocksOf live t ∧
      shouldFail live (Test.dropFrees t id) = shouldFail live t := by
  have r := rel_atEnd live t id hs hb ht
  refine ⟨r.mine, ?_⟩
  simp only [shouldFail, ownFailures, ignores, blocksOf, Hist.expected, r.mine, r.own, r.ign, r.exp]

/-- Freeing an earlier test's block does not offset a new leak: the verdict and the listed
    blocks of a test are those of the same test with all its frees of that block deleted. -/
theorem earlier_free_does_not_offset (w : World) (hc : Clean w) (t : Test) (id : Nat)
    (hs : neverAllocs id t.setup) (hb : neverAllocs id t.body) (ht : neverAllocs id t.teardown) :
    (runTest w t).leakFail.isSome = (runTest w (Test.dropFrees t id)).leakFail.isSome ∧
      ∀ r r', (runTest w t).leakFail = some r → (runTest w (Test.dropFrees t id)).leakFail = some r' →
        r.entries.map (·.id) = r'.entries.map (·.id) ∧ r.total = r'.total := by
  have hh := frees_of_foreign_block_do_not_matter w.liveIds t id hs hb ht
  constructor
  · rw [leakFail_runTest hc t, leakFail_runTest hc (Test.dropFrees t id), hh.2]
    split <;> rfl
  · intro r r' h h'
    have e1 := report_lists_exactly w hc t r h
    have e2 := report_lists_exactly w hc (Test.dropFrees t id) r' h'
    exact ⟨by rw [e1.1, e2.1, hh.1], by rw [e1.2.2.1, e2.2.2.1, hh.1]⟩

/-- In particular the number of leaks counted for a test never depends on which blocks were
    outstanding before it: it is the number of its own outstanding blocks. -/
theorem leak_count_is_own_blocks (w : World) (hc : Clean w) (t : Test) :
    leaksAtPost (atTeardownEnd w t) = (blocksOf w.liveIds t).length :=
  leaksAtPost_eq (sim_atTeardownEnd hc t)

/-! ## realloc: both outcomes

Scripts contain `realloc id newId size` (the platform realloc succeeds) and `reallocFail id size`
(it returns NULL), so every theorem of this file already quantifies over histories with both
outcomes, on blocks of the running test and on blocks of earlier tests.  On the history a
successful realloc releases the old block and is a new allocation of the test that performs it;
a failed realloc changes nothing (`Hist.hexec`).  The theorems below spell out what that means. -/

/-- A failed realloc leaves the detector's table, the allocation counter and everything else as
    it was: the old block is re-registered with its old period, number and size.  (The sources of
    these three fields are read from `reallocMemory`'s failure branch on every run; with
    `current_period_` in place of `oldNode.period_` this theorem is false.) -/
theorem failed_realloc_changes_nothing (w : World) (id size : Nat) :
    execCmd w (.reallocFail id size) = w := execCmd_reallocFail w id size

/-- Deleting every failed realloc from a test changes neither its verdict nor its blocks. -/
theorem failed_reallocs_do_not_matter (w : World) (hc : Clean w) (t : Test) :
    blocksOf w.liveIds (Test.dropReallocFails t) = blocksOf w.liveIds t ∧
      (runTest w (Test.dropReallocFails t)).leakFail.isSome = (runTest w t).leakFail.isSome := by
  have e := atEnd_dropReallocFails w.liveIds t
  refine ⟨by simp only [blocksOf, e], ?_⟩
  rw [leakFail_runTest hc t, leakFail_runTest hc (Test.dropReallocFails t)]
  have : shouldFail w.liveIds (Test.dropReallocFails t) = shouldFail w.liveIds t := by
    simp only [shouldFail, ownFailures, ignores, blocksOf, Hist.expected, e]
  rw [this]
  split <;> rfl

/-- The seeded scenario: a test that only tries to grow a block (of an earlier test, or any
    other) and whose platform realloc fails allocates nothing and gets no leak failure. -/
theorem failed_realloc_of_earlier_block_is_not_charged (w : World) (hc : Clean w) (id size : Nat) :
    (runTest w { body := [.reallocFail id size] }).leakFail = none := by
  have h := failed_reallocs_do_not_matter w hc { body := [.reallocFail id size] }
  have h0 : (runTest w (Test.dropReallocFails { body := [.reallocFail id size] })).leakFail = none := by
    rw [leakFail_runTest hc]
    have : shouldFail w.liveIds (Test.dropReallocFails { body := [.reallocFail id size] }) = false := rfl
    simp [this]
  have h1 := h.2
  rw [h0] at h1
  cases hl : (runTest w { body := [.reallocFail id size] }).leakFail with
  | none => rfl
  | some r => rw [hl] at h1; cases h1

/-- A successful realloc of an earlier test's block: the resulting block is a block of the test
    that did the realloc (and the only one, if it does nothing else); the old block is released. -/
theorem realloc_result_belongs_to_reallocating_test (live : List Nat) (id newId size : Nat)
    (hid : id ∈ live) (hnew : newId = id ∨ newId ∉ live) :
    blocksOf live { body := [.realloc id newId size] } = [newId] ∧
      (newId ≠ id → id ∉ liveAfterTest live { body := [.realloc id newId size] }) := by
  have hcond : ¬ (newId ≠ id ∧ newId ∈ live) := by
    rintro ⟨h1, h2⟩; rcases hnew with h | h
    · exact h1 h
    · exact h h2
  have hnot : newId ∉ live.filter (· != id) := by
    intro h; simp only [List.mem_filter, bne_iff_ne, ne_eq] at h
    exact hcond ⟨h.2, h.1⟩
  constructor
  · simp only [blocksOf, atEnd, hPhase, hrun, liveAtStart, List.foldl_nil, List.foldl_cons, hEnter, hstep, start,
      Bool.false_eq_true, if_false, hexec, hid, not_true_eq_false]
    rw [if_neg hcond]
    simp only [hAlloc, hFree, hnot, if_false, List.filter_nil]
  · intro hne h
    simp only [liveAfterTest, atEnd, hPhase, hrun, liveAtStart, List.foldl_nil, List.foldl_cons, hEnter, hstep, start,
      Bool.false_eq_true, if_false, hexec, hid, not_true_eq_false] at h
    rw [if_neg hcond] at h
    simp only [hAlloc, hFree, hnot, if_false, List.mem_cons, List.mem_filter,
      bne_iff_ne, ne_eq, not_true_eq_false, and_false, or_false] at h
    exact hne h.symm

/-! ## window_is_pre_to_post

The leak window is exactly "from the plugin's pre action to its post action" and, by the
regenerated call order of `runOneTestInCurrentProcess`, `createTest` and `destroyTest` lie inside
it: what the constructor and the destructor of the test object allocate and release counts like
what setup, body and teardown do; what happens before the pre action does not. -/

/-- a test whose object does nothing in its constructor and destructor is a plain test -/
theorem runTestObj_plain (w : World) (t : Test) : runTestObj w { test := t } = runTest w t := rfl

/-- The verdict of a test with an allocating test object: the blocks that count are those
    allocated by constructor, setup, body, teardown and destructor and still outstanding after the
    destructor (`blocksOfObj`); blocks allocated before the pre action (`before`) never count. -/
theorem window_is_pre_to_post (w : World) (hc : Clean w) (hov : w.overloads = true) (t : TestObj) :
    (runTestObj w t).leakFail.isSome = true ↔
      ((atEndObj w.liveIds t).own = 0 ∧ (atEndObj w.liveIds t).ignore = false ∧
        (blocksOfObj w.liveIds t).length ≠ (atEndObj w.liveIds t).expected) := by
  rw [leakFail_runTestObj hc t, hov]
  simp only [Bool.true_and]
  by_cases h : shouldFailObj w.liveIds t = true
  · simp only [h, if_true, Option.isSome_some, true_iff]
    simpa [shouldFailObj, verdictAt, blocksOfObj, and_assoc] using h
  · simp only [h]
    simp only [Bool.false_eq_true, if_false, Option.isSome_none, false_iff]
    intro h'
    apply h
    simpa [shouldFailObj, verdictAt, blocksOfObj, and_assoc] using h'

/-- its report lists exactly those blocks, and none that was outstanding at the pre action -/
theorem window_report_lists_exactly (w : World) (hc : Clean w) (t : TestObj) (r : LeakReport)
    (h : (runTestObj w t).leakFail = some r) :
    r.entries.map (·.id) = blocksOfObj w.liveIds t ∧ r.total = (blocksOfObj w.liveIds t).length ∧
      ∀ e ∈ r.entries, ∀ r0 ∈ (runOutside (clearObs w) t.test.before).det.recs, e.num ≠ r0.num := by
  rw [leakFail_runTestObj hc t] at h
  split at h
  · cases h
    refine ⟨(sim_atDtorEnd hc t).chk, rfl, ?_⟩
    intro e he r0 hr0
    have hn := numInv_atDtorEnd hc t
    simp only [List.mem_filter, beq_iff_eq] at he
    have h1 : (atStart w t.test).det.seq ≤ e.num := hn.fresh e he.1 he.2
    have h2 : r0.num < (atStart w t.test).det.seq := (clean_atStart hc t.test).numsBelow r0 hr0
    omega
  · cases h

/-- the state between tests is re-established and the history is followed, as for plain tests -/
theorem clean_after_test_with_object (w : World) (hc : Clean w) (t : TestObj) :
    Clean (runTestObj w t) ∧ (runTestObj w t).liveIds = liveAfterTestObj w.liveIds t :=
  ⟨clean_runTestObj hc t, liveIds_runTestObj hc t⟩

/-! ## tests run in a separate process -/

/-- Leaks are detected in the child only: the parent's detector, plugin flags and overload
    switch are what they were at the fork (after the memory operations that precede the test). -/
theorem separate_process_parent_detector_unchanged (w : World) (t : TestObj) :
    (runTestSeparate w t).det = (runOutside (clearObs w) t.test.before).det ∧
    (runTestSeparate w t).plg = (runOutside (clearObs w) t.test.before).plg ∧
    (runTestSeparate w t).overloads = (runOutside (clearObs w) t.test.before).overloads := by
  unfold runTestSeparate joinSeparate
  split <;> exact ⟨rfl, rfl, rfl⟩

/-- in particular: nothing the child allocated, released or leaked exists in the parent -/
theorem separate_process_leaves_parent_table (w : World) (t : TestObj) (h : t.test.before = []) :
    (runTestSeparate w t).det = w.det ∧ (runTestSeparate w t).plg = w.plg := by
  have := separate_process_parent_detector_unchanged w t
  rw [h] at this
  exact ⟨this.1, this.2.1⟩

/-- The parent records exactly one failure when the child recorded any (own failing checks or the
    leak failure), none otherwise. -/
theorem separate_process_failure_iff (w : World) (hc : Clean w) (t : TestObj) :
    (runTestSeparate w t).failures =
      w.failures + (if (atEndObj w.liveIds t).own > 0 ∨ (w.overloads && shouldFailObj w.liveIds t) = true then 1 else 0) := by
  have hf := failures_runTestObj hc t
  have h0 : (runOutside (clearObs w) t.test.before).failures = w.failures := failures_atStart w t.test
  unfold runTestSeparate joinSeparate
  rw [hf, h0]
  cases hb : (w.overloads && shouldFailObj w.liveIds t) <;> simp <;> split <;> simp_all <;> omega

theorem clean_after_separate_process (w : World) (hc : Clean w) (t : TestObj) : Clean (runTestSeparate w t) := by
  have hcl : Clean (runOutside (clearObs w) t.test.before) := clean_atStart hc t.test
  unfold runTestSeparate joinSeparate
  split
  · exact { noChecking := hcl.noChecking, notChecking := hcl.notChecking, numsBelow := hcl.numsBelow,
            ignoreOff := hcl.ignoreOff, expectedZero := hcl.expectedZero }
  · exact hcl

/-! ## EXPECT_N_LEAKS / IGNORE_ALL_LEAKS_IN_TEST: where and how often

`expectLeaksInTest(n)` ASSIGNS `expectedLeaks_` (regenerated shape check: `expectedLeaks_ = n;`):
several declarations do not add up, the last one performed wins, whatever phase it is in.
`ignoreAllLeaksInTest()` sets a flag that nothing but the post action clears. -/

theorem expect_assigns (h : HState) (n : Nat) : (hexec h (.expectLeaks n)).expected = n := rfl

theorem expect_assigns_in_model (w : World) (n : Nat) : (execCmd w (.expectLeaks n)).plg.expected = n := rfl

theorem hAlloc_keeps (h : HState) (id : Nat) :
    (hAlloc h id).expected = h.expected ∧ (hAlloc h id).ignore = h.ignore := by
  unfold hAlloc; split <;> exact ⟨rfl, rfl⟩

theorem other_commands_keep_expected (h : HState) (c : Cmd) (hc : ∀ n, c ≠ .expectLeaks n) :
    (hexec h c).expected = h.expected := by
  cases c with
  | expectLeaks n => exact absurd rfl (hc n)
  | alloc id sz => exact (hAlloc_keeps h id).1
  | realloc id newId sz =>
    simp only [hexec]
    split
    · rfl
    · split
      · rfl
      · exact (hAlloc_keeps _ newId).1
  | _ => rfl

/-- the last declaration performed in a phase wins -/
theorem expect_last_wins (h : HState) (cs : List Cmd) (n : Nat) (hna : (hrun h cs).aborted = false) :
    (hrun h (cs ++ [.expectLeaks n])).expected = n := by
  simp only [hrun, List.foldl_append, List.foldl_cons, List.foldl_nil]
  have : (List.foldl hstep h cs).aborted = false := hna
  simp only [hstep, this, Bool.false_eq_true, if_false]
  rfl

theorem ignore_kept_hexec (h : HState) (c : Cmd) (hi : h.ignore = true) : (hexec h c).ignore = true := by
  cases c with
  | alloc id sz => exact (hAlloc_keeps h id).2.trans hi
  | realloc id newId sz =>
    simp only [hexec]
    split
    · exact hi
    · split
      · exact hi
      · exact (hAlloc_keeps _ newId).2.trans hi
  | ignoreLeaks => rfl
  | _ => exact hi

theorem ignore_kept_hrun : ∀ (cs : List Cmd) (h : HState), h.ignore = true → (hrun h cs).ignore = true
  | [], _, hi => hi
  | c :: cs, h, hi => by
    simp only [hrun, List.foldl_cons]
    apply ignore_kept_hrun cs
    unfold hstep; split
    · exact hi
    · exact ignore_kept_hexec h c hi

theorem ignore_kept_hPhase (h : HState) (ph : Phase) (cs : List Cmd) (hi : h.ignore = true) :
    (hPhase h ph cs).ignore = true := by
  unfold hPhase
  apply ignore_kept_hrun
  cases ph <;> exact hi

/-- Once a test has asked to ignore leaks (in its setup, say), it stays that way to the end of the
    test: no later command and no later phase takes it back. -/
theorem ignore_sticks_from_setup (live : List Nat) (t : Test)
    (hi : (hPhase (start (liveAtStart live t)) .setup t.setup).ignore = true) : ignores live t = true := by
  unfold ignores atEnd
  exact ignore_kept_hPhase _ _ _ (ignore_kept_hPhase _ _ _ hi)

/-- A declaration at the end of a teardown that was not left by a failing check overrides
    whatever setup and body declared. -/
theorem expect_in_teardown_wins (live : List Nat) (t : Test) (td : List Cmd) (n : Nat)
    (ht : t.teardown = td ++ [.expectLeaks n])
    (hna : (hPhase (hPhase (hPhase (start (liveAtStart live t)) .setup t.setup) .body t.body) .teardown td).aborted = false) :
    Hist.expected live t = n := by
  unfold Hist.expected atEnd
  rw [ht]
  unfold hPhase at hna ⊢
  exact expect_last_wins _ td n hna

/-! ## declarations_reach_first_plugin -/

/-- However many further plugin objects a process constructs (and destroys or keeps) after the
    installed one, `firstPlugin_` keeps pointing to the installed plugin, so every
    `EXPECT_N_LEAKS` / `IGNORE_ALL_LEAKS_IN_TEST` of a test reaches the plugin that judges the test:
    a declaration acts on the installed plugin's state exactly as `execCmd` says. -/
theorem declarations_reach_first_plugin (overloads : Bool) (ops : List ProcOp) :
    (ops.foldl Proc.step (Proc.init overloads)).first = .installed ∧
      ∀ (p : Proc), p.first = .installed → ∀ c, (p.execCmd c).w = execCmd p.w c := by
  constructor
  · have h0 : (Proc.init overloads).first = .installed := rfl
    generalize Proc.init overloads = p at h0
    induction ops generalizing p with
    | nil => exact h0
    | cons op ops ih =>
      apply ih
      cases op with
      | constructOther => simp [Proc.step, afterConstruct, Gen.LeakCode.firstPluginSetOnlyIfNull, h0]
      | destroyOther => exact h0
  · intro p hp c
    cases c <;> simp [Proc.execCmd, hp]

/-- the plugin objects constructed later never change the installed plugin's state -/
theorem other_plugins_leave_world (p : Proc) (op : ProcOp) : (p.step op).w = p.w := by
  cases op <;> rfl

/-! ## several plugins: the chain the leak plugin is installed in

`TestRegistry::installPlugin`, `TestPlugin::runAllPreTestAction` / `runAllPostTestAction` (statement order and
`enabled_` guards regenerated into `Gen/LeakChainCode.lean`) decide which actions of OTHER plugins fall between
the leak plugin's pre and post action.  A plugin is given by what its pre and post action do for the test at
hand (`Other`): tracked memory operations and failures added with `result.addFailure` (a `MockSupportPlugin`
whose post action checks and clears the expectations of the test, …). -/

/-- pre actions: the head of the chain first, then the rest; a disabled plugin's action is skipped
    (the regenerated `runAllPreTestAction`) -/
theorem chain_pre_order {π σ : Type} (en : π → Bool) (act : π → σ → σ) (p : π) (rest : List π) (s : σ) :
    chainPre en act (p :: rest) s = chainPre en act rest (if en p then act p s else s) := chainPre_cons en act p rest s

/-- post actions: the rest of the chain first, the head last (the regenerated `runAllPostTestAction`): actions nest -/
theorem chain_post_order {π σ : Type} (en : π → Bool) (act : π → σ → σ) (p : π) (rest : List π) (s : σ) :
    chainPost en act (p :: rest) s = (if en p then act p (chainPost en act rest s) else chainPost en act rest s) :=
  chainPost_cons en act p rest s

/-- `installPlugin` makes the new plugin the head of the chain … -/
theorem install_puts_at_head {π : Type} (chain : List π) (p : π) : installPlugin chain p = p :: chain := rfl

theorem foldl_install {π : Type} : ∀ (l acc : List π), l.foldl installPlugin acc = l.reverse ++ acc
  | [], _ => rfl
  | p :: l, acc => by
    rw [List.foldl_cons, install_puts_at_head, foldl_install l, List.reverse_cons, List.append_assoc]; rfl

/-- … so in the arrangement of `CommandLineTestRunner::RunAllTests` (the leak plugin is installed by the runner,
    after everything `main()` installed) every other plugin is behind the leak plugin: all of them act INSIDE the
    window, none outside. -/
theorem runAllTests_arrangement_all_inner (mainPlugins : List Other) :
    installPlugin ((mainPlugins.map Plug.other).foldl installPlugin []) (.leak true) =
      (ChainSpec.toTest { outer := [], inner := mainPlugins.reverse }).chain := by
  rw [install_puts_at_head, foldl_install]
  simp [ChainSpec.toTest]

/-- a plugin installed after the leak plugin is in front of it: it acts outside the window -/
theorem installed_later_is_outer (inner : List Other) (o : Other) :
    installPlugin (ChainSpec.toTest { inner := inner }).chain (.other o) =
      (ChainSpec.toTest { outer := [o], inner := inner }).chain := rfl

/-- the run under a chain, unfolded with the regenerated orders: outer pre actions, leak pre action, inner pre
    actions, constructor, setup/body/teardown, destructor, inner post actions (last plugin first), leak post
    action, outer post actions -/
theorem chain_run_unfolded (w : World) (t : ChainSpec) :
    runTestChain w t.toTest = runAct (postTestAction (atInnerEnd w t)) (postCmds t.outer) := runTestChain_eq w t

/-- with no other plugin the chain run is the run of the previous sections -/
theorem chain_without_other_plugins (w : World) (obj : TestObj) :
    runTestChain w (ChainSpec.toTest { obj := obj }) = runTestObj w obj := by
  rw [runTestChain_eq, runTestObj_eq]; rfl

/-- **The verdict under any chain of plugins.**  The test gets a leak failure exactly when no failure was recorded
    between the leak plugin's pre and post action (own checks, or failures added by the plugins behind it), it
    did not ask to ignore leaks, and the number of blocks allocated in that window — by the inner plugins' pre
    actions, the constructor, setup, body, teardown, the destructor, the inner plugins' post actions — and still
    outstanding at its end differs from the declared number.  What the plugins in front of the leak plugin
    allocate in their pre actions or release in their post actions is outside the window. -/
theorem chain_leak_failure_iff (w : World) (hc : Clean w) (hov : w.overloads = true) (t : ChainSpec) :
    (runTestChain w t.toTest).leakFail.isSome = true ↔
      ((atEndChain w.liveIds t).own = 0 ∧ (atEndChain w.liveIds t).ignore = false ∧
        (blocksOfChain w.liveIds t).length ≠ (atEndChain w.liveIds t).expected) := by
  rw [leakFail_runTestChain hc t, hov]
  simp only [Bool.true_and]
  by_cases h : shouldFailChain w.liveIds t = true
  · simp only [h, if_true, Option.isSome_some, true_iff]
    simpa [shouldFailChain, verdictAt, blocksOfChain, and_assoc] using h
  · simp only [h]
    simp only [Bool.false_eq_true, if_false, Option.isSome_none, false_iff]
    intro h'
    apply h
    simpa [shouldFailChain, verdictAt, blocksOfChain, and_assoc] using h'

/-- its report lists exactly the blocks of the window (each once, the stated total is their number) and no block
    that existed at the leak plugin's pre action — in particular none an outer plugin's pre action allocated -/
theorem chain_report_lists_exactly (w : World) (hc : Clean w) (t : ChainSpec) (r : LeakReport)
    (h : (runTestChain w t.toTest).leakFail = some r) :
    r.entries.map (·.id) = blocksOfChain w.liveIds t ∧ r.total = (blocksOfChain w.liveIds t).length ∧
      r.entries.length = r.total ∧
      ∀ e ∈ r.entries, ∀ r0 ∈ (atLeakPre w t).det.recs, e.num ≠ r0.num := by
  rw [leakFail_runTestChain hc t] at h
  split at h
  · cases h
    have hm := (sim_atInnerEnd hc t).chk
    refine ⟨hm, rfl, ?_, ?_⟩
    · show _ = (blocksOfChain w.liveIds t).length
      unfold blocksOfChain; rw [← hm, List.length_map]
    · intro e he r0 hr0
      have hn := numInv_atInnerEnd hc t
      simp only [List.mem_filter, beq_iff_eq] at he
      have h1 : (atLeakPre w t).det.seq ≤ e.num := hn.fresh e he.1 he.2
      have h2 : r0.num < (atLeakPre w t).det.seq := (clean_atLeakPre hc t).numsBelow r0 hr0
      omega
  · cases h

/-- a failure added inside the window by another plugin (unmet mock expectations reported by a plugin installed
    before the leak plugin) counts as the test having failed already: no additional leak failure -/
theorem failure_of_inner_plugin_blocks_leak_failure (w : World) (hc : Clean w) (t : ChainSpec)
    (hf : (atEndChain w.liveIds t).own > 0) : (runTestChain w t.toTest).leakFail = none := by
  rw [leakFail_runTestChain hc t]
  have : shouldFailChain w.liveIds t = false := by
    simp only [shouldFailChain, verdictAt, Bool.and_eq_false_imp, Bool.and_eq_true, beq_iff_eq, and_imp]
    intro h; omega
  simp [this]

/-- what the plugins in front of the leak plugin do after its post action cannot take the verdict back or add one -/
theorem outer_post_actions_leave_verdict (w : World) (t : ChainSpec) :
    (runTestChain w t.toTest).leakFail = (postTestAction (atInnerEnd w t)).leakFail := by
  rw [runTestChain_eq]; exact (frame_runAct _ _).2.1

/-- The failures recorded for a test under a chain: what the plugins in front of the leak plugin add in their pre
    actions, the failures inside the window (own checks and inner plugins), at most ONE leak failure, and what the
    outer plugins add in their post actions. -/
theorem chain_failures_recorded (w : World) (hc : Clean w) (t : ChainSpec) :
    (verdictOf w (runTestChain w t.toTest)).failures =
      failCount (preCmds t.outer) + (atEndChain w.liveIds t).own +
        (if w.overloads && shouldFailChain w.liveIds t then 1 else 0) + failCount (postCmds t.outer) := by
  simp only [verdictOf]
  rw [failures_runTestChain hc t]; omega

/-- the state between tests is re-established and the outstanding blocks follow the history -/
theorem clean_after_chain_test (w : World) (hc : Clean w) (t : ChainSpec) :
    Clean (runTestChain w t.toTest) ∧ (runTestChain w t.toTest).liveIds = liveAfterChain w.liveIds t :=
  ⟨clean_runTestChain hc t, liveIds_runTestChain hc t⟩

/-- **Whole run, several plugins.**  For every sequence of tests, each under its own chain (plugins may be
    installed, removed, enabled or disabled between tests; one enabled leak plugin), the list of "got a leak
    failure" flags is the list the property statement prescribes on the history. -/
theorem all_chain_verdicts_follow_history (w0 : World) (hc : Clean w0) (hov : w0.overloads = true) (ts : List ChainSpec) :
    (runChainTests w0 (ts.map ChainSpec.toTest)).2.map (fun v => v.leakFail.isSome) = chainVerdicts w0.liveIds ts := by
  induction ts generalizing w0 with
  | nil => rfl
  | cons t ts ih =>
    simp only [List.map_cons, runChainTests, chainVerdicts]
    rw [ih (runTestChain w0 t.toTest) (clean_runTestChain hc t) (by rw [overloads_runTestChain]; exact hov),
      liveIds_runTestChain hc t]
    congr 1
    simp only [verdictOf]
    rw [leakFail_runTestChain hc t, hov]
    cases shouldFailChain w0.liveIds t <;> rfl

/-- without a leak plugin in the chain nobody adds a leak failure -/
theorem no_leak_plugin_no_leak_failure (w : World) (others : List Other) (obj : TestObj) :
    (runTestChain w { chain := others.map .other, obj := obj }).leakFail = none := by
  simp only [runTestChain, runOneTestChain, Gen.LeakCode.runOneTestOrder, List.foldl_cons, List.foldl_nil, rstepChain,
    chainPre_others, chainPost_others]
  have h : Frame (runOutside (clearObs w) obj.test.before)
      (runAct (runMem (runBody (runMem (runAct (runOutside (clearObs w) obj.test.before) (preCmds others)) obj.ctor) obj.test)
        obj.dtor) (postCmds others)) :=
    ((((frame_runAct _ _).trans (frame_runMem obj.ctor _)).trans (frame_runBody _ obj.test)).trans
      (frame_runMem obj.dtor _)).trans (frame_runAct _ _)
  exact h.2.1.trans (atStart_obs w obj.test).1

/-- a disabled plugin takes no part: its scripts may be anything -/
theorem disabled_plugin_does_nothing (o : Other) (l : List Other) (h : o.enabled = false) :
    preCmds (o :: l) = preCmds l ∧ postCmds (o :: l) = postCmds l := by
  simp [preCmds, postCmds, h]


/-! ## FinalReport, the overload switches, destroyGlobalDetector -/

theorem finalReport_is_FinalReport_zero (w : World) : finalReport w = finalReportN w 0 := rfl

/-- `FinalReport(n)` is silent exactly when `n` blocks stamped enabled or checking are outstanding
    (blocks allocated while the detector was disabled do not count) -/
theorem finalReportN_silent_iff (w : World) (n : Nat) :
    finalReportN w n = none ↔ (w.det.recs.filter (fun r => r.period != .disabled)).length = n := by
  unfold finalReportN
  have : w.det.totalMemoryLeaks Gen.LeakCode.finalCountPeriod = (w.det.recs.filter (fun r => r.period != .disabled)).length := by
    simp [Detector.totalMemoryLeaks, Detector.leaksIn, Gen.LeakCode.finalCountPeriod, isInPeriod_enabled]
  rw [this]
  by_cases h : (w.det.recs.filter (fun r => r.period != .disabled)).length = n <;> simp [h]

/-- otherwise it appends one entry per such block to the output buffer and states their number -/
theorem finalReportN_lists (w : World) (n : Nat) (r : LeakReport) (h : finalReportN w n = some r) :
    r.entries = w.det.out ++ w.det.recs.filter (fun r => r.period != .disabled) ∧
      r.total = (w.det.recs.filter (fun r => r.period != .disabled)).length := by
  unfold finalReportN at h
  split at h
  · cases h
    simp [Detector.report, Detector.leaksIn, Gen.LeakCode.finalReportPeriod, isInPeriod_enabled]
  · cases h

/-- after `turnOffNewDeleteOverloads()` no test gets a leak failure, whatever it leaks … -/
theorem no_leak_failure_after_turnOff (w : World) (hc : Clean w) (t : Test) :
    (runTest (turnOffOverloads w) t).leakFail = none :=
  no_leak_failure_without_overloads _ (clean_setOverloads hc _) rfl t

/-- … and after `turnOnDefaultNotThreadSafeNewDeleteOverloads()` the verdict is the property's again -/
theorem verdict_after_turnOn (w : World) (hc : Clean w) (t : Test) :
    (runTest (turnOnOverloads (turnOffOverloads w)) t).leakFail.isSome = shouldFail w.liveIds t := by
  have hc' : Clean (turnOnOverloads (turnOffOverloads w)) := clean_setOverloads (clean_setOverloads hc _) _
  rw [leakFail_runTest hc' t]
  have h1 : (turnOnOverloads (turnOffOverloads w)).overloads = true := rfl
  have h2 : (turnOnOverloads (turnOffOverloads w)).liveIds = w.liveIds := rfl
  rw [h1, h2]
  cases shouldFail w.liveIds t <;> rfl

/-- The "leak detection was disabled" warning is printed exactly for a test that would have got a
    leak failure, with the overloads off, and that declared a positive number of leaks. -/
theorem warning_iff (w : World) (hc : Clean w) (t : Test) :
    (runTest w t).warned = true ↔
      (w.overloads = false ∧ shouldFail w.liveIds t = true ∧ Hist.expected w.liveIds t > 0) := by
  have hs := sim_atTeardownEnd hc t
  have ho := atTeardownEnd_obs w t
  rw [runTest_eq, post_warned, ho.2.1, ho.2.2.1, condAtPost_eq hs]
  simp only [Gen.LeakCode.warnCond, hs.exp, Bool.false_or, Bool.and_eq_true, Bool.not_eq_true',
    decide_eq_true_eq, shouldFail, ownFailures, ignores, blocksOf, Hist.expected]
  constructor
  · rintro ⟨⟨h1, h2⟩, h3⟩; exact ⟨h2, h1, h3⟩
  · rintro ⟨h2, h1, h3⟩; exact ⟨⟨h1, h2⟩, h3⟩

/-- `destroyGlobalDetector()`: overloads off, and whoever asks for the global detector next gets a
    newly constructed one (no records, allocation numbers from the start, detector disabled) -/
theorem destroy_gives_fresh_detector (w : World) :
    (destroyGlobalDetector w).det = Detector.init ∧ (destroyGlobalDetector w).overloads = false ∧
      (destroyGlobalDetector w).det.recs = [] := ⟨rfl, rfl, rfl⟩

/-! ## the whole run made by `CommandLineTestRunner::RunAllTests` -/

/-- the chain `RunAllTests` works with: its own leak plugin in front of everything `main()` installed — every
    other plugin acts inside the window -/
theorem runner_chain_all_inner (mainPlugins : List Other) :
    runnerChain mainPlugins = (ChainSpec.toTest { outer := [], inner := mainPlugins.reverse }).chain :=
  runAllTests_arrangement_all_inner mainPlugins

/-- the runner installs its leak plugin before its `SetPointerPlugin` (regenerated installation order) and asks
    for `FinalReport(0)` -/
theorem runner_installs_leak_plugin_first :
    Gen.LeakChain.runnerInstalls.head? = some "MemoryLeakPlugin" ∧ Gen.LeakChain.finalReportArg = 0 := ⟨rfl, rfl⟩

/-- After the run `RunAllTests` asks for the final report exactly when no failure was recorded; the report is
    then silent exactly when no block allocated since the plugin was constructed is outstanding, and otherwise
    lists those blocks (the ones tests declared with `EXPECT_N_LEAKS` or were told to ignore). -/
theorem runner_final_report (w : World) :
    (runnerFinal w = none ↔ w.failures ≠ 0) ∧
    (runnerFinal w = some none ↔ (w.failures = 0 ∧ (w.det.recs.filter (fun r => r.period != .disabled)).length = 0)) ∧
    (∀ r, runnerFinal w = some (some r) →
      r.entries = w.det.out ++ w.det.recs.filter (fun r => r.period != .disabled) ∧
        r.total = (w.det.recs.filter (fun r => r.period != .disabled)).length) := by
  unfold runnerFinal
  simp only [Gen.LeakChain.finalReportOnlyIfPassed, Gen.LeakChain.finalReportArg, Bool.true_and]
  by_cases hf : w.failures = 0
  · simp only [hf, bne_self_eq_false, Bool.false_eq_true, if_false, reduceCtorEq, ne_eq, not_true_eq_false,
      true_and, Option.some.injEq]
    refine ⟨finalReportN_silent_iff w 0, ?_⟩
    intro r h; exact finalReportN_lists w 0 r h
  · have : (w.failures != 0) = true := by simpa using hf
    simp [this, hf]

/-- whole run under the runner's arrangement: verdicts as the property prescribes on the history, for any plugins
    `main()` installed and any scripts of their actions -/
theorem runner_verdicts_follow_history (ts : List (List Other × TestObj)) :
    (runChainTests (World.init true)
        (ts.map fun t => ({ chain := runnerChain t.1, obj := t.2 } : ChainTest))).2.map (fun v => v.leakFail.isSome) =
      chainVerdicts [] (ts.map fun t => ({ outer := [], inner := t.1.reverse, obj := t.2 } : ChainSpec)) := by
  have h := all_chain_verdicts_follow_history (World.init true) (init_clean true) rfl
    (ts.map fun t => ({ outer := [], inner := t.1.reverse, obj := t.2 } : ChainSpec))
  rw [List.map_map] at h
  have e : (ts.map fun t => ({ chain := runnerChain t.1, obj := t.2 } : ChainTest)) =
      ts.map (ChainSpec.toTest ∘ fun t => ({ outer := [], inner := t.1.reverse, obj := t.2 } : ChainSpec)) := by
    apply List.map_congr_left
    intro t _
    simp only [Function.comp, ChainSpec.toTest]
    rw [runner_chain_all_inner]; rfl
  rw [e]; exact h

/-! ## already_failed_gets_no_leak_failure -/

/-- A test with an own failing check gets no leak failure, whatever it leaked. -/
theorem already_failed_gets_no_leak_failure (w : World) (hc : Clean w) (t : Test)
    (hf : ownFailures w.liveIds t > 0) : (runTest w t).leakFail = none := by
  rw [leakFail_runTest hc t]
  have : shouldFail w.liveIds t = false := by
    simp only [shouldFail, Bool.and_eq_false_imp, Bool.and_eq_true, beq_iff_eq, and_imp]
    intro h; omega
  simp [this]

/-- The failures recorded for a test are its own failing checks plus at most the one leak failure. -/
theorem failures_recorded (w : World) (hc : Clean w) (t : Test) :
    (verdictOf w (runTest w t)).failures =
      ownFailures w.liveIds t + (if w.overloads && shouldFail w.liveIds t then 1 else 0) := by
  simp only [verdictOf]
  rw [failures_runTest hc t]; omega

/-! ## flags_reset_each_test -/

/-- After the post action the ignore flag and the expected count have their defaults again and
    the detector is back in the enabled period — from ANY state, not only clean ones. -/
theorem flags_reset_each_test (w : World) (t : Test) :
    (runTest w t).plg.ignoreAll = false ∧ (runTest w t).plg.expected = 0 ∧ (runTest w t).det.cur = .enabled := by
  rw [runTest_eq]
  exact ⟨(post_flags _).1, (post_flags _).2, post_cur _⟩

/-- Hence a declaration made by one test never reaches a later one: the verdict of a test in a
    sequence depends on the earlier tests only through the set of outstanding block ids. -/
theorem verdict_depends_on_history_only (w0 w0' : World) (hc : Clean w0) (hc' : Clean w0')
    (hov : w0.overloads = w0'.overloads) (hl : w0.liveIds = w0'.liveIds) (t : Test) :
    (runTest w0 t).leakFail.isSome = (runTest w0' t).leakFail.isSome := by
  rw [leakFail_runTest hc t, leakFail_runTest hc' t, hov, hl]
  split <;> rfl

/-! ## non-vacuity: concrete histories -/

/-- test 1 leaks block 1; test 2 frees it and leaks block 2; test 3 declares one leak and
    leaks block 3; test 4 fails its own check in the setup and leaks in the teardown;
    test 5 ignores its leak; test 6 is clean -/
def exampleTests : List Test :=
  [ { body := [.alloc 1 8] },
    { body := [.free 1, .alloc 2 4] },
    { setup := [.expectLeaks 1], body := [.alloc 3 2] },
    { setup := [.alloc 4 1, .fail, .alloc 5 1], body := [.alloc 6 1], teardown := [.alloc 7 1] },
    { body := [.ignoreLeaks, .alloc 8 1] },
    { before := [.alloc 9 1], body := [.alloc 10 1, .free 10] } ]

example : (runTests (World.init true) exampleTests).2.map (fun v => (v.failures, v.leakFail.map (fun r => (r.entries.map (·.id), r.total)))) =
    [(1, some ([1], 1)), (1, some ([2], 1)), (0, none), (1, none), (0, none), (0, none)] := by decide

example : (runTests (World.init true) exampleTests).1.liveIds = [9, 8, 7, 4, 3, 2] := by decide

/-- test A keeps block 1 and declares it; test B tries to grow it and the platform realloc
    fails; test C grows it successfully into block 2 (now C's block); test D frees block 2 -/
def reallocTests : List Test :=
  [ { body := [.expectLeaks 1, .alloc 1 10] },
    { body := [.reallocFail 1 1000] },
    { body := [.realloc 1 2 20] },
    { body := [.free 2] } ]

example : (runTests (World.init true) reallocTests).2.map (fun v => (v.failures, v.leakFail.map (fun r => (r.entries.map (·.id), r.total)))) =
    [(0, none), (0, none), (1, some ([2], 1)), (0, none)] := by decide

-- the block test C is charged with carries C's own (new) allocation number, not test A's
example : (runTests (World.init true) reallocTests).2.map (fun v => v.leakFail.map (fun r => r.entries.map (·.num))) =
    [none, none, some [2], none] := by decide

-- the same verdicts, read off the history alone
example : verdicts [] exampleTests = [true, true, false, false, false, false] := by decide

example : Clean (World.init true) ∧ (World.init true).overloads = true := ⟨init_clean true, rfl⟩

/-- a block allocated before the pre action is not charged; one allocated by the constructor and
    never released is; one the destructor releases is not; one the destructor allocates is -/
def objectTests : List TestObj :=
  [ { test := { before := [.alloc 1 8] } },
    { ctor := [.alloc 2 8] },
    { ctor := [.alloc 3 8], dtor := [.free 3] },
    { test := { body := [.alloc 4 8] }, dtor := [.alloc 5 8, .free 4] } ]

example : objectTests.map (fun t => (runTestObj (World.init true) t).leakFail.map (fun r => r.entries.map (·.id))) =
    [none, some [2], none, some [5]] := by decide

-- a leaking test in a separate process: the parent gets one failure and its table stays empty
example : (runTestSeparate (World.init true) { test := { body := [.alloc 1 8] } }).failures = 1 ∧
    (runTestSeparate (World.init true) { test := { body := [.alloc 1 8] } }).det.recs = [] := by decide

-- EXPECT_N_LEAKS twice: the last one wins (2 + 1 is not 3)
example : Hist.expected [] { setup := [.expectLeaks 2], body := [.expectLeaks 1] } = 1 := by decide

-- the hypotheses of `earlier_free_does_not_offset` are met by test 2 and block 1
example : neverAllocs 1 [Cmd.free 1, Cmd.alloc 2 4] := by
  intro c h; simp at h; rcases h with rfl | rfl <;> rfl

-- a test expecting one leak that leaks nothing gets a failure whose report lists nothing
example : ((runTests (World.init true) [{ body := [.expectLeaks 1] }]).2.map
    (fun v => v.leakFail.map (fun r => (r.entries.length, r.total)))) = [some (0, 0)] := by decide

/-- the mock-plugin situation: the body allocates block 1 (an expectation), the plugin's post action releases it.
    Plugin installed BEFORE the leak plugin (as with `RunAllTests`): inside the window, no leak.  Installed AFTER
    it: the release comes after the verdict, block 1 is reported.  A block the outer plugin allocated in its pre
    action (2) is not charged, one an inner plugin allocated and kept (3) is. -/
def mockLike : Other := { post := [.free 1] }

example : (runTestChain (World.init true) (ChainSpec.toTest { inner := [mockLike], obj := { test := { body := [.alloc 1 8] } } })).leakFail.map
    (fun r => r.entries.map (·.id)) = none := by decide

example : (runTestChain (World.init true) (ChainSpec.toTest { outer := [mockLike], obj := { test := { body := [.alloc 1 8] } } })).leakFail.map
    (fun r => r.entries.map (·.id)) = some [1] := by decide

example : (runTestChain (World.init true) (ChainSpec.toTest { outer := [{ pre := [.alloc 2 4] }], inner := [{ pre := [.alloc 3 4] }] })).leakFail.map
    (fun r => r.entries.map (·.id)) = some [3] := by decide

-- unmet expectations reported by an inner plugin's post action: the leak is not reported on top
example : (runTestChain (World.init true) (ChainSpec.toTest { inner := [{ post := [.fail] }], obj := { test := { body := [.alloc 1 8] } } })).leakFail = none
    ∧ (atEndChain [] { inner := [{ post := [.fail] }], obj := { test := { body := [.alloc 1 8] } } }).own = 1 := by decide

-- two tests under different chains; the second one frees what the first one's outer plugin left behind
example : chainVerdicts [] [ { outer := [{ pre := [.alloc 5 1] }], obj := { test := { body := [.alloc 1 8] } } },
                              { inner := [{ enabled := false, pre := [.alloc 9 9] }, { post := [.free 5] }] } ] = [true, false] := by decide

example : installPlugin (installPlugin ([] : List Plug) (.other mockLike)) (.leak true) = [.leak true, .other mockLike] := rfl

-- the runner: a passed run with a declared leak prints it in the final report; a failed run prints none
example : (runnerFinal (runChainTests (World.init true) [{ chain := runnerChain [], obj := { test := { body := [.expectLeaks 1, .alloc 1 8] } } }]).1).map
    (fun o => o.map (fun r => r.entries.map (·.id))) = some (some [1]) := by decide
example : runnerFinal (runChainTests (World.init true) [{ chain := runnerChain [], obj := { test := { body := [.alloc 1 8] } } }]).1 = none := by decide

end LeakPlugin
