import CppUModel.Proofs.Failable
/-!
# C15 — injected out-of-memory hits exactly the designated allocations

Property theorems only.  Model: `CppUModel/Model/Failable.lean` (from
`src/CppUTest/TestMemoryAllocator.cpp` — `FailableMemoryAllocator`, `LocationToFailAllocNode` — and
`src/CppUTest/TestHarness_c.cpp` — the malloc countdown, strdup/strndup/calloc); vocabulary:
`CppUModel/Spec/Failable.lean`.

What "index" means (Spec): the *global index* of an allocation counts the allocations since the
allocator was constructed or last cleared (`allocs (epoch h) + 1`); the *local index* relative to a
`failNthAllocAt(n, file, line)` counts the allocations at `(file, line)` (file compared by content)
made since THAT designation (`allocsAt file line post + 1`).

All theorems quantify over every history `h : List Op` (any length, any interleaving of
designations, allocations at any locations, checks and clears).  No distinctness hypothesis on the
designations is needed for the repaired code: several designations that select the same
allocation all fire (and are all consumed) at that allocation.
-/
namespace Failable

/-! ## which allocations fail -/

/-- **Exactly the designated allocations fail.**  After ANY history `h` since construction, the
    allocation at `(file, line)` returns NULL iff it is designated: its global index was designated
    by a `failAllocNumber` of the current epoch, or some `failNthAllocAt(n, file, line)` of the
    current epoch has it as its `n`-th allocation at that location. -/
theorem fails_iff_designated (h : List Op) (file : String) (line : Nat) :
    allocFails (run init h) file line = true ↔ Designated h file line := by
  obtain ⟨s0, hn, hcur, hrun⟩ := run_init_epoch h
  rw [hrun, allocFails_run_iff file line (epoch h) s0 (epoch_no_clear h)]
  simp only [hn, hcur, List.not_mem_nil, false_and, exists_false, false_or, Nat.zero_add]
  rfl

/-- every other allocation succeeds -/
theorem succeeds_iff_not_designated (h : List Op) (file : String) (line : Nat) :
    allocFails (run init h) file line = false ↔ ¬ Designated h file line := by
  rw [← fails_iff_designated]; simp

/-- the decidable form used by the run-time oracle is the same predicate -/
theorem designatedB_iff (h : List Op) (file : String) (line : Nat) :
    designatedB h file line = true ↔ Designated h file line := by
  simp only [designatedB, Bool.or_eq_true, List.contains_iff_mem, locDesignatedB_iff]
  rfl

/-- the epoch of a history is exactly what follows its last `clear` (the whole history if it was
    never cleared) and contains no `clear` -/
theorem epoch_is_since_last_clear (h : List Op) :
    Op.clear ∉ epoch h ∧ ((epoch h = h ∧ Op.clear ∉ h) ∨ ∃ p, h = p ++ Op.clear :: epoch h) :=
  ⟨epoch_no_clear h, epoch_spec h⟩

/-- A location designation selects at most one allocation: if the allocation after `post₁` is the
    one it designates, no later allocation at that location is. -/
theorem loc_designation_hits_once (n : Int) (file : String) (line : Nat) (post₁ mid : List Op)
    (h1 : n = ((allocsAt file line post₁ + 1 : Nat) : Int)) :
    n ≠ ((allocsAt file line (post₁ ++ Op.alloc file line :: mid) + 1 : Nat) : Int) := by
  simp only [allocsAt_append, allocsAt_cons, Op.isAllocAt, and_self, decide_true, if_true]
  omega

/-- A global designation selects at most one allocation of an epoch: global indices are strictly
    increasing. -/
theorem global_index_strictly_increases (e₁ mid : List Op) (file : String) (line : Nat) :
    allocs e₁ + 1 < allocs (e₁ ++ Op.alloc file line :: mid) + 1 := by
  simp only [allocs_append, allocs_cons, Op.isAlloc, if_true]; omega

/-! ## a designation is consumed exactly once -/

/-- **Every designation is consumed at most once.**  Along any history the designations (identified
    by their sequence number) split into: still linked, fired (unlinked and freed by an
    allocation), released by `clear` — each designation made so far occurs in exactly one of the
    three lists, exactly once.  In particular no designation fires twice and none is lost. -/
theorem fired_designation_consumed_once (h : List Op) :
    (((run init h).nodes.map (·.id)) ++ firedIds init h ++ clearedIds init h).Perm
      (List.range' 0 (run init h).nextId) := by
  simpa [init] using conservation h init

theorem fired_ids_nodup (h : List Op) :
    (firedIds init h).Nodup ∧ (∀ i ∈ firedIds init h, i ∉ (run init h).nodes.map (·.id)) := by
  have hp := fired_designation_consumed_once h
  have hn : (List.range' 0 (run init h).nextId).Nodup := List.nodup_range'
  have h2 := (hp.nodup_iff).mpr hn
  rw [List.append_assoc] at h2
  obtain ⟨_, h3, h4⟩ := List.nodup_append.mp h2
  refine ⟨(List.nodup_append.mp h3).1, ?_⟩
  intro i hi hmem
  exact h4 i hmem i (List.mem_append_left _ hi) rfl

/-- a node fires only together with a failing allocation, and a failing allocation frees at
    least one node -/
theorem fails_iff_some_node_consumed (s : State) (file : String) (line : Nat) :
    allocFails s file line = true ↔ allocFired s file line ≠ [] := by
  unfold allocFails
  cases h : allocFired s file line <;> simp

/-! ## the check reports what never happened -/

/-- **The linked list is exactly the list of designations that have not fired**, most recent
    first, after any history. -/
theorem pending_eq_unfired (h : List Op) :
    (run init h).nodes.map Node.desig = (unfired h).reverse := by
  obtain ⟨s0, hn, hcur, hrun⟩ := run_init_epoch h
  rw [hrun, nodes_run (epoch h) s0 (epoch_no_clear h), hn, hcur]
  simp [unfired]

/-- **`checkAllFailedAllocsWereDone`** passes iff every designation of the epoch has fired, and
    otherwise fails the test naming the most recent designation that never happened. -/
theorem unfired_reported_by_check (h : List Op) :
    check (run init h) = match (unfired h).getLast? with
      | none => .ok
      | some d => reportOf d := by
  rw [check_eq, pending_eq_unfired, List.head?_reverse]
  cases (unfired h).getLast? <;> rfl

/-- the check is silent iff nothing is outstanding -/
theorem check_ok_iff (h : List Op) : check (run init h) = .ok ↔ unfired h = [] := by
  rw [unfired_reported_by_check]
  cases hl : (unfired h).getLast? with
  | none => simp [List.getLast?_eq_none_iff.mp hl]
  | some d =>
    have hm : d ∈ unfired h := List.mem_of_getLast? hl
    have := reportOf_designation_ne_ok d (unfiredFrom_designations 0 (epoch h) d hm).1
    constructor
    · intro h1; exact absurd h1 this
    · intro h1; rw [h1] at hm; cases hm

/-- "has fired" (the arithmetic form used in `unfired`) means: some later allocation had exactly
    the designated global index -/
theorem firedNum_iff_exists (n : Int) : ∀ (post : List Op) (b : Nat),
    firedNum b n post = true ↔
      ∃ p₁ f l p₂, post = p₁ ++ Op.alloc f l :: p₂ ∧ n = ((b + allocs p₁ + 1 : Nat) : Int)
  | [], b => by
    rw [firedNum_iff, allocs_nil]
    constructor
    · intro h; omega
    · rintro ⟨p₁, f, l, p₂, h, _⟩; cases p₁ <;> simp at h
  | op :: post, b => by
    have ih := firedNum_iff_exists n post
    by_cases ha : op.isAlloc = true
    · obtain ⟨f0, l0, rfl⟩ : ∃ f0 l0, op = Op.alloc f0 l0 := by
        cases op <;> simp_all [Op.isAlloc]
      have e1 : firedNum b n (Op.alloc f0 l0 :: post) = true ↔
          (n = ((b + 1 : Nat) : Int) ∨ firedNum (b + 1) n post = true) := by
        rw [firedNum_iff, firedNum_iff]
        simp only [allocs_cons, Op.isAlloc, if_true]; omega
      rw [e1, ih (b + 1)]
      constructor
      · rintro (h | ⟨p₁, f, l, p₂, h, hn⟩)
        · exact ⟨[], f0, l0, post, rfl, by simp [allocs_nil]; omega⟩
        · refine ⟨Op.alloc f0 l0 :: p₁, f, l, p₂, by simp [h], ?_⟩
          simp only [allocs_cons, Op.isAlloc, if_true]; omega
      · rintro ⟨p₁, f, l, p₂, h, hn⟩
        cases p₁ with
        | nil => left; simp [allocs_nil] at hn; omega
        | cons a p₁ =>
          simp at h
          obtain ⟨rfl, rfl⟩ := h
          right
          refine ⟨p₁, f, l, p₂, rfl, ?_⟩
          simp only [allocs_cons, Op.isAlloc, if_true] at hn; omega
    · have ha' : op.isAlloc = false := by simpa using ha
      have e1 : firedNum b n (op :: post) = firedNum b n post := by
        simp [firedNum, allocs_cons, ha']
      rw [e1, ih b]
      constructor
      · rintro ⟨p₁, f, l, p₂, h, hn⟩
        refine ⟨op :: p₁, f, l, p₂, by simp [h], ?_⟩
        simp only [allocs_cons, ha']; simpa using hn
      · rintro ⟨p₁, f, l, p₂, h, hn⟩
        cases p₁ with
        | nil => simp at h; rw [h.1] at ha; simp [Op.isAlloc] at ha
        | cons a p₁ =>
          simp at h
          obtain ⟨rfl, rfl⟩ := h
          refine ⟨p₁, f, l, p₂, rfl, ?_⟩
          simp only [allocs_cons, ha'] at hn; simpa using hn

/-- the same for a location designation: some later allocation at that location had exactly the
    designated local index -/
theorem firedAt_iff_exists (n : Int) (file : String) (line : Nat) (post : List Op) :
    firedAt n file line post = true ↔
      ∃ p₁ p₂, post = p₁ ++ Op.alloc file line :: p₂ ∧ n = ((allocsAt file line p₁ + 1 : Nat) : Int) := by
  induction post generalizing n with
  | nil =>
    rw [firedAt_iff, allocsAt_nil]
    constructor
    · intro h; omega
    · rintro ⟨p₁, p₂, h, _⟩; cases p₁ <;> simp at h
  | cons op post ih =>
    by_cases ha : op.isAllocAt file line = true
    · have hop : op = Op.alloc file line := by
        cases op <;> simp_all [Op.isAllocAt]
      subst hop
      have e1 : firedAt n file line (Op.alloc file line :: post) = true ↔
          (n = 1 ∨ firedAt (n - 1) file line post = true) := by
        rw [firedAt_iff, firedAt_iff]
        simp only [allocsAt_cons, ha, if_true]; omega
      rw [e1, ih (n - 1)]
      constructor
      · rintro (h | ⟨p₁, p₂, h, hn⟩)
        · exact ⟨[], post, rfl, by simp [allocsAt_nil]; omega⟩
        · refine ⟨Op.alloc file line :: p₁, p₂, by simp [h], ?_⟩
          simp only [allocsAt_cons, ha, if_true]; omega
      · rintro ⟨p₁, p₂, h, hn⟩
        cases p₁ with
        | nil => left; simp [allocsAt_nil] at hn; omega
        | cons a p₁ =>
          simp at h
          obtain ⟨rfl, rfl⟩ := h
          right
          refine ⟨p₁, p₂, rfl, ?_⟩
          simp only [allocsAt_cons, ha, if_true] at hn; omega
    · have ha' : op.isAllocAt file line = false := by simpa using ha
      have e1 : firedAt n file line (op :: post) = firedAt n file line post := by
        simp [firedAt, allocsAt_cons, ha']
      rw [e1, ih n]
      constructor
      · rintro ⟨p₁, p₂, h, hn⟩
        refine ⟨op :: p₁, p₂, by simp [h], ?_⟩
        simp only [allocsAt_cons, ha']; simpa using hn
      · rintro ⟨p₁, p₂, h, hn⟩
        cases p₁ with
        | nil => simp at h; rw [h.1] at ha; simp [Op.isAllocAt] at ha
        | cons a p₁ =>
          simp at h
          obtain ⟨rfl, rfl⟩ := h
          refine ⟨p₁, p₂, rfl, ?_⟩
          simp only [allocsAt_cons, ha'] at hn; simpa using hn

/-! ## clearing restores normal behaviour -/

theorem epoch_after_clear (h e : List Op) : epoch (h ++ Op.clear :: e) = epoch e := by
  simp [epoch, List.foldl_append]

/-- **After `clearFailedAllocs` the allocator behaves like a freshly constructed one**: whatever
    happened before, which allocations fail afterwards depends only on what is done after the
    clear (indices restart at 1, earlier designations are gone). -/
theorem clear_restores_normal (h e : List Op) (file : String) (line : Nat) :
    allocFails (run init (h ++ Op.clear :: e)) file line = allocFails (run init e) file line := by
  rw [Bool.eq_iff_iff, fails_iff_designated, fails_iff_designated]
  simp only [Designated, epoch_after_clear]

/-- in particular: after a clear, as long as no new designation is made, every allocation succeeds
    and the check is silent -/
theorem after_clear_no_failures (h e : List Op) (file : String) (line : Nat)
    (hd : ∀ op ∈ e, op.isDesignation = false) :
    allocFails (run init (h ++ Op.clear :: e)) file line = false ∧
    check (run init (h ++ Op.clear :: e)) = .ok := by
  have hno : ∀ op ∈ epoch e, op.isDesignation = false := by
    intro op hop
    rcases epoch_spec e with ⟨h1, _⟩ | ⟨p, hp⟩
    · rw [h1] at hop; exact hd op hop
    · apply hd op; rw [hp]; simp [hop]
  constructor
  · rw [clear_restores_normal, succeeds_iff_not_designated]
    rintro (hg | ⟨pre, n, post, hpp, _⟩)
    · have := hno _ hg; simp [Op.isDesignation] at this
    · have := hno (Op.failAt n file line) (by rw [hpp]; simp); simp [Op.isDesignation] at this
  · rw [check_ok_iff, unfired, epoch_after_clear]
    cases hu : unfiredFrom 0 (epoch e) with
    | nil => rfl
    | cons d rest =>
      have := unfiredFrom_designations 0 (epoch e) d (by rw [hu]; simp)
      have h2 := hno d this.2
      rw [this.1] at h2; cases h2

/-- the state after a clear: empty list, counter 0 -/
theorem clear_state (h : List Op) :
    (run init (h ++ [Op.clear])).nodes = [] ∧ (run init (h ++ [Op.clear])).current = 0 := by
  rw [run_append]; exact ⟨rfl, rfl⟩

/-! ## C level: the malloc countdown, strdup / strndup / calloc -/

open Gen.Failable

/-- **Countdown.**  After `cpputest_malloc_set_out_of_memory_countdown(n)` on a fresh state, the
    `k`-th allocating call (k = 1, 2, …) fails iff `0 ≤ n ≤ k`: with `n = 0` every allocation
    fails, with `n ≥ 1` exactly the allocations from the `n`-th on, with a negative `n` none. -/
theorem kth_malloc_fails_iff (n : Int) (k : Nat) :
    mallocNull (afterMallocs (setCountdown cinit n) k) = true ↔ (0 ≤ n ∧ n ≤ ((k + 1 : Nat) : Int)) := by
  obtain ⟨i1, i2, i3⟩ := afterMallocs_countdown_state n (k + 1)
  simp only [afterMallocs, mallocState] at i1 i2 i3
  unfold mallocNull
  rw [decide_eq_true_iff]
  constructor
  · intro h
    by_cases h0 : n < 0
    · have := (i1 h0).2; rw [h] at this; cases this
    · by_cases h1 : ((k + 1 : Nat) : Int) < n
      · have := (i2 (by omega) h1).2; rw [h] at this; cases this
      · omega
  · rintro ⟨h0, h1⟩
    exact (i3 h0 h1).2

/-- **`cpputest_malloc_set_not_out_of_memory` ends the simulation**: after ANY sequence of C-level
    calls, once it is called no allocation fails, however many follow. -/
theorem not_out_of_memory_restores (ops : List COp) (j : Nat) :
    mallocNull (afterMallocs (setNotOutOfMemory (crun cinit ops)) j) = false := by
  have hinv : CInv (crun cinit ops) := cinv_run ops cinit (Or.inl ⟨rfl, rfl⟩)
  have h2 : (setNotOutOfMemory (crun cinit ops)).cur = .normal := by
    rcases hinv with ⟨a, _⟩ | ⟨a, _⟩ <;> simp [setNotOutOfMemory, a]
  obtain ⟨a, b⟩ := afterMallocs_idle (setNotOutOfMemory (crun cinit ops)) rfl h2 j
  unfold mallocNull
  rw [countdown_idle _ (by rw [a]; simp [noCountdown]), b]
  rfl

/-- **strdup / strndup return NULL exactly when their allocation fails**, and count as one
    allocating call -/
theorem strdup_null_iff (c : CState) (str : List UInt8) :
    ((strdup c str).2 = none ↔ mallocNull c = true) ∧ (strdup c str).1 = mallocState c := by
  unfold strdup; cases mallocNull c <;> simp

theorem strndup_null_iff (c : CState) (str : List UInt8) (n : Nat) :
    ((strndup c str n).2 = none ↔ mallocNull c = true) ∧ (strndup c str n).1 = mallocState c := by
  unfold strndup; cases mallocNull c <;> simp

/-- a successful strdup / strndup holds the bytes of the C library counterpart -/
theorem strdup_content (c : CState) (str : List UInt8) (h : mallocNull c = false) :
    (strdup c str).2 = some (str ++ [0]) ∧ (strndup c str n).2 = some (str.take n ++ [0]) := by
  simp [strdup, strndup, h]

/-- **calloc returns NULL exactly when the product overflows or its allocation fails**; an
    overflowing request does not count as an allocating call; a successful one is zero filled -/
theorem calloc_null_iff (c : CState) (num size : Nat) :
    ((calloc c num size).2 = none ↔ (callocOverflows num size = true ∨ mallocNull c = true)) ∧
    (callocOverflows num size = true → (calloc c num size).1 = c) ∧
    (callocOverflows num size = false → (calloc c num size).1 = mallocState c) ∧
    (callocOverflows num size = false → mallocNull c = false →
      (calloc c num size).2 = some (List.replicate (num * size) 0)) := by
  unfold calloc
  cases h1 : callocOverflows num size <;> cases h2 : mallocNull c <;> simp

/-- under the countdown: the `k`-th allocating call being a strdup, it returns NULL iff `0 ≤ n ≤ k` -/
theorem kth_strdup_null_iff (n : Int) (k : Nat) (str : List UInt8) :
    (strdup (afterMallocs (setCountdown cinit n) k) str).2 = none ↔ (0 ≤ n ∧ n ≤ ((k + 1 : Nat) : Int)) := by
  rw [(strdup_null_iff _ _).1, kth_malloc_fails_iff]

/-! ## `malloc_count`, realloc, free -/

/-- **`cpputest_malloc_get_count()`** is the number of allocating calls since the last
    `cpputest_malloc_count_reset()`: every malloc, strdup, strndup and every calloc whose product does
    not overflow counts once, failing calls included; realloc, free and the control calls never. -/
theorem malloc_count_is_number_of_allocating_calls : ∀ (ops : List COp) (c : CState),
    (crun c ops).count = expectedCountFrom c.count ops
  | [], _ => rfl
  | op :: ops, c => by
    have ih := malloc_count_is_number_of_allocating_calls ops (cstep c op)
    have hs := cstep_count c op
    simp only [crun, List.foldl_cons] at ih ⊢
    rw [ih, hs]
    cases op <;> simp [expectedCountFrom, COp.allocating]

/-- a failing allocating call is counted exactly like a succeeding one -/
theorem failing_call_is_counted (c : CState) : (mallocState c).count = c.count + 1 := by
  simp [mallocState, countdown_count]

/-- **realloc and free are outside the countdown**: they change neither the counter, nor
    `malloc_count`, nor the current allocator — `cpputest_realloc` never consumes a tick and is never
    the allocation that a countdown fails. -/
theorem realloc_free_outside_countdown (c : CState) (e : Bool) :
    cstep c (.realloc e) = c ∧ cstep c .free = c := ⟨rfl, rfl⟩

/-- what realloc / free do while the null allocator is current (observation, not part of the
    property: the statement lists malloc/strdup/strndup/calloc): a tracked block is refused with the
    allocator-mismatch failure, `realloc(NULL, n)` crashes; otherwise both work -/
theorem realloc_under_out_of_memory (c : CState) :
    (c.cur = .null → reallocResult c true = .mismatch ∧ reallocResult c false = .crash ∧
      freeResult c = .mismatch) ∧
    (c.cur = .normal → ∀ e, reallocResult c e = .ok ∧ freeResult c = .ok) := by
  constructor
  · intro h; simp [reallocResult, freeResult, h]
  · intro h e; simp [reallocResult, freeResult, h]

/-! ## locations are compared by the content of the whole file string and the line -/

/-- an allocation at another file name (another directory prefix is another name) or another line
    neither advances the local index of a designation nor can be the designated one … -/
theorem other_location_does_not_count (file file' : String) (line line' : Nat) (e : List Op)
    (h : file' ≠ file ∨ line' ≠ line) :
    allocsAt file line (e ++ [Op.alloc file' line']) = allocsAt file line e := by
  have : Op.isAllocAt file line (Op.alloc file' line') = false := by
    simp only [Op.isAllocAt, decide_eq_false_iff_not]
    rintro ⟨rfl, rfl⟩
    rcases h with h | h <;> exact h rfl
  simp [allocsAt_append, allocsAt_cons, allocsAt_nil, this]

/-- … while a location is only its content: the model has no notion of "which pointer", so a
    designation made through one pointer selects the allocations reported through any other pointer
    with equal content (the harness drives two pool copies of "a.c" and its own copy of the
    overloads' "<unknown>"): right after `failNthAllocAt(1, file, line)` the next allocation at
    `(file, line)` is designated, whatever happened before -/
theorem designate_first_at_location (h : List Op) (file : String) (line : Nat) :
    Designated (h ++ [Op.failAt 1 file line]) file line := by
  right
  have he : epoch (h ++ [Op.failAt 1 file line]) = epoch h ++ [Op.failAt 1 file line] := by
    rw [epoch_snoc]; simp
  exact ⟨epoch h, 1, [], by rw [he], by simp [allocsAt_nil]⟩

/-! ## non-vacuity -/

/-- the two old defects as histories: designating the 2nd allocation at foo.c:10 does not fail the
    2nd allocation made elsewhere … -/
example : allocFails (run init [.failAt 2 "foo.c" 10, .alloc "bar.c" 1]) "bar.c" 2 = false := by decide
/-- … and designating the 1st and 2nd allocation at one location fails the 1st and the 2nd -/
example : allocFails (run init [.failAt 1 "foo.c" 10, .failAt 2 "foo.c" 10]) "foo.c" 10 = true ∧
    allocFails (run init [.failAt 1 "foo.c" 10, .failAt 2 "foo.c" 10, .alloc "foo.c" 10]) "foo.c" 10 = true ∧
    allocFails (run init [.failAt 1 "foo.c" 10, .failAt 2 "foo.c" 10, .alloc "foo.c" 10, .alloc "foo.c" 10])
      "foo.c" 10 = false := by decide
example : Designated [.failNum 2, .alloc "a.c" 1] "b.c" 7 := by
  rw [← designatedB_iff]; decide
example : unfired [.failNum 5, .failAt 1 "a.c" 3, .alloc "a.c" 3] = [.failNum 5] := by decide
example : check (run init [.failNum 5, .failAt 1 "a.c" 3, .alloc "a.c" 3]) = .neverDoneNumber 5 := by decide
example : mallocNull (afterMallocs (setCountdown cinit 3) 1) = false ∧
    mallocNull (afterMallocs (setCountdown cinit 3) 2) = true := by decide

end Failable
