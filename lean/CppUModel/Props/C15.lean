import CppUModel.Proofs.Failable
import CppUModel.Spec.FailableGen
/-!
# C15 — injected out-of-memory hits exactly the designated allocations

Property theorems only.  Model: `CppUModel/Model/Failable.lean` (from
`src/CppUTest/TestMemoryAllocator.cpp` — `FailableMemoryAllocator`, `LocationToFailAllocNode` — and
`src/CppUTest/TestHarness_c.cpp` — the malloc countdown, strdup/strndup/calloc); vocabulary:
`CppUModel/Spec/Failable.lean`.

What "index" means (Spec): the *global index* of an allocation counts the allocations since the
allocator was constructed or last cleared (`allocs (epoch h) + 1`); the *local index* relative to a
`failNthAllocAt(n, file, line)` counts the allocations at `(file, line)` (file compared by content)
made since THAT designation (`allocsAt file line post + 1`).

All theorems quantify over every history `h : List Op` (any length, any interleaving of
designations, allocations at any locations, checks and clears).  No distinctness hypothesis on the
designations is needed for the repaired code: several designations that select the same
allocation all fire (and are all consumed) at that allocation.
-/
namespace Failable

/-! ## which allocations fail -/

/-- **Exactly the designated allocations fail.**  After ANY history `h` since construction, the
    allocation at `(file, line)` returns NULL iff it is designated: its global index was designated
    by a `failAllocNumber` of the current epoch, or some `failNthAllocAt(n, file, line)` of the
    current epoch has it as its `n`-th allocation at that location. -/
theorem fails_iff_designated (h : List Op) (file : String) (line : Nat) :
    allocFails (run init h) file line = true ↔ Designated h file line := by
  obtain ⟨s0, hn, hcur, hrun⟩ := run_init_epoch h
  rw [hrun, allocFails_run_iff file line (epoch h) s0 (epoch_no_clear h)]
  simp only [hn, hcur, List.not_mem_nil, false_and, exists_false, false_or, Nat.zero_add]
  rfl

/-- every other allocation succeeds -/
theorem succeeds_iff_not_designated (h : List Op) (file : String) (line : Nat) :
    allocFails (run init h) file line = false ↔ ¬ Designated h file line := by
  rw [← fails_iff_designated]; simp

/-- the decidable form used by the run-time oracle is the same predicate -/
theorem designatedB_iff (h : List Op) (file : String) (line : Nat) :
    designatedB h file line = true ↔ Designated h file line := by
  simp only [designatedB, Bool.or_eq_true, List.contains_iff_mem, locDesignatedB_iff]
  rfl

/-- the epoch of a history is exactly what follows its last `clear` (the whole history if it was
    never cleared) and contains no `clear` -/
theorem epoch_is_since_last_clear (h : List Op) :
    Op.clear ∉ epoch h ∧ ((epoch h = h ∧ Op.clear ∉ h) ∨ ∃ p, h = p ++ Op.clear :: epoch h) :=
  ⟨epoch_no_clear h, epoch_spec h⟩

/-- A location designation selects at most one allocation: if the allocation after `post₁` is the
    one it designates, no later allocation at that location is. -/
theorem loc_designation_hits_once (n : Int) (file : String) (line : Nat) (post₁ mid : List Op)
    (h1 : n = ((allocsAt file line post₁ + 1 : Nat) : Int)) :
    n ≠ ((allocsAt file line (post₁ ++ Op.alloc file line :: mid) + 1 : Nat) : Int) := by
  simp only [allocsAt_append, allocsAt_cons, Op.isAllocAt, and_self, decide_true, if_true]
  omega

/-- A global designation selects at most one allocation of an epoch: global indices are strictly
    increasing. -/
theorem global_index_strictly_increases (e₁ mid : List Op) (file : String) (line : Nat) :
    allocs e₁ + 1 < allocs (e₁ ++ Op.alloc file line :: mid) + 1 := by
  simp only [allocs_append, allocs_cons, Op.isAlloc, if_true]; omega

/-! ## a designation is consumed exactly once -/

/-- **Every designation is consumed at most once.**  Along any history the designations (identified
    by their sequence number) split into: still linked, fired (unlinked and freed by an
    allocation), released by `clear` — each designation made so far occurs in exactly one of the
    three lists, exactly once.  In particular no designation fires twice and none is lost. -/
theorem fired_designation_consumed_once (h : List Op) :
    (((run init h).nodes.map (·.id)) ++ firedIds init h ++ clearedIds init h).Perm
      (List.range' 0 (run init h).nextId) := by
  simpa [init] using conservation h init

theorem fired_ids_nodup (h : List Op) :
    (firedIds init h).Nodup ∧ (∀ i ∈ firedIds init h, i ∉ (run init h).nodes.map (·.id)) := by
  have hp := fired_designation_consumed_once h
  have hn : (List.range' 0 (run init h).nextId).Nodup := List.nodup_range'
  have h2 := (hp.nodup_iff).mpr hn
  rw [List.append_assoc] at h2
  obtain ⟨_, h3, h4⟩ := List.nodup_append.mp h2
  refine ⟨(List.nodup_append.mp h3).1, ?_⟩
  intro i hi hmem
  exact h4 i hmem i (List.mem_append_left _ hi) rfl

/-- a node fires only together with a failing allocation, and a failing allocation frees at
    least one node -/
theorem fails_iff_some_node_consumed (s : State) (file : String) (line : Nat) :
    allocFails s file line = true ↔ allocFired s file line ≠ [] := by
  unfold allocFails
  cases h : allocFired s file line <;> simp

/-! ## the check reports what never happened -/

/-- **The linked list is exactly the list of designations that have not fired**, most recent
    first, after any history. -/
theorem pending_eq_unfired (h : List Op) :
    (run init h).nodes.map Node.desig = (unfired h).reverse := by
  obtain ⟨s0, hn, hcur, hrun⟩ := run_init_epoch h
  rw [hrun, nodes_run (epoch h) s0 (epoch_no_clear h), hn, hcur]
  simp [unfired]

/-- **`checkAllFailedAllocsWereDone`** passes iff every designation of the epoch has fired, and
    otherwise fails the test naming the most recent designation that never happened. -/
theorem unfired_reported_by_check (h : List Op) :
    check (run init h) = match (unfired h).getLast? with
      | none => .ok
      | some d => reportOf d := by
  rw [check_eq, pending_eq_unfired, List.head?_reverse]
  cases (unfired h).getLast? <;> rfl

/-- the check is silent iff nothing is outstanding -/
theorem check_ok_iff (h : List Op) : check (run init h) = .ok ↔ unfired h = [] := by
  rw [unfired_reported_by_check]
  cases hl : (unfired h).getLast? with
  | none => simp [List.getLast?_eq_none_iff.mp hl]
  | some d =>
    have hm : d ∈ unfired h := List.mem_of_getLast? hl
    have := reportOf_designation_ne_ok d (unfiredFrom_designations 0 (epoch h) d hm).1
    constructor
    · intro h1; exact absurd h1 this
    · intro h1; rw [h1] at hm; cases hm

/-- "has fired" (the arithmetic form used in `unfired`) means: some later allocation had exactly
    the designated global index -/
theorem firedNum_iff_exists (n : Int) : ∀ (post : List Op) (b : Nat),
    firedNum b n post = true ↔
      ∃ p₁ f l p₂, post = p₁ ++ Op.alloc f l :: p₂ ∧ n = ((b + allocs p₁ + 1 : Nat) : Int)
  | [], b => by
    rw [firedNum_iff, allocs_nil]
    constructor
    · intro h; omega
    · rintro ⟨p₁, f, l, p₂, h, _⟩; cases p₁ <;> simp at h
  | op :: post, b => by
    have ih := firedNum_iff_exists n post
    by_cases ha : op.isAlloc = true
    · obtain ⟨f0, l0, rfl⟩ : ∃ f0 l0, op = Op.alloc f0 l0 := by
        cases op <;> simp_all [Op.isAlloc]
      have e1 : firedNum b n (Op.alloc f0 l0 :: post) = true ↔
          (n = ((b + 1 : Nat) : Int) ∨ firedNum (b + 1) n post = true) := by
        rw [firedNum_iff, firedNum_iff]
        simp only [allocs_cons, Op.isAlloc, if_true]; omega
      rw [e1, ih (b + 1)]
      constructor
      · rintro (h | ⟨p₁, f, l, p₂, h, hn⟩)
        · exact ⟨[], f0, l0, post, rfl, by simp [allocs_nil]; omega⟩
        · refine ⟨Op.alloc f0 l0 :: p₁, f, l, p₂, by simp [h], ?_⟩
          simp only [allocs_cons, Op.isAlloc, if_true]; omega
      · rintro ⟨p₁, f, l, p₂, h, hn⟩
        cases p₁ with
        | nil => left; simp [allocs_nil] at hn; omega
        | cons a p₁ =>
          simp at h
          obtain ⟨rfl, rfl⟩ := h
          right
          refine ⟨p₁, f, l, p₂, rfl, ?_⟩
          simp only [allocs_cons, Op.isAlloc, if_true] at hn; omega
    · have ha' : op.isAlloc = false := by simpa using ha
      have e1 : firedNum b n (op :: post) = firedNum b n post := by
        simp [firedNum, allocs_cons, ha']
      rw [e1, ih b]
      constructor
      · rintro ⟨p₁, f, l, p₂, h, hn⟩
        refine ⟨op :: p₁, f, l, p₂, by simp [h], ?_⟩
        simp only [allocs_cons, ha']; simpa using hn
      · rintro ⟨p₁, f, l, p₂, h, hn⟩
        cases p₁ with
        | nil => simp at h; rw [h.1] at ha; simp [Op.isAlloc] at ha
        | cons a p₁ =>
          simp at h
          obtain ⟨rfl, rfl⟩ := h
          refine ⟨p₁, f, l, p₂, rfl, ?_⟩
          simp only [allocs_cons, ha'] at hn; simpa using hn

/-- the same for a location designation: some later allocation at that location had exactly the
    designated local index -/
theorem firedAt_iff_exists (n : Int) (file : String) (line : Nat) (post : List Op) :
    firedAt n file line post = true ↔
      ∃ p₁ p₂, post = p₁ ++ Op.alloc file line :: p₂ ∧ n = ((allocsAt file line p₁ + 1 : Nat) : Int) := by
  induction post generalizing n with
  | nil =>
    rw [firedAt_iff, allocsAt_nil]
    constructor
    · intro h; omega
    · rintro ⟨p₁, p₂, h, _⟩; cases p₁ <;> simp at h
  | cons op post ih =>
    by_cases ha : op.isAllocAt file line = true
    · have hop : op = Op.alloc file line := by
        cases op <;> simp_all [Op.isAllocAt]
      subst hop
      have e1 : firedAt n file line (Op.alloc file line :: post) = true ↔
          (n = 1 ∨ firedAt (n - 1) file line post = true) := by
        rw [firedAt_iff, firedAt_iff]
        simp only [allocsAt_cons, ha, if_true]; omega
      rw [e1, ih (n - 1)]
      constructor
      · rintro (h | ⟨p₁, p₂, h, hn⟩)
        · exact ⟨[], post, rfl, by simp [allocsAt_nil]; omega⟩
        · refine ⟨Op.alloc file line :: p₁, p₂, by simp [h], ?_⟩
          simp only [allocsAt_cons, ha, if_true]; omega
      · rintro ⟨p₁, p₂, h, hn⟩
        cases p₁ with
        | nil => left; simp [allocsAt_nil] at hn; omega
        | cons a p₁ =>
          simp at h
          obtain ⟨rfl, rfl⟩ := h
          right
          refine ⟨p₁, p₂, rfl, ?_⟩
          simp only [allocsAt_cons, ha, if_true] at hn; omega
    · have ha' : op.isAllocAt file line = false := by simpa using ha
      have e1 : firedAt n file line (op :: post) = firedAt n file line post := by
        simp [firedAt, allocsAt_cons, ha']
      rw [e1, ih n]
      constructor
      · rintro ⟨p₁, p₂, h, hn⟩
        refine ⟨op :: p₁, p₂, by simp [h], ?_⟩
        simp only [allocsAt_cons, ha']; simpa using hn
      · rintro ⟨p₁, p₂, h, hn⟩
        cases p₁ with
        | nil => simp at h; rw [h.1] at ha; simp [Op.isAllocAt] at ha
        | cons a p₁ =>
          simp at h
          obtain ⟨rfl, rfl⟩ := h
          refine ⟨p₁, p₂, rfl, ?_⟩
          simp only [allocsAt_cons, ha'] at hn; simpa using hn

/-! ## clearing restores normal behaviour -/

theorem epoch_after_clear (h e : List Op) : epoch (h ++ Op.clear :: e) = epoch e := by
  simp [epoch, List.foldl_append]

/-- **After `clearFailedAllocs` the allocator behaves like a freshly constructed one**: whatever
    happened before, which allocations fail afterwards depends only on what is done after the
    clear (indices restart at 1, earlier designations are gone). -/
theorem clear_restores_normal (h e : List Op) (file : String) (line : Nat) :
    allocFails (run init (h ++ Op.clear :: e)) file line = allocFails (run init e) file line := by
  rw [Bool.eq_iff_iff, fails_iff_designated, fails_iff_designated]
  simp only [Designated, epoch_after_clear]

/-- in particular: after a clear, as long as no new designation is made, every allocation succeeds
    and the check is silent -/
theorem after_clear_no_failures (h e : List Op) (file : String) (line : Nat)
    (hd : ∀ op ∈ e, op.isDesignation = false) :
    allocFails (run init (h ++ Op.clear :: e)) file line = false ∧
    check (run init (h ++ Op.clear :: e)) = .ok := by
  have hno : ∀ op ∈ epoch e, op.isDesignation = false := by
    intro op hop
    rcases epoch_spec e with ⟨h1, _⟩ | ⟨p, hp⟩
    · rw [h1] at hop; exact hd op hop
    · apply hd op; rw [hp]; simp [hop]
  constructor
  · rw [clear_restores_normal, succeeds_iff_not_designated]
    rintro (hg | ⟨pre, n, post, hpp, _⟩)
    · have := hno _ hg; simp [Op.isDesignation] at this
    · have := hno (Op.failAt n file line) (by rw [hpp]; simp); simp [Op.isDesignation] at this
  · rw [check_ok_iff, unfired, epoch_after_clear]
    cases hu : unfiredFrom 0 (epoch e) with
    | nil => rfl
    | cons d rest =>
      have := unfiredFrom_designations 0 (epoch e) d (by rw [hu]; simp)
      have h2 := hno d this.2
      rw [this.1] at h2; cases h2

/-- the state after a clear: empty list, counter 0 -/
theorem clear_state (h : List Op) :
    (run init (h ++ [Op.clear])).nodes = [] ∧ (run init (h ++ [Op.clear])).current = 0 := by
  rw [run_append]; exact ⟨rfl, rfl⟩

/-! ## C level: the malloc countdown, strdup / strndup / calloc -/

open Gen.Failable

/-- **Countdown.**  After `cpputest_malloc_set_out_of_memory_countdown(n)` on a fresh state, the
    `k`-th allocating call (k = 1, 2, …) fails iff `0 ≤ n ≤ k`: with `n = 0` every allocation
    fails, with `n ≥ 1` exactly the allocations from the `n`-th on, with a negative `n` none. -/
theorem kth_malloc_fails_iff (n : Int) (k : Nat) :
    mallocNull (afterMallocs (setCountdown cinit n) k) = true ↔ (0 ≤ n ∧ n ≤ ((k + 1 : Nat) : Int)) := by
  obtain ⟨i1, i2, i3⟩ := afterMallocs_countdown_state n (k + 1)
  simp only [afterMallocs, mallocState] at i1 i2 i3
  unfold mallocNull
  rw [decide_eq_true_iff]
  constructor
  · intro h
    by_cases h0 : n < 0
    · have := (i1 h0).2; rw [h] at this; cases this
    · by_cases h1 : ((k + 1 : Nat) : Int) < n
      · have := (i2 (by omega) h1).2; rw [h] at this; cases this
      · omega
  · rintro ⟨h0, h1⟩
    exact (i3 h0 h1).2

/-- **`cpputest_malloc_set_not_out_of_memory` ends the simulation**: after ANY sequence of C-level
    calls, once it is called no allocation fails, however many follow. -/
theorem not_out_of_memory_restores (ops : List COp) (j : Nat) :
    mallocNull (afterMallocs (setNotOutOfMemory (crun cinit ops)) j) = false := by
  have hinv : CInv (crun cinit ops) := cinv_run ops cinit (Or.inl ⟨rfl, rfl⟩)
  have h2 : (setNotOutOfMemory (crun cinit ops)).cur = .normal := by
    rcases hinv with ⟨a, _⟩ | ⟨a, _⟩ <;> simp [setNotOutOfMemory, a]
  obtain ⟨a, b⟩ := afterMallocs_idle (setNotOutOfMemory (crun cinit ops)) rfl h2 j
  unfold mallocNull
  rw [countdown_idle _ (by rw [a]; simp [noCountdown]), b]
  rfl

/-- **strdup / strndup return NULL exactly when their allocation fails**, and count as one
    allocating call -/
theorem strdup_null_iff (c : CState) (str : List UInt8) :
    ((strdup c str).2 = none ↔ mallocNull c = true) ∧ (strdup c str).1 = mallocState c := by
  unfold strdup; cases mallocNull c <;> simp

theorem strndup_null_iff (c : CState) (str : List UInt8) (n : Nat) :
    ((strndup c str n).2 = none ↔ mallocNull c = true) ∧ (strndup c str n).1 = mallocState c := by
  unfold strndup; cases mallocNull c <;> simp

/-- a successful strdup / strndup holds the bytes of the C library counterpart -/
theorem strdup_content (c : CState) (str : List UInt8) (h : mallocNull c = false) :
    (strdup c str).2 = some (str ++ [0]) ∧ (strndup c str n).2 = some (str.take n ++ [0]) := by
  simp [strdup, strndup, h]

/-- **calloc returns NULL exactly when the product overflows or its allocation fails**; an
    overflowing request does not count as an allocating call; a successful one is zero filled -/
theorem calloc_null_iff (c : CState) (num size : Nat) :
    ((calloc c num size).2 = none ↔ (callocOverflows num size = true ∨ mallocNull c = true)) ∧
    (callocOverflows num size = true → (calloc c num size).1 = c) ∧
    (callocOverflows num size = false → (calloc c num size).1 = mallocState c) ∧
    (callocOverflows num size = false → mallocNull c = false →
      (calloc c num size).2 = some (List.replicate (num * size) 0)) := by
  unfold calloc
  cases h1 : callocOverflows num size <;> cases h2 : mallocNull c <;> simp

/-- under the countdown: the `k`-th allocating call being a strdup, it returns NULL iff `0 ≤ n ≤ k` -/
theorem kth_strdup_null_iff (n : Int) (k : Nat) (str : List UInt8) :
    (strdup (afterMallocs (setCountdown cinit n) k) str).2 = none ↔ (0 ≤ n ∧ n ≤ ((k + 1 : Nat) : Int)) := by
  rw [(strdup_null_iff _ _).1, kth_malloc_fails_iff]

/-! ## `malloc_count`, realloc, free -/

/-- **`cpputest_malloc_get_count()`** is the number of allocating calls since the last
    `cpputest_malloc_count_reset()`: every malloc, strdup, strndup and every calloc whose product does
    not overflow counts once, failing calls included; realloc, free and the control calls never. -/
theorem malloc_count_is_number_of_allocating_calls : ∀ (ops : List COp) (c : CState),
    (crun c ops).count = expectedCountFrom c.count ops
  | [], _ => rfl
  | op :: ops, c => by
    have ih := malloc_count_is_number_of_allocating_calls ops (cstep c op)
    have hs := cstep_count c op
    simp only [crun, List.foldl_cons] at ih ⊢
    rw [ih, hs]
    cases op <;> simp [expectedCountFrom, COp.allocating]

/-- a failing allocating call is counted exactly like a succeeding one -/
theorem failing_call_is_counted (c : CState) : (mallocState c).count = c.count + 1 := by
  simp [mallocState, countdown_count]

/-- **realloc and free are outside the countdown**: they change neither the counter, nor
    `malloc_count`, nor the current allocator — `cpputest_realloc` never consumes a tick and is never
    the allocation that a countdown fails. -/
theorem realloc_free_outside_countdown (c : CState) (e : Bool) :
    cstep c (.realloc e) = c ∧ cstep c .free = c := ⟨rfl, rfl⟩

/-- what realloc / free do while the null allocator is current (observation, not part of the
    property: the statement lists malloc/strdup/strndup/calloc): a tracked block is refused with the
    allocator-mismatch failure, `realloc(NULL, n)` crashes; otherwise both work -/
theorem realloc_under_out_of_memory (c : CState) :
    (c.cur = .null → reallocResult c true = .mismatch ∧ reallocResult c false = .crash ∧
      freeResult c = .mismatch) ∧
    (c.cur = .normal → ∀ e, reallocResult c e = .ok ∧ freeResult c = .ok) := by
  constructor
  · intro h; simp [reallocResult, freeResult, h]
  · intro h e; simp [reallocResult, freeResult, h]

/-! ## locations are compared by the content of the whole file string and the line -/

/-- an allocation at another file name (another directory prefix is another name) or another line
    neither advances the local index of a designation nor can be the designated one … -/
theorem other_location_does_not_count (file file' : String) (line line' : Nat) (e : List Op)
    (h : file' ≠ file ∨ line' ≠ line) :
    allocsAt file line (e ++ [Op.alloc file' line']) = allocsAt file line e := by
  have : Op.isAllocAt file line (Op.alloc file' line') = false := by
    simp only [Op.isAllocAt, decide_eq_false_iff_not]
    rintro ⟨rfl, rfl⟩
    rcases h with h | h <;> exact h rfl
  simp [allocsAt_append, allocsAt_cons, allocsAt_nil, this]

/-- … while a location is only its content: the model has no notion of "which pointer", so a
    designation made through one pointer selects the allocations reported through any other pointer
    with equal content (the harness drives two pool copies of "a.c" and its own copy of the
    overloads' "<unknown>"): right after `failNthAllocAt(1, file, line)` the next allocation at
    `(file, line)` is designated, whatever happened before -/
theorem designate_first_at_location (h : List Op) (file : String) (line : Nat) :
    Designated (h ++ [Op.failAt 1 file line]) file line := by
  right
  have he : epoch (h ++ [Op.failAt 1 file line]) = epoch h ++ [Op.failAt 1 file line] := by
    rw [epoch_snoc]; simp
  exact ⟨epoch h, 1, [], by rw [he], by simp [allocsAt_nil]⟩

/-! ## regenerated code

`Gen/FailableCode.lean` is translated from the function bodies of `/repo` on every run
(`translate/extract_failable_code.py`).  Each regenerated definition is proved equal to the hand model the
theorems above are about; the `regenerated_…` theorems then restate the property for histories executed
by the regenerated definitions themselves. -/


theorem gen_shouldFail_eq (nd : Node) (cur : Nat) (file : String) (line : Nat) :
    Gen.Failable.shouldFail nd cur file line = nd.visit cur file line := by
  unfold Gen.Failable.shouldFail Node.visit
  -- `rfl` for the source as it is; the fallback absorbs reordered / mirrored comparisons
  cases nd.file with
  | none => first | rfl | simp [eq_comm]
  | some f =>
    first
    | rfl
    | (simp only []
       by_cases h1 : file = f <;> by_cases h2 : line = nd.line <;> simp [h1, h2, eq_comm, and_comm] <;> simp_all [eq_comm])

theorem gen_node_number (raw : Node) (n : Int) :
    Gen.Failable.nodeFailAtAllocNumber raw n = { id := raw.id, number := n, actual := 0, file := none, line := 0 } := rfl

theorem gen_node_location (raw : Node) (n : Int) (file : String) (line : Nat) :
    Gen.Failable.nodeFailNthAllocAt raw n file line =
      { id := raw.id, number := n, actual := 0, file := some file, line := line } := rfl

theorem gen_init_eq : Gen.Failable.init = init := rfl

theorem gen_failAllocNumber_eq (raw : Node) (s : State) (n : Int) :
    Gen.Failable.failAllocNumber raw s n = failAllocNumber s n := rfl

theorem gen_failNthAllocAt_eq (raw : Node) (s : State) (n : Int) (file : String) (line : Nat) :
    Gen.Failable.failNthAllocAt raw s n file line = failNthAllocAt s n file line := rfl

theorem gen_walk_eq (s : State) (file : String) (line : Nat) : ∀ nodes : List Node,
    Gen.Failable.walk s file line nodes = walk s.current file line nodes
  | [] => rfl
  | nd :: rest => by
    have ih := gen_walk_eq s file line rest
    unfold Gen.Failable.walk walk
    simp only [Gen.Failable.allocVisit, gen_shouldFail_eq, ih]

theorem gen_allocMemory_eq (s : State) (file : String) (line : Nat) :
    Gen.Failable.allocMemory s file line = (allocState s file line, allocFired s file line, allocFails s file line) := by
  simp only [Gen.Failable.allocMemory, gen_walk_eq, Gen.Failable.allocPre, allocState, allocFired, allocFails]

theorem gen_check_eq (s : State) : Gen.Failable.check s = check s := by
  unfold Gen.Failable.check check
  cases s.nodes <;> rfl

theorem gen_clear_eq (s : State) : Gen.Failable.clear s = clear s ∧ Gen.Failable.clearFreed s = clearFreed s := ⟨rfl, rfl⟩


theorem gen_cinit_eq : Gen.Failable.cinit = cinit := rfl

theorem gen_setOutOfMemory_eq (c : CState) : Gen.Failable.setOutOfMemory c = setOutOfMemory c := by
  unfold Gen.Failable.setOutOfMemory setOutOfMemory
  cases h : c.orig <;> simp

theorem gen_setNotOutOfMemory_eq (c : CState) : Gen.Failable.setNotOutOfMemory c = setNotOutOfMemory c := rfl

theorem gen_setCountdown_eq (c : CState) (n : Int) : Gen.Failable.setCountdown c n = setCountdown c n := by
  unfold Gen.Failable.setCountdown setCountdown
  simp only [gen_setOutOfMemory_eq]

theorem gen_countdown_eq (c : CState) : Gen.Failable.countdown c = countdown c := by
  unfold Gen.Failable.countdown countdown
  simp only [gen_setOutOfMemory_eq]
  -- closed here for the source as it is; the fallback absorbs merged / reordered early returns
  try (by_cases h1 : c.counter ≤ Gen.Failable.noCountdown <;> by_cases h2 : c.counter = Gen.Failable.outOfMemory <;>
        by_cases h3 : c.counter - 1 = Gen.Failable.outOfMemory <;> simp [h1, h2, h3])

theorem gen_mallocState_eq (c : CState) :
    Gen.Failable.mallocState c = mallocState c ∧ Gen.Failable.mallocNull c = mallocNull c := by
  unfold Gen.Failable.mallocNull Gen.Failable.mallocState mallocState mallocNull
  simp only [gen_countdown_eq, and_self]
  -- closed here for the source as it is; the fallback absorbs `malloc_count++` in front of `countdown()`
  try (simp only [countdown_count_comm, countdown_count]; simp)

theorem gen_callocOverflows_eq (num size : Nat) : Gen.Failable.callocOverflows num size = callocOverflows num size := rfl

theorem gen_strdup_eq (c : CState) (str : List UInt8) (n : Nat) :
    Gen.Failable.strdup c str = strdup c str ∧ Gen.Failable.strndup c str n = strndup c str n := by
  unfold Gen.Failable.strdup Gen.Failable.strndup strdup strndup
  simp only [(gen_mallocState_eq c).1, (gen_mallocState_eq c).2]
  have h1 : 1 + str.length - 1 = str.length := by omega
  have h2 : List.take ((if str.length < n then str.length else n) + 1 - 1) str = List.take n str := by
    split
    · rw [Nat.add_sub_cancel, List.take_length, List.take_of_length_le (by omega)]
    · rw [Nat.add_sub_cancel]
  rw [h1, List.take_length, h2]
  exact ⟨rfl, rfl⟩

theorem gen_calloc_eq (c : CState) (num size : Nat) : Gen.Failable.calloc c num size = calloc c num size := by
  unfold Gen.Failable.calloc calloc
  simp only [(gen_mallocState_eq c).1, (gen_mallocState_eq c).2, gen_callocOverflows_eq]

theorem gen_count_eq (c : CState) :
    Gen.Failable.countReset c = { c with count := 0 } ∧ Gen.Failable.getCount c = (c, c.count) ∧
    Gen.Failable.reallocState c = c ∧ Gen.Failable.freeState c = c := ⟨rfl, rfl, rfl, rfl⟩

theorem genStep_eq (raw : Node) (s : State) (op : Op) : genStep raw s op = step s op := by
  cases op <;> simp [genStep, step, gen_failAllocNumber_eq, gen_failNthAllocAt_eq, gen_allocMemory_eq, (gen_clear_eq s).1]

theorem genRun_eq (raw : Node) : ∀ (h : List Op) (s : State), genRun raw s h = run s h
  | [], _ => rfl
  | op :: h, s => by
    have ih := genRun_eq raw h (step s op)
    simp only [genRun, run, List.foldl_cons, genStep_eq] at ih ⊢
    exact ih

theorem genCstep_eq (c : CState) (op : COp) : genCstep c op = cstep c op := by
  cases op with
  | strdup s => simp only [genCstep, cstep, (gen_strdup_eq c s 0).1]
  | strndup s n => simp only [genCstep, cstep, (gen_strdup_eq c s n).2]
  | _ => simp [genCstep, cstep, gen_setCountdown_eq, gen_setOutOfMemory_eq, gen_setNotOutOfMemory_eq,
      (gen_mallocState_eq c).1, gen_calloc_eq, (gen_count_eq c)]

theorem genCrun_eq : ∀ (ops : List COp) (c : CState), genCrun c ops = crun c ops
  | [], _ => rfl
  | op :: ops, c => by
    have ih := genCrun_eq ops (cstep c op)
    simp only [genCrun, crun, List.foldl_cons, genCstep_eq] at ih ⊢
    exact ih

theorem genAfterMallocs_eq (c : CState) : ∀ k, genAfterMallocs c k = afterMallocs c k
  | 0 => rfl
  | k + 1 => by simp only [genAfterMallocs, afterMallocs, genAfterMallocs_eq c k, (gen_mallocState_eq _).1]


/-- a fresh node is fully initialised: nothing of the uninitialised memory `raw` survives except the
    (ghost) identity of the node -/
theorem fresh_node_fully_initialised (raw₁ raw₂ : Node) (h : raw₁.id = raw₂.id) (n : Int) (file : String) (line : Nat) :
    Gen.Failable.nodeFailAtAllocNumber raw₁ n = Gen.Failable.nodeFailAtAllocNumber raw₂ n ∧
    Gen.Failable.nodeFailNthAllocAt raw₁ n file line = Gen.Failable.nodeFailNthAllocAt raw₂ n file line := by
  simp [gen_node_number, gen_node_location, h]

/-- **Exactly the designated allocations fail — for the regenerated code.**  After any history executed by the
    definitions translated from the current source, `alloc_memory(size, file, line)` returns NULL iff the
    allocation is designated. -/
theorem regenerated_fails_iff_designated (raw : Node) (h : List Op) (file : String) (line : Nat) :
    genFails (genRun raw Gen.Failable.init h) file line = true ↔ Designated h file line := by
  rw [genFails, gen_allocMemory_eq, genRun_eq, gen_init_eq]
  exact fails_iff_designated h file line

/-- the regenerated `checkAllFailedAllocsWereDone` reports the most recent designation that never happened,
    and nothing iff there is none -/
theorem regenerated_check_reports_unfired (raw : Node) (h : List Op) :
    Gen.Failable.check (genRun raw Gen.Failable.init h) = (match (unfired h).getLast? with
      | none => .ok
      | some d => reportOf d) ∧
    (Gen.Failable.check (genRun raw Gen.Failable.init h) = .ok ↔ unfired h = []) := by
  rw [gen_check_eq, genRun_eq, gen_init_eq]
  exact ⟨unfired_reported_by_check h, check_ok_iff h⟩

/-- the regenerated `clearFailedAllocs` restores the behaviour of a fresh allocator -/
theorem regenerated_clear_restores_normal (raw : Node) (h e : List Op) (file : String) (line : Nat) :
    genFails (genRun raw Gen.Failable.init (h ++ Op.clear :: e)) file line =
      genFails (genRun raw Gen.Failable.init e) file line := by
  simp only [genFails, gen_allocMemory_eq, genRun_eq, gen_init_eq]
  exact clear_restores_normal h e file line

/-- the countdown theorem for the regenerated C-level functions -/
theorem regenerated_kth_malloc_fails_iff (n : Int) (k : Nat) :
    Gen.Failable.mallocNull (genAfterMallocs (Gen.Failable.setCountdown Gen.Failable.cinit n) k) = true ↔
      (0 ≤ n ∧ n ≤ ((k + 1 : Nat) : Int)) := by
  rw [(gen_mallocState_eq _).2, genAfterMallocs_eq, gen_setCountdown_eq, gen_cinit_eq]
  exact kth_malloc_fails_iff n k

/-- … and `cpputest_malloc_set_not_out_of_memory` ends the simulation after any history of regenerated calls -/
theorem regenerated_not_out_of_memory_restores (ops : List COp) (j : Nat) :
    Gen.Failable.mallocNull (genAfterMallocs (Gen.Failable.setNotOutOfMemory (genCrun Gen.Failable.cinit ops)) j) = false := by
  rw [(gen_mallocState_eq _).2, genAfterMallocs_eq, gen_setNotOutOfMemory_eq, genCrun_eq, gen_cinit_eq]
  exact not_out_of_memory_restores ops j

/-- `malloc_count` of the regenerated code is the number of allocating calls since the last reset -/
theorem regenerated_malloc_count (ops : List COp) :
    (Gen.Failable.getCount (genCrun Gen.Failable.cinit ops)).2 = expectedCountFrom 0 ops := by
  rw [(gen_count_eq _).2.1, genCrun_eq, gen_cinit_eq]
  exact malloc_count_is_number_of_allocating_calls ops cinit

/-- regenerated strdup / strndup / calloc return NULL exactly when their allocation fails (calloc also when the
    regenerated overflow guard fires) -/
theorem regenerated_strdup_calloc_null_iff (c : CState) (str : List UInt8) (n num size : Nat) :
    ((Gen.Failable.strdup c str).2 = none ↔ Gen.Failable.mallocNull c = true) ∧
    ((Gen.Failable.strndup c str n).2 = none ↔ Gen.Failable.mallocNull c = true) ∧
    ((Gen.Failable.calloc c num size).2 = none ↔
      (Gen.Failable.callocOverflows num size = true ∨ Gen.Failable.mallocNull c = true)) := by
  rw [(gen_strdup_eq c str n).1, (gen_strdup_eq c str n).2, gen_calloc_eq, (gen_mallocState_eq c).2, gen_callocOverflows_eq]
  exact ⟨(strdup_null_iff c str).1, (strndup_null_iff c str n).1, (calloc_null_iff c num size).1⟩

/-- the regenerated overflow guard is the mathematical one: the product does not fit 64 bits -/
theorem regenerated_calloc_guard_iff (num size : Nat) :
    Gen.Failable.callocOverflows num size = true ↔ num * size ≥ 2 ^ 64 := by
  unfold Gen.Failable.callocOverflows
  rw [decide_eq_true_iff]
  constructor
  · rintro ⟨h0, h1⟩
    have hs : 0 < size := Nat.pos_of_ne_zero h0
    have := (Nat.div_lt_iff_lt_mul hs).mp h1
    omega
  · intro h
    have h0 : size ≠ 0 := by rintro rfl; simp at h
    refine ⟨h0, ?_⟩
    have hs : 0 < size := Nat.pos_of_ne_zero h0
    apply (Nat.div_lt_iff_lt_mul hs).mpr
    omega

/-! ## the C-level API on top of an installed `FailableMemoryAllocator` -/

theorem genMallocOver_eq (b : Both) (file : String) (line : Nat) :
    genMallocOver b file line = mallocOver b file line := by
  unfold genMallocOver mallocOver
  simp only [(gen_mallocState_eq b.c).1, gen_allocMemory_eq]
  cases (mallocState b.c).cur <;> rfl

theorem genOver_eq (b : Both) (str : List UInt8) (n num size : Nat) (file : String) (line : Nat) :
    genStrdupOver b str file line = strdupOver b str file line ∧
    genStrndupOver b str n file line = strndupOver b str n file line ∧
    genCallocOver b num size file line = callocOver b num size file line := by
  simp only [genStrdupOver, genStrndupOver, genCallocOver, strdupOver, strndupOver, callocOver, genMallocOver_eq,
    gen_callocOverflows_eq, and_self]

/-- **Which allocations of the malloc path fail**: exactly those that the simulated out-of-memory refuses, and those
    that reach an installed failable allocator and are refused by it. -/
theorem mallocOver_null_iff (b : Both) (file : String) (line : Nat) :
    (mallocOver b file line).isNull = true ↔
      (mallocNull b.c = true ∨ ((mallocState b.c).cur = .failable ∧ allocFails b.fa file line = true)) := by
  unfold mallocOver mallocNull
  have hc : (countdown b.c).cur = (mallocState b.c).cur := rfl
  rw [hc]
  cases h : (mallocState b.c).cur <;> simp

/-- an allocation refused by the simulated out-of-memory never reaches the failable allocator: no designation is
    consumed, no index moves -/
theorem out_of_memory_hides_allocation (b : Both) (file : String) (line : Nat) (h : mallocNull b.c = true) :
    (mallocOver b file line).st.fa = b.fa ∧ (mallocOver b file line).fired = [] ∧
    (mallocOver b file line).st.c = mallocState b.c := by
  have h' : (mallocState b.c).cur = .null := by
    have : (countdown b.c).cur = .null := by simpa [mallocNull] using h
    exact this
  unfold mallocOver
  rw [h']
  exact ⟨rfl, rfl, rfl⟩

/-- an allocation that reaches the installed failable allocator is decided by it alone, at the file and line the
    caller gave -/
theorem mallocOver_reaches_failable (b : Both) (file : String) (line : Nat) (h : (mallocState b.c).cur = .failable) :
    (mallocOver b file line).st.fa = allocState b.fa file line ∧
    (mallocOver b file line).fired = allocFired b.fa file line ∧
    (mallocOver b file line).isNull = allocFails b.fa file line := by
  unfold mallocOver
  rw [h]
  exact ⟨rfl, rfl, rfl⟩

/-- **strdup / strndup / calloc return NULL exactly when the allocation they rely on fails** — whichever mechanism
    makes it fail (calloc also when its product overflows, in which case nothing is asked) -/
theorem over_null_iff (b : Both) (str : List UInt8) (n num size : Nat) (file : String) (line : Nat) :
    ((strdupOver b str file line).2 = none ↔ (mallocOver b file line).isNull = true) ∧
    ((strndupOver b str n file line).2 = none ↔ (mallocOver b file line).isNull = true) ∧
    ((callocOver b num size file line).2 = none ↔
      (callocOverflows num size = true ∨ (mallocOver b file line).isNull = true)) ∧
    (callocOverflows num size = true → (callocOver b num size file line).1.st = b) := by
  unfold strdupOver strndupOver callocOver
  cases h1 : callocOverflows num size <;> cases h2 : (mallocOver b file line).isNull <;> simp

/-- end to end: a failable allocator installed as the malloc allocator, no out-of-memory simulated; after ANY
    history `h` of the allocator, `strdup` at `(file, line)` returns NULL iff that allocation is designated -/
theorem strdup_null_iff_designated (c : CState) (hc : c.counter = Gen.Failable.noCountdown) (hcur : c.cur = .failable)
    (h : List Op) (str : List UInt8) (n num size : Nat) (hov : callocOverflows num size = false) (file : String) (line : Nat) :
    ((strdupOver { c := c, fa := run init h } str file line).2 = none ↔ Designated h file line) ∧
    ((strndupOver { c := c, fa := run init h } str n file line).2 = none ↔ Designated h file line) ∧
    ((callocOver { c := c, fa := run init h } num size file line).2 = none ↔ Designated h file line) := by
  have hid : countdown c = c := countdown_idle c (by rw [hc]; simp [Gen.Failable.noCountdown])
  have hms : (mallocState c).cur = .failable := by simp [mallocState, hid, hcur]
  have hnn : mallocNull c = false := by simp [mallocNull, hid, hcur]
  have key : (mallocOver { c := c, fa := run init h } file line).isNull = true ↔ Designated h file line := by
    rw [mallocOver_null_iff, ← fails_iff_designated]
    simp [hnn, hms]
  obtain ⟨a1, a2, a3, _⟩ := over_null_iff { c := c, fa := run init h } str n num size file line
  rw [a1, a2, a3, key]
  simp [hov]

/-- **The countdown on top of an installed allocator** `a` (the failable one, or any other): the `k`-th allocating call
    asks the null allocator iff `0 ≤ n ≤ k`, and `a` otherwise -/
theorem countdown_keeps_installed_allocator (a : Alloc) (n : Int) (k : Nat) :
    (mallocState (afterMallocs (setCountdown { cinit with cur := a } n) k)).cur =
      if 0 ≤ n ∧ n ≤ ((k + 1 : Nat) : Int) then .null else a := by
  obtain ⟨i1, i2, i3⟩ := afterMallocs_countdown_state_over a n (k + 1)
  simp only [afterMallocs] at i1 i2 i3
  by_cases h0 : n < 0
  · rw [(i1 h0).2.1, if_neg (by omega)]
  · by_cases h1 : ((k + 1 : Nat) : Int) < n
    · rw [(i2 (by omega) h1).2.1, if_neg (by omega)]
    · rw [(i3 (by omega) (by omega)).2.1, if_pos (by omega)]

/-- once the countdown has expired, `cpputest_malloc_set_not_out_of_memory` re-installs the allocator that was
    installed before -/
theorem not_out_of_memory_reinstalls (a : Alloc) (n : Int) (k : Nat) (h0 : 0 ≤ n) (hk : n ≤ (k : Int)) :
    (setNotOutOfMemory (afterMallocs (setCountdown { cinit with cur := a } n) k)).cur = a ∧
    (setNotOutOfMemory (afterMallocs (setCountdown { cinit with cur := a } n) k)).orig = none ∧
    (setNotOutOfMemory (afterMallocs (setCountdown { cinit with cur := a } n) k)).counter = Gen.Failable.noCountdown := by
  obtain ⟨_, _, i3⟩ := afterMallocs_countdown_state_over a n k
  obtain ⟨_, _, z⟩ := i3 h0 hk
  simp [setNotOutOfMemory, z]

/-- observation (outside the property, see ASSUMPTIONS): called while nothing is simulated,
    `cpputest_malloc_set_not_out_of_memory` makes the DEFAULT allocator current, i.e. it uninstalls an installed one -/
theorem stray_not_out_of_memory_resets (c : CState) (h : c.orig = none) : (setNotOutOfMemory c).cur = .normal := by
  simp [setNotOutOfMemory, h]

/-! ## whole histories -/

theorem outcomes_run : ∀ (h pre : List Op), outcomes (run init pre) h = designatedOutcomes pre h
  | [], _ => rfl
  | op :: h, pre => by
    have hstep : step (run init pre) op = run init (pre ++ [op]) := by rw [run_append]; rfl
    have ih := outcomes_run h (pre ++ [op])
    cases op with
    | alloc f l =>
      have hs : allocState (run init pre) f l = run init (pre ++ [Op.alloc f l]) := hstep
      have hb : allocFails (run init pre) f l = designatedB pre f l := by
        rw [Bool.eq_iff_iff, fails_iff_designated, designatedB_iff]
      simp only [outcomes, designatedOutcomes, hs, ih, hb]
    | failNum n => simp only [outcomes, designatedOutcomes, hstep, ih]
    | failAt n f l => simp only [outcomes, designatedOutcomes, hstep, ih]
    | check => simp only [outcomes, designatedOutcomes, hstep, ih]
    | clear => simp only [outcomes, designatedOutcomes, hstep, ih]

/-- **End to end.**  The NULL / non-NULL results of ALL allocations of a whole history — any interleaving of
    designations, allocations at any locations, checks and clears, of any length — are exactly what the history of
    calls designates: the list of results computed by the allocator equals the list computed from the calls alone. -/
theorem whole_history_outcomes (h : List Op) : outcomes init h = designatedOutcomes [] h := outcomes_run h []

theorem failures_le_fired : ∀ (h : List Op) (s : State), (outcomes s h).count true ≤ (firedIds s h).length
  | [], _ => by simp [outcomes, firedIds]
  | op :: h, s => by
    cases op with
    | alloc f l =>
      have ih := failures_le_fired h (allocState s f l)
      simp only [outcomes, firedIds, List.count_cons, List.length_append, List.length_map]
      by_cases hf : allocFails s f l = true
      · have : allocFired s f l ≠ [] := (fails_iff_some_node_consumed s f l).mp hf
        have : 1 ≤ (allocFired s f l).length := by
          cases hl : allocFired s f l with
          | nil => exact absurd hl this
          | cons a t => simp
        simp [hf]; omega
      · simp [hf]; omega
    | failNum n => simpa only [outcomes, firedIds] using failures_le_fired h _
    | failAt n f l => simpa only [outcomes, firedIds] using failures_le_fired h _
    | check => simpa only [outcomes, firedIds] using failures_le_fired h _
    | clear => simpa only [outcomes, firedIds] using failures_le_fired h _

theorem nextId_counts_designations : ∀ (h : List Op) (s : State),
    (run s h).nextId = s.nextId + h.countP Op.isDesignation
  | [], _ => by simp [run]
  | op :: h, s => by
    rw [run_cons, nextId_counts_designations h (step s op), List.countP_cons]
    cases op <;> simp [step, failAllocNumber, failNthAllocAt, allocState, clear, Op.isDesignation] <;> omega

/-- **No history fails more allocations than it designates**: every failing allocation consumes at least one
    designation and no designation is consumed twice. -/
theorem failures_le_designations (h : List Op) :
    (outcomes init h).count true ≤ h.countP Op.isDesignation := by
  have h1 := failures_le_fired h init
  have h2 := (fired_designation_consumed_once h).length_eq
  have h3 := nextId_counts_designations h init
  have hi : init.nextId = 0 := rfl
  simp only [List.length_append, List.length_range', List.length_map] at h2
  rw [hi] at h3
  omega

/-- without any designation no allocation of the history fails -/
theorem no_designation_no_failure (h : List Op) (hd : ∀ op ∈ h, op.isDesignation = false) :
    ∀ b ∈ outcomes init h, b = false := by
  have h0 : h.countP Op.isDesignation = 0 := by
    rw [List.countP_eq_zero]; intro op hop; simp [hd op hop]
  have := failures_le_designations h
  rw [h0] at this
  intro b hb
  cases b with
  | false => rfl
  | true => exact absurd (List.count_pos_iff.mpr hb) (by omega)

/-- the failure text of `checkAllFailedAllocsWereDone`, as regenerated: the format strings of the current source
    filled with the head designation -/
theorem check_text (f : String) (l : Nat) (n : Int) :
    checkText .ok = none ∧
    checkText (.neverDoneAt f l) =
      some ((Gen.Failable.checkFormatAt.replace "%s" f).replace "%d" (toString (int32 l))) ∧
    checkText (.neverDoneNumber n) = some (Gen.Failable.checkFormatNumber.replace "%d" (toString n)) ∧
    (l < 2 ^ 31 → int32 l = (l : Int)) := by
  refine ⟨rfl, rfl, rfl, ?_⟩
  intro hl
  unfold int32
  have : l % 2 ^ 32 = l := Nat.mod_eq_of_lt (by omega)
  rw [this, if_pos hl]

/-! ## the `operator new` overloads in front of the allocator: default and thread-safe mode -/

/-- the regenerated tables (form → function pointer → function installed by
    `turnOnDefaultNotThreadSafeNewDeleteOverloads` / `turnOnThreadSafeNewDeleteOverloads` → does the body throw on NULL)
    say what C++ promises: in BOTH overload modes the four throwing forms turn a refused allocation into
    `std::bad_alloc` and the two nothrow forms hand NULL to the caller -/
theorem gen_formThrows_eq (ts : Bool) (form : String) (hf : form ∈ newForms) :
    formThrows ts form = formThrowsSpec form := by
  simp only [newForms, List.mem_cons, List.not_mem_nil, or_false] at hf
  rcases hf with h | h | h | h | h | h <;> subst h <;> cases ts <;> decide

/-- every overload mode installs a function for every form, and it is the form's own (`threadsafe_`)`mem_leak_` function -/
theorem installed_new_functions (form : String) (hf : form ∈ newForms) :
    installedNew false form = some ("mem_leak_" ++ form) ∧ installedNew true form = some ("threadsafe_mem_leak_" ++ form) := by
  simp only [newForms, List.mem_cons, List.not_mem_nil, or_false] at hf
  rcases hf with h | h | h | h | h | h <;> subst h <;> decide

theorem familyForm_mem (fam form : String) (h : familyForm fam = some form) : form ∈ newForms := by
  unfold familyForm at h
  split at h <;> simp_all [newForms]

/-- what the caller sees is fixed by the allocator's answer and the family alone -/
theorem outcome_eq (ts : Bool) (fam : String) (fails : Bool) :
    outcome ts fam fails = if fails then failureKind fam else .ok := by
  unfold outcome failureKind
  cases fails with
  | false => simp
  | true =>
    cases hf : familyForm fam with
    | none => simp
    | some form => simp [gen_formThrows_eq ts form (familyForm_mem fam form hf)]

/-- **The outcome of an allocation does not depend on the overload mode**: whatever the allocator answers, the caller of
    any family sees the same thing with the thread-safe overloads as with the default ones -/
theorem outcome_independent_of_overload_mode (fam : String) (fails : Bool) :
    outcome true fam fails = outcome false fam fails := by
  rw [outcome_eq, outcome_eq]

/-- **Exactly the designated allocations fail, each in its family's way, in both overload modes** (regenerated allocator
    code behind regenerated overload tables): after any history the allocation at `(file, line)` made through family
    `fam` throws `std::bad_alloc` (throwing `new` / `new[]` forms) resp. returns NULL (nothrow forms, malloc family,
    direct call) iff it is designated, and succeeds otherwise -/
theorem regenerated_outcome_iff_designated (ts : Bool) (raw : Node) (h : List Op) (file : String) (line : Nat) (fam : String) :
    outcome ts fam (genFails (genRun raw Gen.Failable.init h) file line)
      = if designatedB h file line then failureKind fam else .ok := by
  have hb : genFails (genRun raw Gen.Failable.init h) file line = designatedB h file line := by
    rw [Bool.eq_iff_iff, regenerated_fails_iff_designated, designatedB_iff]
  rw [outcome_eq, hb]

/-! ## non-vacuity -/

/-- the two old defects as histories: designating the 2nd allocation at foo.c:10 does not fail the
    2nd allocation made elsewhere … -/
example : allocFails (run init [.failAt 2 "foo.c" 10, .alloc "bar.c" 1]) "bar.c" 2 = false := by decide
/-- … and designating the 1st and 2nd allocation at one location fails the 1st and the 2nd -/
example : allocFails (run init [.failAt 1 "foo.c" 10, .failAt 2 "foo.c" 10]) "foo.c" 10 = true ∧
    allocFails (run init [.failAt 1 "foo.c" 10, .failAt 2 "foo.c" 10, .alloc "foo.c" 10]) "foo.c" 10 = true ∧
    allocFails (run init [.failAt 1 "foo.c" 10, .failAt 2 "foo.c" 10, .alloc "foo.c" 10, .alloc "foo.c" 10])
      "foo.c" 10 = false := by decide
example : Designated [.failNum 2, .alloc "a.c" 1] "b.c" 7 := by
  rw [← designatedB_iff]; decide
example : unfired [.failNum 5, .failAt 1 "a.c" 3, .alloc "a.c" 3] = [.failNum 5] := by decide
example : check (run init [.failNum 5, .failAt 1 "a.c" 3, .alloc "a.c" 3]) = .neverDoneNumber 5 := by decide
example : genFails (genRun default Gen.Failable.init [.failAt 2 "a.c" 10, .alloc "b.c" 10, .alloc "a.c" 10]) "a.c" 10 = true ∧
    genFails (genRun default Gen.Failable.init [.failAt 2 "a.c" 10, .alloc "b.c" 10, .alloc "a.c" 10]) "b.c" 10 = false := by decide
example : Gen.Failable.check (genRun default Gen.Failable.init [.failNum 5, .failAt 1 "a.c" 3, .alloc "a.c" 3]) = .neverDoneNumber 5 := by decide
example : Gen.Failable.mallocNull (genAfterMallocs (Gen.Failable.setCountdown Gen.Failable.cinit 3) 1) = false ∧
    Gen.Failable.mallocNull (genAfterMallocs (Gen.Failable.setCountdown Gen.Failable.cinit 3) 2) = true := by decide
example : Gen.Failable.callocOverflows 4294967296 4294967296 = true ∧ Gen.Failable.callocOverflows 4294967295 4294967297 = false := by decide
example : (strdupOver { c := { cinit with cur := .failable }, fa := run init [.failNum 2, .alloc "<unknown>" 0] } [104, 105] "<unknown>" 0).2 = none ∧
    (strdupOver { c := { cinit with cur := .failable }, fa := run init [.failNum 3, .alloc "<unknown>" 0] } [104, 105] "<unknown>" 0).2 = some [104, 105, 0] := by decide
example : (mallocOver { c := setOutOfMemory { cinit with cur := .failable }, fa := run init [.failNum 1] } "a.c" 1).isNull = true ∧
    (mallocOver { c := setOutOfMemory { cinit with cur := .failable }, fa := run init [.failNum 1] } "a.c" 1).st.fa = run init [.failNum 1] := by decide
example : outcomes init [.failAt 2 "a.c" 1, .alloc "a.c" 1, .failNum 3, .alloc "b.c" 1, .alloc "a.c" 1, .alloc "a.c" 1]
    = [false, false, true, false] := by decide
example : designatedOutcomes [] [.failAt 2 "a.c" 1, .alloc "a.c" 1, .failNum 3, .alloc "b.c" 1, .alloc "a.c" 1, .alloc "a.c" 1]
    = [false, false, true, false] := by decide
example : int32 10 = 10 ∧ int32 4294967295 = -1 := by decide
example : mallocNull (afterMallocs (setCountdown cinit 3) 1) = false ∧
    mallocNull (afterMallocs (setCountdown cinit 3) 2) = true := by decide

/-- the thread-safe overloads: a designated `new char[n]` under the new macro (family W) throws, the designated nothrow
    `new[]` returns NULL, the allocation that is not designated succeeds -/
example : outcome true "W" (genFails (genRun default Gen.Failable.init [.failNum 2, .alloc "a.c" 1]) "<harness>" 34) = .throws ∧
    outcome true "u" (genFails (genRun default Gen.Failable.init [.failNum 2, .alloc "a.c" 1]) "<unknown>" 0) = .null ∧
    outcome true "W" (genFails (genRun default Gen.Failable.init [.failNum 3, .alloc "a.c" 1]) "<harness>" 34) = .ok ∧
    installedNew true "operator_new_array_debug" = some "threadsafe_mem_leak_operator_new_array_debug" := by decide

end Failable
