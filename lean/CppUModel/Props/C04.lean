import CppUModel.Proofs.LeakDetector
import CppUModel.Model.LeakPluginDrive
import CppUModel.Proofs.LeakOverloads
import CppUModel.Gen.LeakDetectorLoops
import CppUModel.Model.LeakReportText
/-!
# C04 — leak accounting is exact for every allocation history

Property theorems only.  Model: `CppUModel/Model/LeakDetector.lean` (from
`src/CppUTest/MemoryLeakDetector.cpp`); vocabulary: `CppUModel/Spec/LeakDetector.lean`
(`Inv`, `FreshAddr`, the finite map `abs s : address ⇀ record`, `Spec.step`).
All statements hold for every table size `hp > 0` (part of `Inv`), every history, every address pattern.
The hypothesis `FreshAddr` / `FreshAll` is the platform allocator's contract: it never hands out the
address of a block that is still outstanding.
-/
namespace LeakDetector
open Gen.LeakDetector (Period)

/-! ## invariant -/

/-- the empty detector satisfies the invariant, for every table size > 0 -/
theorem inv_init (hp : Nat) (h : 0 < hp) : (State.init hp).Inv := Table.inv_empty hp h

/-- … in particular for the table size of the source (`hash_prime`, regenerated) -/
theorem inv_init_gen : (State.init Gen.LeakDetector.hashPrime).Inv :=
  inv_init _ (by decide)

/-- Every operation preserves: each record sits in bucket `hash addr`, addresses are pairwise distinct. -/
theorem inv_preserved (s : State) (op : Op) (inv : s.Inv) (hf : FreshAddr s op) : (step s op).1.Inv :=
  step_inv inv op hf

/-- … along every history. -/
theorem inv_run : ∀ (ops : List Op) (s : State), s.Inv → FreshAll s ops → (run s ops).1.Inv
  | [], _, inv, _ => inv
  | op :: ops, s, inv, hf => inv_run ops (step s op).1 (step_inv inv op hf.1) hf.2

/-! ## refinement to the finite-map specification -/

/-- Every operation acts on the table as the specification acts on the finite map `address ⇀ record`
    (insert / erase / filter / map), and on period, stage, sequence number and type checking identically. -/
theorem step_refines (s : State) (op : Op) (inv : s.Inv) (hf : FreshAddr s op) :
    abs (step s op).1 = Spec.step (abs s) op := step_abs inv op hf

/-- … for every history of any length. -/
theorem run_refines : ∀ (ops : List Op) (s : State), s.Inv → FreshAll s ops →
    abs (run s ops).1 = Spec.run (abs s) ops
  | [], _, _, _ => rfl
  | op :: ops, s, inv, hf => by
    show abs (run (step s op).1 ops).1 = Spec.run (Spec.step (abs s) op) ops
    rw [← step_abs inv op hf.1]
    exact run_refines ops (step s op).1 (step_inv inv op hf.1) hf.2

/-- The list of records enumerates the finite map: a record is held iff the map has it at its address,
    and no address occurs twice. -/
theorem nodes_enumerate_map (s : State) (inv : s.Inv) :
    (∀ n, n ∈ s.nodes ↔ (abs s).map n.addr = some n) ∧ (s.nodes.map (·.addr)).Nodup := by
  refine ⟨fun n => ?_, inv.distinct⟩
  show n ∈ s.nodes ↔ s.table.retrieveNode n.addr = some n
  rw [retrieve_some_iff inv]
  simp

/-- The regenerated `isInPeriod` is the documented visibility rule. -/
theorem isInPeriod_is_documented (p : Period) (n : Node) : isInPeriod p n = Spec.inPeriod p n :=
  isInPeriod_eq_doc p n

/-! ## corollaries -/

/-- `totalMemoryLeaks(period)` is the number of records the period sees (in every state, reachable or not). -/
theorem total_eq_card (s : State) (p : Period) :
    totalMemoryLeaks s p = (s.nodes.filter (Spec.inPeriod p)).length := by
  unfold totalMemoryLeaks
  rw [Table.total_eq_countP, List.countP_eq_length_filter]
  congr 2
  funext n
  exact isInPeriod_eq_doc p n

/-- After every history: the records enumerate the specification's map without repetition, and every total is
    the number of records of the specification's map that the period sees. -/
theorem run_totals_exact (ops : List Op) (s : State) (inv : s.Inv) (hf : FreshAll s ops) :
    (∀ n, n ∈ (run s ops).1.nodes ↔ (Spec.run (abs s) ops).map n.addr = some n) ∧
    ((run s ops).1.nodes.map (·.addr)).Nodup ∧
    ∀ p, totalMemoryLeaks (run s ops).1 p = ((run s ops).1.nodes.filter (Spec.inPeriod p)).length := by
  have h := nodes_enumerate_map _ (inv_run ops s inv hf)
  rw [run_refines ops s inv hf] at h
  exact ⟨h.1, h.2, fun p => total_eq_card _ p⟩

/-- Releasing removes exactly the named block: afterwards the map is the old map without `addr`, nothing
    else changes; the release is reported as non-allocated iff `addr` is not NULL and not outstanding. -/
theorem free_removes_exactly (s : State) (inv : s.Inv) (a : Allocator) (addr : Nat) (file : String) (line : Nat)
    (sep : Bool) :
    (∀ x, (abs (dealloc s a addr file line sep).1).map x = if x = addr then none else (abs s).map x) ∨
      (addr = 0 ∧ (dealloc s a addr file line sep).1 = s) := by
  by_cases hz : addr = 0
  · right; exact ⟨hz, by simp [dealloc, hz]⟩
  · left
    intro x
    rw [dealloc_abs inv]
    simp [Spec.step, hz, Spec.Map.erase]

theorem free_keeps_scalars (s : State) (a : Allocator) (addr : Nat) (file : String) (line : Nat) (sep : Bool) :
    (dealloc s a addr file line sep).1.period = s.period ∧ (dealloc s a addr file line sep).1.stage = s.stage ∧
    (dealloc s a addr file line sep).1.seq = s.seq ∧
    (dealloc s a addr file line sep).1.typeChecking = s.typeChecking := by
  unfold dealloc
  split
  · simp
  · split <;> simp

/-- the release of an outstanding block returns that block (once) to the allocator it was released with -/
theorem free_returns_block (s : State) (inv : s.Inv) (a : Allocator) (n : Node) (hn : n ∈ s.nodes) (file : String)
    (line : Nat) (sep : Bool) :
    freedBytes (dealloc s a n.addr file line sep).2 = [(n.addr, n.user)] := by
  rw [dealloc_live inv hn]
  unfold checkForCorruption
  split
  · simp [freedBytes, failEv]
  · split
    · simp [freedBytes, failEv]
    · split <;> simp [freedBytes]

/-- `reported as non-allocated` ⇔ the address is neither NULL nor outstanding (stale, interior, foreign) -/
theorem free_non_allocated_iff (s : State) (inv : s.Inv) (a : Allocator) (addr : Nat) (file : String) (line : Nat)
    (sep : Bool) :
    firstFail (dealloc s a addr file line sep).2 = some .nonAllocated ↔ addr ≠ 0 ∧ isLive s addr = false := by
  unfold dealloc
  by_cases hz : addr = 0
  · simp [hz, firstFail]
  · simp only [hz, if_false]
    cases hr : s.table.retrieveNode addr with
    | none =>
      have : isLive s addr = false := by
        rw [isLive_false_iff]; exact (retrieve_none_iff inv).mp hr
      simp [firstFail, nonAllocatedEv, this, hz]
    | some n =>
      have hl : isLive s addr = true := (isLive_iff inv addr).mpr ⟨n, hr⟩
      simp only [hl, Bool.true_eq_false, and_false, iff_false]
      unfold checkForCorruption
      split
      · simp [firstFail, failEv]
      · split
        · simp [firstFail, failEv]
        · split <;> simp [firstFail]

/-- Reallocating an outstanding block to a (fresh or the same) address moves exactly that block:
    the old address is gone, the new one maps to a record with the new size, the next sequence number, the
    current period and stage; every other address is untouched. -/
theorem realloc_moves_exactly (s : State) (inv : s.Inv) (a : Allocator) (addr size : Nat) (file : String)
    (line : Nat) (sep : Bool) (result : Nat) (fill : UInt8)
    (hf : FreshAddr s (.realloc a addr size file line sep result fill))
    (hsz : sizeOverflows size = false) (hlive : isLive s addr = true) (hres : result ≠ 0) :
    ∀ x, (abs (realloc s a addr size file line sep result fill).1).map x =
      if x = result then some (Spec.newNode (abs s) result size a file line sep fill)
      else if x = addr then none else (abs s).map x := by
  intro x
  rw [realloc_abs inv a addr size file line sep result fill hf]
  obtain ⟨n, hn⟩ := (isLive_iff inv addr).mp hlive
  have hz : addr ≠ 0 := by
    have := (retrieve_some_iff inv).mp hn
    rw [← this.2]; exact inv.nonnull n this.1
  have hm : (abs s).map addr = some n := hn
  have e : (Spec.newNode (abs s) result size a file line sep fill).addr = result := rfl
  simp [Spec.step, hsz, hz, hm, hres, Spec.Map.insert, Spec.Map.erase, e]

/-- A failing `PlatformSpecificRealloc` leaves the block outstanding with its record (number, size, location,
    allocator, period, stage, contents) unchanged. -/
theorem realloc_failure_keeps_block (s : State) (inv : s.Inv) (a : Allocator) (addr size : Nat) (file : String)
    (line : Nat) (sep : Bool) (fill : UInt8) (n : Node) (hn : (abs s).map addr = some n) (hz : addr ≠ 0)
    (hsz : sizeOverflows size = false) :
    ∀ x, (abs (realloc s a addr size file line sep 0 fill).1).map x =
      if x = addr then some { n with sepNode := sep } else (abs s).map x := by
  intro x
  rw [realloc_abs inv a addr size file line sep 0 fill (Or.inl rfl)]
  simp only [Spec.step, hsz, hz, hn]
  unfold Spec.Map.update
  by_cases hx : x = addr
  · simp [hx, hn]
  · simp [hx]

/-- A successful allocation adds exactly one record, stamped with the current period, stage and sequence number. -/
theorem alloc_adds_exactly (s : State) (inv : s.Inv) (a : Allocator) (size : Nat) (file : String) (line : Nat)
    (sep : Bool) (result : Nat) (nodeOk : Bool) (fill : UInt8)
    (hf : FreshAddr s (.alloc a size file line sep result nodeOk fill))
    (hsz : sizeOverflows size = false) (hres : result ≠ 0) (hnode : sep = false ∨ nodeOk = true) :
    (∀ x, (abs (alloc s a size file line sep result nodeOk fill).1).map x =
      if x = result then some (Spec.newNode (abs s) result size a file line sep fill) else (abs s).map x) ∧
    (alloc s a size file line sep result nodeOk fill).1.seq = s.seq + 1 := by
  have hn : ¬ (sep = true ∧ nodeOk = false) := by
    rcases hnode with h | h <;> simp [h]
  have hn' : (sep && !nodeOk) = false := by
    rcases hnode with h | h <;> simp [h]
  constructor
  · intro x
    rw [alloc_abs inv a size file line sep result nodeOk fill hf]
    have e : (Spec.newNode (abs s) result size a file line sep fill).addr = result := rfl
    simp [Spec.step, hsz, hres, hn, Spec.Map.insert, e]
  · simp [alloc, hsz, hres, hn', storeLeakInformation]

/-- An allocation that fails (size overflow, no memory for the block, no memory for the separate accounting
    record) tracks nothing and returns NULL. -/
theorem alloc_failure_tracks_nothing (s : State) (a : Allocator) (size : Nat) (file : String) (line : Nat)
    (sep : Bool) (result : Nat) (nodeOk : Bool) (fill : UInt8)
    (h : sizeOverflows size = true ∨ result = 0 ∨ (sep = true ∧ nodeOk = false)) :
    (alloc s a size file line sep result nodeOk fill).1 = s ∧
    (alloc s a size file line sep result nodeOk fill).2.getLast? = some (.ret 0) := by
  unfold alloc
  by_cases ho : sizeOverflows size = true
  · simp [ho]
  · by_cases hz : result = 0
    · simp [ho, hz]
    · have h3 : sep = true ∧ nodeOk = false := by
        rcases h with h | h | h
        · exact absurd h ho
        · exact absurd h hz
        · exact h
      simp [ho, hz, h3.1, h3.2]

/-- The `getFirstLeak` / `getNextLeak` pointer chase of `report(period)` visits exactly the records the
    period sees, each once, in table order. -/
theorem iteration_enumerates (s : State) (inv : s.Inv) (p : Period) :
    reportedLeaks s p = s.nodes.filter (Spec.inPeriod p) ∧ ((reportedLeaks s p).map (·.addr)).Nodup := by
  have h : reportedLeaks s p = s.nodes.filter (Spec.inPeriod p) := by
    rw [reportedLeaks_eq inv p]
    congr 1
    funext n
    exact isInPeriod_eq_doc p n
  refine ⟨h, ?_⟩
  rw [h]
  exact (List.filter_sublist.map _).nodup inv.distinct

/-- The entries of a report are the in-period records of the map, their number is the total, and the report
    has no entries ("No memory leaks were detected") iff no record is in the period. -/
theorem report_entries_eq (s : State) (inv : s.Inv) (p : Period) :
    (∀ n, n ∈ reportedLeaks s p ↔ (abs s).map n.addr = some n ∧ Spec.inPeriod p n = true) ∧
    (reportedLeaks s p).length = totalMemoryLeaks s p ∧
    (reportedLeaks s p = [] ↔ ∀ n, (abs s).map n.addr = some n → Spec.inPeriod p n = false) := by
  have h := (iteration_enumerates s inv p).1
  have hen := (nodes_enumerate_map s inv).1
  refine ⟨fun n => ?_, ?_, ?_⟩
  · rw [h, List.mem_filter, hen]
  · rw [h, total_eq_card]
  · rw [h, List.filter_eq_nil_iff]
    constructor
    · intro hall n hn
      have := hall n ((hen n).mpr hn)
      simpa using this
    · intro hall n hn
      have := hall n ((hen n).mp hn)
      simp [this]

/-- `clearAllAccounting(period)` drops exactly the records the period sees. -/
theorem clear_affects_exactly (s : State) (inv : s.Inv) (p : Period) :
    (clearAllAccounting s p).nodes = s.nodes.filter (fun n => !Spec.inPeriod p n) ∧
    (∀ x, (abs (clearAllAccounting s p)).map x = ((abs s).map x).filter (fun n => !Spec.inPeriod p n)) := by
  constructor
  · show (s.table.clearAllAccounting p).flat = _
    rw [Table.flat_clear]
    congr 1
    funext n
    rw [isInPeriod_eq_doc]
  · intro x
    rw [clear_abs inv p]
    rfl

theorem freedBytes_append (e1 e2 : List Ev) : freedBytes (e1 ++ e2) = freedBytes e1 ++ freedBytes e2 := by
  induction e1 with
  | nil => rfl
  | cons e es ihe => cases e <;> simp [freedBytes, ihe]

theorem freed_of_releases (tc : Bool) (l : List Node) :
    (freedBytes (l.flatMap (releaseEvs tc))).map (·.1) = l.map (·.addr) := by
  induction l with
  | nil => rfl
  | cons n rest ih =>
    have hone : freedBytes (releaseEvs tc n) = [(n.addr, n.user)] := by
      unfold releaseEvs checkForCorruption
      split
      · simp [freedBytes, failEv]
      · split
        · simp [freedBytes, failEv]
        · split <;> simp [freedBytes]
    simp only [List.flatMap_cons, freedBytes_append, hone, List.map_append, List.map_cons, List.map_nil, ih]
    rfl

/-- Releasing the current allocation stage removes exactly the records stamped with the current stage, returns
    exactly their blocks (each once) to their own allocators, and changes nothing else. -/
theorem stage_release_affects_exactly (s : State) (inv : s.Inv) :
    (deallocStage s).1.nodes = s.nodes.filter (fun n => n.stage != s.stage) ∧
    (freedBytes (deallocStage s).2).map (·.1) = (s.nodes.filter (fun n => n.stage == s.stage)).map (·.addr) ∧
    (deallocStage s).1.period = s.period ∧ (deallocStage s).1.stage = s.stage ∧
    (deallocStage s).1.seq = s.seq := by
  obtain ⟨h1, _, h3, h4, h5, _, h7⟩ := deallocStage_spec inv
  refine ⟨?_, ?_, h3, h4, h5⟩
  · rw [h1]
    congr 1
  · rw [h7]
    exact freed_of_releases s.typeChecking _

/-- `markCheckingPeriodLeaksAsNonCheckingPeriod` turns exactly the `checking` records into `enabled` ones and
    leaves every other field of every record alone. -/
theorem mark_checking_demotes_exactly (s : State) (inv : s.Inv) :
    (markChecking s).nodes = s.nodes.map demote ∧
    (∀ x, (abs (markChecking s)).map x = ((abs s).map x).map demote) ∧
    totalMemoryLeaks (markChecking s) .checking = 0 := by
  have h := markChecking_nodes inv
  refine ⟨h.1, ?_, ?_⟩
  · intro x
    rw [markChecking_abs inv]
    rfl
  · rw [total_eq_card, h.1, List.length_eq_zero_iff, List.filter_eq_nil_iff]
    intro n hn
    obtain ⟨m, _, rfl⟩ := List.mem_map.mp hn
    have := demote_not_checking m
    rw [isInPeriod_eq_doc] at this
    simp [this]

/-- Period, stage and type-checking switches touch no record. -/
theorem switches_touch_no_record (s : State) :
    (startChecking s).nodes = s.nodes ∧ (stopChecking s).nodes = s.nodes ∧ (enable s).nodes = s.nodes ∧
    (disable s).nodes = s.nodes ∧ (increaseStage s).nodes = s.nodes ∧ (decreaseStage s).nodes = s.nodes ∧
    (enableTypeChecking s).nodes = s.nodes ∧ (disableTypeChecking s).nodes = s.nodes :=
  ⟨rfl, rfl, rfl, rfl, rfl, rfl, rfl, rfl⟩

/-! ## counters outside the claim: sequence number, period switches, the `unsigned char` stage

These say what the code does for the detector's counters (they are part of what a report entry shows and of
which records a stage release names), including the cases the property's claim excludes. -/

/-- `getCurrentAllocationNumber()` advances by exactly one for every allocation or reallocation that returned
    memory, and never otherwise (failed allocations, releases, reports, clears do not consume numbers). -/
theorem allocation_number_step (s : State) (op : Op) :
    getCurrentAllocationNumber (step s op).1 = getCurrentAllocationNumber s + successes (step s op).2 :=
  seq_step s op

theorem allocation_number_run : ∀ (ops : List Op) (s : State),
    getCurrentAllocationNumber (run s ops).1 = getCurrentAllocationNumber s + successes (run s ops).2
  | [], s => by simp [run, successes]
  | op :: ops, s => by
    have h1 := seq_step s op
    have h2 := allocation_number_run ops (step s op).1
    simp only [run, prependEvs, successes_append, getCurrentAllocationNumber] at *
    omega

/-- from a new detector: the number the next allocation gets is 1 + the number of successful (re)allocations so far -/
theorem allocation_number_from_init (hp : Nat) (ops : List Op) :
    getCurrentAllocationNumber (run (State.init hp) ops).1 = 1 + successes (run (State.init hp) ops).2 := by
  rw [allocation_number_run]; rfl

/-- Allocation numbers identify records: in every reachable state they are pairwise distinct and below the
    next number (a failing realloc keeps the old number, a successful one takes a new one). -/
theorem numbers_identify_records : ∀ (ops : List Op) (s : State), s.Inv → FreshAll s ops → NumInv s →
    NumInv (run s ops).1
  | [], _, _, _, h => h
  | op :: ops, s, inv, hf, h =>
    numbers_identify_records ops (step s op).1 (step_inv inv op hf.1) hf.2 (numInv_step inv op hf.1 h)

theorem numbers_init (hp : Nat) : NumInv (State.init hp) := by
  simp [NumInv, State.nodes, State.init, Table.flat, Table.empty]

/-- `enable()` / `disable()` / `startChecking()` / `stopChecking()` do not nest: the period after any operation is
    the one the operation switches to, or unchanged — there is no counter, the last switch wins. -/
theorem period_switches_do_not_nest (s : State) (op : Op) :
    (step s op).1.period = (periodSwitch op).getD s.period := period_step s op

/-- in particular two `disable()` are undone by one `enable()`, and `startChecking()` overrides a `disable()` -/
theorem enable_after_two_disables (s : State) :
    (enable (disable (disable s))).period = .enabled ∧ (startChecking (disable s)).period = .checking ∧
    (stopChecking (startChecking (disable s))).period = .enabled := ⟨rfl, rfl, rfl⟩

/-- The allocation stage is an `unsigned char`: only `increase/decreaseAllocationStage` change it, by ±1 modulo 256. -/
theorem stage_is_a_byte (s : State) (op : Op) :
    (step s op).1.stage = match op with
      | .incStage => s.stage + 1
      | .decStage => s.stage - 1
      | _ => s.stage := stage_step s op

theorem stage_wraps (s : State) :
    (s.stage = 255#8 → (increaseStage s).stage = 0#8) ∧ (s.stage = 0#8 → (decreaseStage s).stage = 255#8) ∧
    (decreaseStage (increaseStage s)).stage = s.stage ∧ (increaseStage (decreaseStage s)).stage = s.stage := by
  refine ⟨?_, ?_, ?_, ?_⟩
  · intro h; simp [increaseStage, h]
  · intro h; simp [decreaseStage, h]
  · simp only [increaseStage, decreaseStage]; exact BitVec.add_sub_cancel _ _
  · simp only [increaseStage, decreaseStage]; exact BitVec.sub_add_cancel _ _

/-- After 256 nested `increaseAllocationStage()` the stage is the one it started from, so a stage release then
    names (and frees) the blocks of the outer stage: the exclusion "> 255 nested stages" of the claim is needed. -/
theorem stage_wraps_after_256 (s : State) (inv : s.Inv) :
    (increaseStageTimes 256 s).stage = s.stage ∧
    (deallocStage (increaseStageTimes 256 s)).1.nodes = s.nodes.filter (fun n => n.stage != s.stage) := by
  have hst : (increaseStageTimes 256 s).stage = s.stage := by
    rw [increaseStageTimes_stage]; simp
  refine ⟨hst, ?_⟩
  have inv' : (increaseStageTimes 256 s).Inv := by
    have : (increaseStageTimes 256 s).table = s.table := by
      generalize 256 = k
      induction k with
      | zero => rfl
      | succ k ih => simpa [increaseStageTimes, increaseStage] using ih
    unfold State.Inv; rw [this]; exact inv
  have := (stage_release_affects_exactly _ inv').1
  rw [this, hst, increaseStageTimes_nodes]

/-! ## the global overloads register blocks with the allocator of their family -/

set_option maxRecDepth 100000 in
/-- Every `operator new / new[]` overload of MemoryLeakWarningPlugin.cpp (plain, file/line with `int` or `size_t` line,
    `std::nothrow`) and `cpputest_malloc_location`, with the plain and with the thread-safe overloads switched on, ends in
    `allocMemory` with the CURRENT ALLOCATOR OF ITS FAMILY (so the leak entry shows "new" / "new []" / "malloc"), passing
    file/line iff the form has them.  Regenerated: the operators'
    forwarding, both function-pointer tables, every `mem_leak_*` / `threadsafe_*` function's allocator. -/
theorem overloads_register_the_right_allocator : acquireFormsWiredCorrectly = true := by decide

/-- An acquiring function executed as regenerated is the modelled `acquire` of its family (with `<unknown>:0` when the
    function has no location) — so what is proved about `alloc` holds for every acquiring overload, in both modes. -/
theorem acquire_wrappers_are_acquire :
    ∀ w ∈ Gen.LeakDetector.acquireWrappers, w.isRealloc = false →
      ∀ (c : Current) (s : State) (size : Nat) (file : String) (line result : Nat) (nodeOk : Bool) (fill : UInt8),
        acquireBy w c s size file line result nodeOk fill =
          acquire c (familyOfGetter w.getter) s size (if w.withLocation then file else "<unknown>")
            (if w.withLocation then line else 0) result nodeOk fill := by
  intro w hw hr c s size file line result nodeOk fill
  simp only [Gen.LeakDetector.acquireWrappers, List.mem_cons, List.mem_nil_iff, or_false] at hw
  rcases hw with rfl | rfl | rfl | rfl | rfl | rfl | rfl | rfl | rfl | rfl | rfl | rfl | rfl | rfl | rfl | rfl <;>
    first | rfl | exact absurd hr (by decide)

/-! ## the detector driven by `MemoryLeakWarningPlugin` (statement lists regenerated by C07's translator) -/

/-- the pre-test action starts the checking period and touches no record; the post-test action is `stopChecking`
    followed by the demotion of the checking records — whatever the plugin's ignore / expected-leaks flags are -/
theorem plugin_actions_on_the_detector (s : State) :
    pluginPre s = startChecking s ∧ pluginPost s = markChecking (stopChecking s) := ⟨rfl, rfl⟩

/-- after a post-test action no record is stamped `checking` any more (every other field of every record is as before) -/
theorem plugin_post_leaves_nothing_checking (s : State) (inv : s.Inv) :
    (pluginPost s).nodes = s.nodes.map demote ∧ totalMemoryLeaks (pluginPost s) .checking = 0 ∧
    (pluginPost s).period = .enabled ∧ (pluginPost s).Inv := by
  have inv' : (stopChecking s).Inv := inv
  have h := mark_checking_demotes_exactly (stopChecking s) inv'
  exact ⟨h.1, h.2.2, rfl, (markChecking_nodes inv').2⟩

/-- so the next test starts with an empty checking period: right after its pre action the checking total is 0, and from
    then on a record is `checking` only if it was allocated after that pre action (`alloc_adds_exactly` stamps the current
    period; nothing else creates `checking` records) -/
theorem plugin_next_checking_period_is_fresh (s : State) (inv : s.Inv) :
    totalMemoryLeaks (pluginPre (pluginPost s)) .checking = 0 ∧ (pluginPre (pluginPost s)).period = .checking ∧
    reportedLeaks (pluginPre (pluginPost s)) .checking = [] := by
  have h := plugin_post_leaves_nothing_checking s inv
  have hn : (pluginPre (pluginPost s)).nodes = (pluginPost s).nodes := rfl
  have ht : totalMemoryLeaks (pluginPre (pluginPost s)) .checking = 0 := by
    rw [total_eq_card, hn, ← total_eq_card]; exact h.2.1
  refine ⟨ht, rfl, ?_⟩
  have inv2 : (pluginPre (pluginPost s)).Inv := h.2.2.2
  have := (report_entries_eq _ inv2 .checking).2.1
  rw [ht] at this
  exact List.eq_nil_of_length_eq_zero this

/-- `FinalReport` counts and lists the SAME period, the enabled one (regenerated by C07's translator) -/
theorem final_report_counts_what_it_lists :
    Gen.LeakCode.finalCountPeriod = Gen.LeakCode.finalReportPeriod ∧ Gen.LeakCode.finalReportPeriod = .enabled := by decide

/-- `FinalReport(n)` is empty exactly when `n` records were allocated while enabled and are still outstanding; otherwise it
    is the report of exactly those records: each listed once, their number is the count that was compared with `n`, and
    "no leaks" only when none is outstanding. -/
theorem final_report_exact (s : State) (inv : s.Inv) (n : Nat) :
    (pluginFinal s n = none ↔ (s.nodes.filter (Spec.inPeriod .enabled)).length = n) ∧
    (∀ p, pluginFinal s n = some p →
      reportedLeaks s p = s.nodes.filter (Spec.inPeriod .enabled) ∧
      (reportedLeaks s p).length = totalMemoryLeaks s .enabled ∧
      (reportedLeaks s p = [] ↔ ∀ m ∈ s.nodes, Spec.inPeriod .enabled m = false)) := by
  have hc : ofPluginPeriod Gen.LeakCode.finalCountPeriod = .enabled := by decide
  have hr : ofPluginPeriod Gen.LeakCode.finalReportPeriod = .enabled := by decide
  unfold pluginFinal
  rw [hc, hr, total_eq_card]
  constructor
  · by_cases h : (s.nodes.filter (Spec.inPeriod .enabled)).length = n <;> simp [h]
  · intro p hp
    by_cases h : (s.nodes.filter (Spec.inPeriod .enabled)).length = n
    · simp [h] at hp
    · simp only [bne_iff_ne, ne_eq, h, not_false_eq_true, if_true, Option.some.injEq] at hp
      subst hp
      have hi := (iteration_enumerates s inv .enabled).1
      refine ⟨hi, ?_, ?_⟩
      · rw [hi]
      · rw [hi, List.filter_eq_nil_iff]
        constructor
        · intro hall m hm; simpa using hall m hm
        · intro hall m hm; simp [hall m hm]

/-! ## the switchable global entry points and the current allocators (assignment lists, counter guards, wrappers and
the stash regenerated from MemoryLeakWarningPlugin.cpp / TestMemoryAllocator.cpp) -/

def exA0 : Allocator := .plain 1 "Standard New Allocator" "new" "delete"

section Overloads
open Gen.LeakDetector

/-- `turnOff…`, `turnOnDefault…`, `turnOnThreadSafe…` put every one of the 11 pointers in the position named, whatever was there -/
theorem switch_sets_every_pointer (o : Ov) :
    (∀ e ∈ offTable, (turnOff o).vars.get e.1 = e.2) ∧ (∀ e ∈ plainTable, (turnOnPlain o).vars.get e.1 = e.2) ∧
    (∀ e ∈ threadSafeTable, (turnOnThreadSafe o).vars.get e.1 = e.2) := by
  refine ⟨?_, ?_, ?_⟩ <;> intro e he
  · simp only [offTable, List.mem_cons, List.mem_nil_iff, or_false] at he
    rcases he with rfl | rfl | rfl | rfl | rfl | rfl | rfl | rfl | rfl | rfl | rfl <;>
      simp [turnOff, Store.assignConsts, offTable, List.foldl]
  · simp only [plainTable, List.mem_cons, List.mem_nil_iff, or_false] at he
    rcases he with rfl | rfl | rfl | rfl | rfl | rfl | rfl | rfl | rfl | rfl | rfl <;>
      simp [turnOnPlain, Store.assignConsts, plainTable, List.foldl]
  · simp only [threadSafeTable, List.mem_cons, List.mem_nil_iff, or_false] at he
    rcases he with rfl | rfl | rfl | rfl | rfl | rfl | rfl | rfl | rfl | rfl | rfl <;>
      simp [turnOnThreadSafe, Store.assignConsts, threadSafeTable, List.foldl]

theorem areOverloaded_by_position (o : Ov) :
    areOverloaded (turnOff o) = false ∧ areOverloaded (turnOnPlain o) = true ∧ areOverloaded (turnOnThreadSafe o) = true := by
  refine ⟨?_, ?_, ?_⟩ <;>
    simp [areOverloaded, turnOff, turnOnPlain, turnOnThreadSafe, Store.assignConsts, offTable, plainTable, threadSafeTable,
      List.foldl, overloadedPtr, overloadedFns]



/-- the outermost `saveAndDisableNewDeleteOverloads()` (counter 0) switches the overloads off, and the matching
    `restoreNewDeleteOverloads()` puts every one of the 11 pointers back to what it was — whatever it was -/
theorem save_restore_roundtrip (o : Ov) (h0 : o.counter = 0) :
    areOverloaded (saveAndDisable o) = false ∧
    (∀ e ∈ offTable, (saveAndDisable o).vars.get e.1 = e.2) ∧
    (∀ p ∈ fptrNames, (restoreOverloads (saveAndDisable o)).vars.get p = o.vars.get p) ∧
    (restoreOverloads (saveAndDisable o)).counter = 0 := by
  have hs : saveAndDisable o =
      turnOff { vars := o.vars.assignVars saveAssignments, counter := 1 } := by
    simp [saveAndDisable, h0, saveCounterStep, saveReturnIfAbove, saveThenCalls, List.foldl, callByName]
  refine ⟨?_, ?_, ?_, ?_⟩
  · rw [hs]; exact (areOverloaded_by_position _).1
  · rw [hs]; exact (switch_sets_every_pointer _).1
  · intro p hp
    rw [hs]
    simp only [fptrNames, offTable, List.map, List.mem_cons, List.mem_nil_iff, or_false] at hp
    rcases hp with rfl | rfl | rfl | rfl | rfl | rfl | rfl | rfl | rfl | rfl | rfl <;>
      simp [restoreOverloads, turnOff, restoreCounterStep, restoreReturnIfAbove, restoreThenCalls, Store.assignVars,
        Store.assignConsts, saveAssignments, restoreAssignments, offTable, List.foldl]
  · rw [hs]
    simp [restoreOverloads, turnOff, restoreCounterStep, restoreReturnIfAbove, restoreThenCalls, List.foldl]

/-- inner calls only count: with a save already open (`save_counter ≥ 1`) another save changes nothing but the counter, and
    a restore that is not the outermost one (`save_counter ≥ 2`) neither — so save / restore pairs nest to any depth -/
theorem nested_save_restore_only_count (o : Ov) :
    (1 ≤ o.counter → saveAndDisable o = { o with counter := o.counter + 1 }) ∧
    (2 ≤ o.counter → restoreOverloads o = { o with counter := o.counter - 1 }) := by
  constructor
  · intro h
    have hc : o.counter + saveCounterStep > saveReturnIfAbove := by simp [saveCounterStep, saveReturnIfAbove]; omega
    unfold saveAndDisable
    rw [if_pos hc]
    rfl
  · intro h
    have hc : o.counter + restoreCounterStep > restoreReturnIfAbove := by simp [restoreCounterStep, restoreReturnIfAbove]; omega
    have he : o.counter + restoreCounterStep = o.counter - 1 := by simp [restoreCounterStep]; omega
    unfold restoreOverloads
    rw [if_pos hc, he]

def saveTimes : Nat → Ov → Ov
  | 0, o => o
  | k + 1, o => saveAndDisable (saveTimes k o)
def restoreTimes : Nat → Ov → Ov
  | 0, o => o
  | k + 1, o => restoreOverloads (restoreTimes k o)

theorem saveTimes_succ (k : Nat) (o : Ov) (h0 : o.counter = 0) :
    saveTimes (k + 1) o = { saveAndDisable o with counter := (k : Int) + 1 } := by
  induction k with
  | zero =>
    simp [saveTimes, saveAndDisable, h0, saveCounterStep, saveReturnIfAbove, saveThenCalls, List.foldl, callByName, turnOff]
  | succ k ih =>
    show saveAndDisable (saveTimes (k + 1) o) = _
    rw [ih, (nested_save_restore_only_count _).1 (by simp; omega)]
    simp

theorem restoreTimes_inner (k : Nat) (o : Ov) (j : Int) (hj : 1 ≤ j) :
    restoreTimes k { o with counter := j + k } = { o with counter := j } := by
  induction k generalizing j with
  | zero => simp [restoreTimes]
  | succ k ih =>
    show restoreOverloads (restoreTimes k _) = _
    have : ({ o with counter := j + ((k + 1 : Nat) : Int) } : Ov) = { o with counter := (j + 1) + (k : Int) } := by
      simp; omega
    rw [this, ih (j + 1) (by omega), (nested_save_restore_only_count _).2 (by simp; omega)]
    simp

/-- `k+1` nested saves followed by `k+1` restores leave the 11 pointers and the counter as they were; in between the
    overloads are off -/
theorem save_restore_nest (k : Nat) (o : Ov) (h0 : o.counter = 0) :
    areOverloaded (saveTimes (k + 1) o) = false ∧
    (∀ p ∈ fptrNames, (restoreTimes (k + 1) (saveTimes (k + 1) o)).vars.get p = o.vars.get p) ∧
    (restoreTimes (k + 1) (saveTimes (k + 1) o)).counter = 0 := by
  have hr := save_restore_roundtrip o h0
  rw [saveTimes_succ k o h0]
  refine ⟨hr.1, ?_⟩
  show (∀ p ∈ fptrNames, (restoreOverloads (restoreTimes k _)).vars.get p = _) ∧ (restoreOverloads (restoreTimes k _)).counter = 0
  have hc : (saveAndDisable o).counter = 1 := by
    simp [saveAndDisable, h0, saveCounterStep, saveReturnIfAbove, saveThenCalls, List.foldl, callByName, turnOff]
  have e : ({ saveAndDisable o with counter := (k : Int) + 1 } : Ov) = { saveAndDisable o with counter := 1 + (k : Int) } := by
    simp; omega
  rw [e, restoreTimes_inner k (saveAndDisable o) 1 (by omega)]
  have e2 : ({ saveAndDisable o with counter := 1 } : Ov) = saveAndDisable o := by
    cases hso : saveAndDisable o with
    | mk v c => rw [hso] at hc; simp at hc; simp [hc]
  rw [e2]
  exact ⟨hr.2.2.1, hr.2.2.2⟩


/-- With the overloads switched off no global entry point reaches the detector: every acquiring form, every releasing
    form and `cpputest_realloc_location` go to the platform function, so the outstanding set (the whole detector state) is
    untouched — whatever the saved position and the counter are. -/
theorem off_position_reaches_no_detector (o : Ov) (c : Current) (s : State) (size addr : Nat) (file : String) (line result : Nat)
    (fill : UInt8) :
    (∀ form ∈ acquireForms, gAcquire (turnOff o) c s form size file line result fill = .raw "malloc") ∧
    (∀ form ∈ releaseForms, gRelease (turnOff o) c s form addr file line = .raw "free") ∧
    gRealloc (turnOff o) c s addr size file line result fill = .raw "realloc" := by
  refine ⟨?_, ?_, ?_⟩
  · intro form hf
    simp only [acquireForms, List.mem_cons, List.mem_nil_iff, or_false] at hf
    rcases hf with rfl | rfl | rfl | rfl | rfl | rfl | rfl | rfl | rfl <;>
      simp [gAcquire, Ov.formFunction, formFptr, formKey, overloads, turnOff, Store.assignConsts, offTable, List.foldl,
        acquireWrappers, normalWrappers, List.find?, List.lookup]
  · intro form hf
    simp only [releaseForms, List.mem_cons, List.mem_nil_iff, or_false] at hf
    rcases hf with rfl | rfl | rfl | rfl | rfl | rfl | rfl | rfl | rfl | rfl | rfl <;>
      simp [gRelease, Ov.formFunction, formFptr, formKey, overloads, turnOff, Store.assignConsts, offTable, List.foldl,
        releaseWrappers, normalWrappers, List.find?, List.lookup]
  · simp [gRealloc, Ov.reallocFunction, turnOff, Store.assignConsts, offTable, List.foldl,
      acquireWrappers, normalWrappers, List.find?, List.lookup]

theorem off_position_keeps_state (o : Ov) (c : Current) (s : State) (size addr : Nat) (file : String) (line result : Nat)
    (fill : UInt8) :
    (∀ form ∈ acquireForms, (gAcquire (turnOff o) c s form size file line result fill).state s = s) ∧
    (∀ form ∈ releaseForms, (gRelease (turnOff o) c s form addr file line).state s = s) ∧
    (gRealloc (turnOff o) c s addr size file line result fill).state s = s := by
  have h := off_position_reaches_no_detector o c s size addr file line result fill
  refine ⟨fun f hf => by rw [h.1 f hf]; rfl, fun f hf => by rw [h.2.1 f hf]; rfl, by rw [h.2.2]; rfl⟩

/-- With the plain or the thread-safe overloads switched on, `cpputest_realloc_location` is `reallocMemory` with the current
    malloc allocator, the caller's file / line and separately allocated records (so `realloc_moves_exactly` etc. speak about it). -/
theorem on_position_realloc (o : Ov) (c : Current) (s : State) (size addr : Nat) (file : String) (line result : Nat) (fill : UInt8) :
    gRealloc (turnOnPlain o) c s addr size file line result fill = .tracked (realloc s c.mallocA addr size file line true result fill) ∧
    gRealloc (turnOnThreadSafe o) c s addr size file line result fill = .tracked (realloc s c.mallocA addr size file line true result fill) := by
  constructor <;>
    simp [gRealloc, Ov.reallocFunction, turnOnPlain, turnOnThreadSafe, Store.assignConsts, plainTable, threadSafeTable, List.foldl,
      acquireWrappers, List.find?, reallocBy, Current.byGetter]

/-- With the overloads switched on, what an acquiring / releasing form does in the switch position is what the regenerated
    function-pointer table of that mode says (the dispatch `overloads_register_the_right_allocator` and C06 speak about). -/
theorem on_position_is_the_table (o : Ov) (c : Current) (s : State) (size addr : Nat) (file : String) (line result : Nat) (fill : UInt8) :
    (∀ form ∈ acquireForms,
      (∃ w, acquireWrapperOf false form = some w ∧
        gAcquire (turnOnPlain o) c s form size file line result fill = .tracked (acquireBy w c s size file line result true fill)) ∧
      (∃ w, acquireWrapperOf true form = some w ∧
        gAcquire (turnOnThreadSafe o) c s form size file line result fill = .tracked (acquireBy w c s size file line result true fill))) ∧
    (∀ form ∈ releaseForms,
      (∃ w, releaseWrapperOf false form = some w ∧
        gRelease (turnOnPlain o) c s form addr file line = .tracked (releaseBy w c s addr file line)) ∧
      (∃ w, releaseWrapperOf true form = some w ∧
        gRelease (turnOnThreadSafe o) c s form addr file line = .tracked (releaseBy w c s addr file line))) := by
  constructor
  · intro form hf
    simp only [acquireForms, List.mem_cons, List.mem_nil_iff, or_false] at hf
    rcases hf with rfl | rfl | rfl | rfl | rfl | rfl | rfl | rfl | rfl <;>
      simp [gAcquire, Ov.formFunction, acquireWrapperOf, formFunction, formFptr, formKey, overloads, turnOnPlain, turnOnThreadSafe,
        Store.assignConsts, plainTable, threadSafeTable, List.foldl, acquireWrappers, List.find?, List.lookup]
  · intro form hf
    simp only [releaseForms, List.mem_cons, List.mem_nil_iff, or_false] at hf
    rcases hf with rfl | rfl | rfl | rfl | rfl | rfl | rfl | rfl | rfl | rfl | rfl <;>
      simp [gRelease, Ov.formFunction, releaseWrapperOf, formFunction, formFptr, formKey, overloads, turnOnPlain, turnOnThreadSafe,
        Store.assignConsts, plainTable, threadSafeTable, List.foldl, releaseWrappers, List.find?, List.lookup]

/-- `GlobalMemoryAllocatorStash`: `restore()` after `save()` brings back all three current allocators, each to its own family,
    whatever was set in between and whatever the stash held before -/
theorem stash_restore_after_save (c c' : Current) (st : Stash) : stashRestoreRun (stashSaveRun c st) c' = c := by
  cases c; cases c'
  simp [stashRestoreRun, stashSaveRun, stashSave, stashRestore, List.foldl, Current.bySetter, Current.byGetter]

/-- an empty stash restores nothing -/
theorem stash_restore_empty (c : Current) : stashRestoreRun Stash.empty c = c := by
  simp [stashRestoreRun, Stash.empty, stashRestore, List.foldl]

/-- `setCurrent…AllocatorToDefault()` and `setCurrent…Allocator(NULL)` followed by the getter install the default allocator of
    THAT family (whose `alloc_name()` is what a leak entry shows as type) and leave the other two families alone -/
theorem defaults_go_to_their_family (c : Current) :
    (setCurrentNull c .new = { c with newA := defaultAllocatorOf "defaultNewAllocator" }) ∧
    (setCurrentNull c .newArray = { c with newArrayA := defaultAllocatorOf "defaultNewArrayAllocator" }) ∧
    (setCurrentNull c .malloc = { c with mallocA := defaultAllocatorOf "defaultMallocAllocator" }) ∧
    (defaultAllocatorOf "defaultNewAllocator").allocName = "new" ∧
    (defaultAllocatorOf "defaultNewArrayAllocator").allocName = "new []" ∧
    (defaultAllocatorOf "defaultMallocAllocator").allocName = "malloc" := by
  refine ⟨?_, ?_, ?_, by decide, by decide, by decide⟩ <;>
    simp [setCurrentNull, setToDefault, defaultSetterOfFamily, defaultSetters, List.find?, Current.bySetter]

/-- the static initialisers put the program in the plain position with nothing saved open -/
theorem initial_position : areOverloaded Ov.init = true ∧ Ov.init.counter = 0 ∧
    (∀ e ∈ plainTable, Ov.init.vars.get e.1 = e.2) := by decide


/-- non-vacuity: from the initial position, save twice, restore twice: back in the plain position; in between a `new` reaches
    no detector, afterwards it is `allocMemory` with the current new allocator -/
example : areOverloaded (restoreTimes 2 (saveTimes 2 Ov.init)) = true ∧ areOverloaded (saveTimes 2 Ov.init) = false ∧
    (saveTimes 2 Ov.init).counter = 2 := by decide
example : ((gAcquire (restoreTimes 2 (saveTimes 2 Ov.init)) ⟨exA0, exA0, exA0⟩ (State.init 73) "new" 4 "f.c" 7 1168 0xA5).state
    (State.init 73)).nodes.length = 1 := by decide
example : ((gAcquire (saveTimes 2 Ov.init) ⟨exA0, exA0, exA0⟩ (State.init 73) "new" 4 "f.c" 7 1168 0xA5).state
    (State.init 73)).nodes.length = 0 := by decide
end Overloads

/-! ## non-vacuity: a concrete history with three blocks in one bucket, a release from the middle of the
chain, a stage release and a report -/

def exA : Allocator := .plain 1 "Standard New Allocator" "new" "delete"

def exOps : List Op := [
  .enable,
  .alloc exA 4 "a.c" 1 false 1168 true 0xA5,
  .startChecking,
  .alloc exA 8 "b.c" 2 true (1168 + 73) true 0xA5,
  .incStage,
  .alloc exA 2 "c.c" 3 false (1168 + 146) true 0xA5,
  .alloc exA 1 "d.c" 4 false 1169 true 0xA5,
  .alloc exA 1 "e.c" 5 true 1170 false 0xA5,
  .dealloc exA (1168 + 73) "e.c" 5 true ]

def exState : State := (run (State.init 73) exOps).1

example : FreshAll (State.init 73) exOps := by
  simp [exOps, FreshAll, FreshAddr, step, isLive, State.nodes, Table.flat]
  decide

example : exState.Inv := inv_run exOps _ (inv_init 73 (by decide)) (by
  simp [exOps, FreshAll, FreshAddr, step, isLive, State.nodes, Table.flat]
  decide)

example : (exState.nodes.map (·.addr)) = [1168 + 146, 1168, 1169] := by decide
example : totalMemoryLeaks exState .checking = 2 := by decide
example : totalMemoryLeaks exState .enabled = 3 := by decide
example : (reportedLeaks exState .checking).map (·.number) = [3, 4] := by decide
example : ((deallocStage exState).1.nodes.map (·.addr)) = [1168] := by decide
example : ((markChecking exState).nodes.map (·.period)) = [.enabled, .enabled, .enabled] := by decide

/-! ## the list / table loops as regenerated from the source (`Gen/LeakDetectorLoops.lean`) are the model's

Every theorem above is stated with `Bucket.*` / `Table.*`; these equalities carry them over to the functions the translator
regenerates from `MemoryLeakDetector.cpp` on every run (loop skeleton matched, guard translated). -/

/-- the regenerated `retrieveNode` loop is the model's, for every chain and address -/
theorem gen_retrieveNode_eq (b : Bucket) (a : Nat) : Gen.LeakLoops.retrieveNode b a = Bucket.retrieveNode b a := by
  induction b with
  | nil => rfl
  | cons n rest ih => simp [Gen.LeakLoops.retrieveNode, Bucket.retrieveNode, ih]

/-- the regenerated `removeNode` loop returns what the model's `retrieveNode` finds and leaves the model's `unlinkNode` chain -/
theorem gen_removeNode_eq (b : Bucket) (a : Nat) :
    Gen.LeakLoops.removeNode b a = (Bucket.retrieveNode b a, Bucket.unlinkNode b a) := by
  induction b with
  | nil => rfl
  | cons n rest ih =>
    by_cases h : n.addr = a <;> simp [Gen.LeakLoops.removeNode, Bucket.retrieveNode, Bucket.unlinkNode, ih, h]

theorem gen_clearAllAccounting_eq (p : Period) (b : Bucket) :
    Gen.LeakLoops.clearAllAccounting p b = Bucket.clearAllAccounting p b := by
  induction b with
  | nil => rfl
  | cons n rest ih =>
    by_cases h : Gen.LeakDetector.isInPeriod n.period p = true <;>
      simp [Gen.LeakLoops.clearAllAccounting, Bucket.clearAllAccounting, isInPeriod, ih, h]

theorem gen_getLeakFrom_eq (p : Period) (b : Bucket) :
    Gen.LeakLoops.getLeakFrom p b = Bucket.getLeakFrom (isInPeriod p) b := by
  induction b with
  | nil => rfl
  | cons n rest ih =>
    by_cases h : Gen.LeakDetector.isInPeriod n.period p = true <;>
      simp [Gen.LeakLoops.getLeakFrom, Bucket.getLeakFrom, isInPeriod, ih, h]

theorem gen_getLeakForAllocationStageFrom_eq (st : BitVec 8) (b : Bucket) :
    Gen.LeakLoops.getLeakForAllocationStageFrom st b = Bucket.getLeakFrom (isInStage st) b := by
  induction b with
  | nil => rfl
  | cons n rest ih =>
    simp [Gen.LeakLoops.getLeakForAllocationStageFrom, Bucket.getLeakFrom, isInStage, Gen.LeakLoops.isInAllocationStage, ih]

theorem gen_getTotalLeaksFrom (p : Period) (b : Bucket) (k : Nat) :
    Gen.LeakLoops.getTotalLeaksFrom p k b = k + Bucket.getTotalLeaks p b := by
  induction b generalizing k with
  | nil => simp [Gen.LeakLoops.getTotalLeaksFrom, Bucket.getTotalLeaks]
  | cons n rest ih =>
    by_cases h : Gen.LeakDetector.isInPeriod n.period p = true <;>
      simp [Gen.LeakLoops.getTotalLeaksFrom, Bucket.getTotalLeaks, ih, isInPeriod, h] <;> omega

theorem gen_getTotalLeaks_eq (p : Period) (b : Bucket) : Gen.LeakLoops.getTotalLeaks p b = Bucket.getTotalLeaks p b := by
  simp [Gen.LeakLoops.getTotalLeaks, gen_getTotalLeaksFrom]

/-- the bucket loops of the table run over all buckets from 0; the search for the next leak continues in the bucket after
    the leak's own (`++i`), which is the `+ 1` of the model's `Table.getNextLeak` -/
theorem gen_table_loop_bounds : Gen.LeakLoops.tableLoopStart = 0 ∧ Gen.LeakLoops.nextLeakBucketOffset = 1 := ⟨rfl, rfl⟩

/-- so the table operations of the model are the regenerated loops run on the bucket `hash` names -/
theorem gen_table_ops (t : Table) (a : Nat) (p : Period) :
    t.retrieveNode a = Gen.LeakLoops.retrieveNode (t.bucket (t.hash a)) a ∧
    t.unlinkNode a = t.setBucket (t.hash a) (Gen.LeakLoops.removeNode (t.bucket (t.hash a)) a).2 ∧
    (t.clearAllAccounting p).buckets = t.buckets.map (Gen.LeakLoops.clearAllAccounting p) ∧
    t.getTotalLeaks p = (t.buckets.map (Gen.LeakLoops.getTotalLeaks p)).sum := by
  refine ⟨?_, ?_, ?_, ?_⟩
  · rw [gen_retrieveNode_eq]; rfl
  · rw [gen_removeNode_eq]; rfl
  · show t.buckets.map _ = _
    congr 1; funext b; rw [gen_clearAllAccounting_eq]
  · show Table.totalIn p t.buckets = _
    induction t.buckets with
    | nil => rfl
    | cons b bs ih => simp [Table.totalIn, ih, gen_getTotalLeaks_eq]


/-- non-vacuity: the regenerated loops on a three-node chain -/
example : (Gen.LeakLoops.removeNode exState.nodes 1168).2.map (·.addr) = [1168 + 146, 1169] ∧
    (Gen.LeakLoops.removeNode exState.nodes 1168).1.map (·.number) = some 1 ∧
    Gen.LeakLoops.getTotalLeaks .checking exState.nodes = 2 := by decide

/-! ## reports asked for again on one detector (no `startChecking()` in between)

`report()` appends to the text of the earlier reports and finds the builder's counters as they left them.  The
regenerated bodies say where the counters are reset: in `startMemoryLeakReporting`, i.e. at the beginning of EVERY
report, so each report states the total, the malloc note and the no-leaks answer of its own leaks. -/

section ReportAgain
open Diag

/-- both resets are statements of the regenerated `startMemoryLeakReporting` -/
theorem report_start_resets (o : OutBuf) : outStart o = o.start := by
  simp [outStart, applyResets, OutBuf.start, Gen.DiagBuf.startMemoryLeakReporting]

/-- … and `MemoryLeakOutputStringBuffer::clear` only empties the text -/
theorem text_clear_keeps_counters (o : OutBuf) : outClear o = o.clear := by
  simp [outClear, applyResets, OutBuf.clear, Gen.DiagBuf.obClear]

theorem foldl_reportLeak_total (leaks : List Leak) : ∀ o : OutBuf,
    (leaks.foldl OutBuf.reportLeak o).total = o.total + leaks.length := by
  induction leaks with
  | nil => intro o; simp
  | cons l ls ih => intro o; simp [List.foldl_cons, ih, OutBuf.reportLeak]; omega

theorem foldl_reportLeak_warn (leaks : List Leak) : ∀ o : OutBuf,
    (leaks.foldl OutBuf.reportLeak o).mallocWarn = (o.mallocWarn || leaks.any (fun l => l.allocName == Gen.Diag.mallocName)) := by
  induction leaks with
  | nil => intro o; simp
  | cons l ls ih => intro o; simp [List.foldl_cons, ih, OutBuf.reportLeak, Bool.or_assoc]

/-- Whatever the earlier reports left in the builder (`o` is arbitrary), `stopMemoryLeakReporting` finds the number of
    THIS report's leaks as the total and the malloc note flag of THIS report's leaks. -/
theorem report_again_states_true_total (o : OutBuf) (leaks : List Leak) :
    (outBeforeStop o leaks).total = leaks.length ∧
    (outBeforeStop o leaks).mallocWarn = leaks.any (fun l => l.allocName == Gen.Diag.mallocName) := by
  unfold outBeforeStop
  rw [foldl_reportLeak_total, foldl_reportLeak_warn, report_start_resets]
  simp [OutBuf.start]

/-- every report of a history of reports on one detector states the true total, regardless of the earlier ones -/
theorem every_report_states_true_total (hist : List (List Leak)) : ∀ o : OutBuf,
    statedTotals o hist = hist.map List.length := by
  induction hist with
  | nil => intro o; rfl
  | cons l rest ih => intro o; simp [statedTotals, ih, (report_again_states_true_total o l).1]

/-- the answer of a report asked for again: "no leaks" exactly when it has no leak to list; otherwise the header comes
    before its first entry and the footer is built from its own total and its own malloc flag -/
theorem report_again_answer (o : OutBuf) (leaks : List Leak) :
    (leaks = [] → (outReport o leaks).buf = (o.start.buf).add (Fmt.render Gen.Diag.noLeaksFmt [])) ∧
    (leaks ≠ [] → (outReport o leaks).buf =
        stopTail (outBeforeStop o leaks).buf leaks.length (leaks.any (fun l => l.allocName == Gen.Diag.mallocName))) ∧
    (∀ l ls, leaks = l :: ls → outBeforeStop o leaks =
        ls.foldl OutBuf.reportLeak { buf := ((o.start.buf.add headerText).add (leakText l)).addMemoryDump l.content,
                                     total := 1, mallocWarn := l.allocName == Gen.Diag.mallocName }) := by
  refine ⟨?_, ?_, ?_⟩
  · intro h; subst h
    simp [outReport, outBeforeStop, report_start_resets, OutBuf.stop, OutBuf.start]
  · intro h
    have ht := report_again_states_true_total o leaks
    have hne : leaks.length ≠ 0 := by
      intro h0; exact h (List.length_eq_zero_iff.mp h0)
    unfold outReport OutBuf.stop
    rw [ht.1, ht.2]
    simp [hne]
  · intro l ls h; subst h
    simp [outBeforeStop, report_start_resets, List.foldl_cons, OutBuf.reportLeak, OutBuf.start]

/-- non-vacuity: two leaks, one released, then the other: the three reports state 2, 1, 0 -/
def exLeakA : Leak := { number := 1, size := 2, file := [97], line := 11, allocName := [110, 101, 119], ptr := [48], content := [1, 2] }
def exLeakB : Leak := { number := 2, size := 1, file := [98], line := 22, allocName := Gen.Diag.mallocName, ptr := [49], content := [3] }

example : statedTotals OutBuf.init [[exLeakA, exLeakB], [exLeakB], []] = [2, 1, 0] :=
  every_report_states_true_total _ _
example : (outBeforeStop (outReport OutBuf.init [exLeakA, exLeakB]) [exLeakA]).mallocWarn = false :=
  (report_again_states_true_total _ _).2
example : ((outReports OutBuf.init [[exLeakA, exLeakB], [exLeakB], []]).map (·.total)) = [2, 1, 0] := by
  simp [outReports, outReport, OutBuf.stop, (report_again_states_true_total _ _).1]

end ReportAgain

end LeakDetector
