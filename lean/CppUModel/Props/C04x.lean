import CppUModel.Props.C04
import CppUModel.Props.C14
import CppUModel.Model.LeakReportText
/-!
# C04 × C14 — the report text as a function of the records

Composition of the detector model (C04: which records a report visits) with the report-buffer model
(C14: how a list of leaks becomes text in the fixed buffer).  `Node.toLeak base n` is what
`reportMemoryLeak` reads from the record `n` and its block; `Diag.leakText` / `Diag.fullListing` /
`Diag.reportText` are C14's definitions.
-/
namespace LeakDetector
open Gen.LeakDetector (Period)

/-- The text of one entry is this function of the record: allocation number (`%u`), size (`%lu`), file, line
    through `(int)`, `alloc_name()` of the record's allocator (wrappers forward to the original), the address. -/
theorem entry_text_of_record (base : Nat) (n : Node) :
    Diag.leakText (n.toLeak base) =
      Fmt.render Gen.Diag.leakFmt [.nat n.number, .nat n.size, .str (Fmt.ofString n.file), .int (Fmt.castInt32 n.line),
        .str (Fmt.ofString n.allocator.allocName), .str (ptrText base n.addr)] := rfl

/-- `report(period)` on an empty text buffer is, byte for byte, C14's report text of exactly the records the period
    sees, in table order: header, every entry with the dump of its user bytes, cut at the lowered limit with the
    too-many notice, then the complete footer with the TRUE total and the malloc note. -/
theorem report_text_exact (s : State) (inv : s.Inv) (p : Period) (base : Nat) (hn : s.nodes.length < 2147483648) :
    reportTextOf s p base = Diag.reportText ((s.nodes.filter (Spec.inPeriod p)).map (Node.toLeak base)) := by
  unfold reportTextOf
  rw [(iteration_enumerates s inv p).1]
  apply Diag.report_total_true_when_cleared _ _ rfl rfl
  rw [List.length_map]
  exact Nat.lt_of_le_of_lt (List.length_filter_le _ _) hn

/-- the closed form the drivers evaluate is C14's report text, hence the text of the buffer fold -/
theorem fast_report_text_eq (leaks : List Diag.Leak) : fastReportText leaks = Diag.reportText leaks := rfl

theorem fast_report_text_exact (s : State) (inv : s.Inv) (p : Period) (base : Nat) (hn : s.nodes.length < 2147483648) :
    fastReportTextOf s p base = reportTextOf s p base := by
  unfold fastReportTextOf reportTextOf
  rw [fast_report_text_eq]
  symm
  apply Diag.report_total_true_when_cleared _ _ rfl rfl
  rw [List.length_map, (iteration_enumerates s inv p).1]
  exact Nat.lt_of_le_of_lt (List.length_filter_le _ _) hn

/-- when the period sees no record the text is exactly "No memory leaks were detected." -/
theorem report_text_no_leaks (s : State) (inv : s.Inv) (p : Period) (base : Nat) (hn : s.nodes.length < 2147483648) :
    (∀ n ∈ s.nodes, Spec.inPeriod p n = false) → reportTextOf s p base = Diag.noLeaksText := by
  intro h
  rw [report_text_exact s inv p base hn]
  have : s.nodes.filter (Spec.inPeriod p) = [] := by
    rw [List.filter_eq_nil_iff]; intro n hn'; simp [h n hn']
  simp [this, Diag.reportText]

end LeakDetector
