import CppUModel.Proofs.AllocLayout
import CppUModel.Proofs.AllocLayoutInv
import CppUModel.Proofs.AllocLayoutCode
/-!
# C05 — tracked allocations return sound blocks for every size, or fail cleanly

Property theorems only.  Model: `CppUModel/Model/AllocLayout.lean`; the size expressions are the
REGENERATED functions of `CppUModel/Gen/AllocLayoutConstants.lean` (current source); vocabulary:
`CppUModel/Spec/AllocLayout.lean`.  Every theorem holds for both build configurations
(`c.check`: guard bytes compiled in or not) and for every `sizeof(MemoryLeakDetectorNode)` that is
a multiple of 8 below 2^32 (`NodeOk c`); `defaultCfg_ok` instantiates the regenerated value.
Environment (explicit hypotheses): an answer of the platform is NULL or a block of exactly the
requested length (`Ans.Ok`), a separately allocated node is a block different from the data block,
`realloc` hands back the common prefix (`RAns.Ok`).  That two distinct blocks do not overlap is the
platform's contract and is not a theorem.

Second part (from `## the whole-history invariant`): the invariant `Inv` of the byte-level model is
proved for every reachable state (`history_inv`, `step_preserves_inv`, `history_never_ub`), its
meaning is spelled out (`inv_meaning`), and the realloc / release / pointer-identity theorems are
derived from the invariant alone (`realloc_preserves_prefix_inv`, `realloc_failure_retracks_inv`,
`release_exact`, `free_releases_exactly`, `delete_releases_exactly`,
`returned_pointer_is_platform_pointer`, `realloc_to_zero`, `realloc_null_pointer_inv`).  The
contract of a history is `OpOk` (Spec): fresh blocks of the requested length, realloc hands back the
common prefix, clients release with the function of the block's family and store only into their
user bytes; the two listed findings are excluded there by name.
-/
namespace AllocLayout
open Gen.AllocLayout

/-! ## the regenerated constants are admissible -/

theorem defaultCfg_ok : NodeOk defaultCfg := ⟨by decide, by decide⟩
theorem noCheckCfg_ok : NodeOk noCheckCfg := ⟨by decide, by decide⟩

/-- the regenerated struct layout: fields in increasing, non-overlapping order, inside `sizeofNode` -/
theorem node_fields_fit : ∀ f ∈ nodeFields, f.2.1 + f.2.2 ≤ sizeofNode := by decide

/-! ## the overflow guard -/

/-- The coded guard of `allocMemory` rejects exactly the sizes whose bookkeeping-extended size
    (user bytes + guard bytes + alignment padding + record) does not fit `size_t`. -/
theorem guard_iff_overflow (c : Cfg) (h : NodeOk c) (size : W) :
    rejectsAlloc c size = true ↔ extNat c size.toNat ≥ 2 ^ 64 :=
  rejectsAlloc_iff c h size

/-- … and so does the guard of `reallocMemory`. -/
theorem realloc_guard_iff_overflow (c : Cfg) (h : NodeOk c) (size : W) :
    rejectsRealloc c size = true ↔ extNat c size.toNat ≥ 2 ^ 64 := by
  rw [rejectsRealloc_eq]; exact rejectsAlloc_iff c h size

/-- For an accepted size no step of the size arithmetic wraps: the coded `BitVec 64` values are
    the unbounded ones. -/
theorem accepted_no_wrap (c : Cfg) (h : NodeOk c) (size : W) (sep : Bool) (hacc : rejectsAlloc c size = false) :
    (swci c size).toNat = swciNat c size.toNat ∧
    (nodeOff c size).toNat = swciNat c size.toNat ∧
    (allocReq c sep size).toNat = (if sep then swciNat c size.toNat else extNat c size.toNat) ∧
    (reallocReq c sep size).toNat = (if sep then swciNat c size.toNat else extNat c size.toNat) :=
  ⟨swci_toNat_acc c h size hacc, nodeOff_toNat_acc c h size hacc, allocReq_toNat_acc c h size sep hacc,
   by rw [reallocReq_eq]; exact allocReq_toNat_acc c h size sep hacc⟩

example : rejectsAlloc defaultCfg (BitVec.ofNat 64 (2^64 - 1)) = true := by decide
example : rejectsAlloc defaultCfg (BitVec.ofNat 64 (2^64 - 69)) = true := by decide
example : rejectsAlloc defaultCfg (BitVec.ofNat 64 (2^64 - 76)) = false := by decide
example : rejectsAlloc defaultCfg 10#64 = false ∧ allocReq defaultCfg false 10#64 = 80#64 := by decide

/-! ## layout of an accepted request -/

/-- Accepted size ⇒ user bytes, guard bytes and the (inline) record are pairwise disjoint, in this
    order, all inside the block requested from the platform, and the record is 8-aligned. -/
theorem layout_sound (c : Cfg) (h : NodeOk c) (size : W) (sep : Bool) (hacc : rejectsAlloc c size = false) :
    (userIv size).disjoint (guardIv c size) ∧
    (guardIv c size).disjoint (nodeIv c size) ∧
    (userIv size).disjoint (nodeIv c size) ∧
    (userIv size).inside (allocReq c sep size).toNat ∧
    (guardIv c size).inside (allocReq c sep size).toNat ∧
    (sep = false → (nodeIv c size).inside (allocReq c sep size).toNat) ∧
    (c.check = true → (nodeIv c size).1 % 8 = 0) := by
  have hb := swciNat_bounds c size.toNat
  have hoff := nodeOff_toNat_acc c h size hacc
  have hreq := allocReq_toNat_acc c h size sep hacc
  unfold Iv.disjoint Iv.inside userIv guardIv nodeIv
  simp only [hoff, hreq]
  refine ⟨Or.inl (Nat.le_refl _), Or.inl (by omega), Or.inl (by omega), ⟨Nat.zero_le _, ?_⟩, ⟨by omega, ?_⟩, ?_, ?_⟩
  · cases sep <;> simp [extNat] <;> omega
  · cases sep <;> simp [extNat] <;> omega
  · intro hs; subst hs; simp [extNat]
  · intro hc; exact swciNat_aligned c hc size.toNat

/-- The same layout serves the block obtained from `PlatformSpecificRealloc`. -/
theorem realloc_layout_sound (c : Cfg) (h : NodeOk c) (size : W) (sep : Bool) (hacc : rejectsRealloc c size = false) :
    (guardIv c size).inside (reallocReq c sep size).toNat ∧
    (sep = false → (nodeIv c size).inside (reallocReq c sep size).toNat) := by
  rw [rejectsRealloc_eq] at hacc
  have := layout_sound c h size sep hacc
  rw [reallocReq_eq]; exact ⟨this.2.2.2.2.1, this.2.2.2.2.2.1⟩

/-- An accepted request asks the platform for at least `size` usable bytes plus the guard bytes. -/
theorem usable_bytes_ge_request (c : Cfg) (h : NodeOk c) (size : W) (sep : Bool) (hacc : rejectsAlloc c size = false) :
    size.toNat + c.guard.toNat ≤ (allocReq c sep size).toNat ∧
    size.toNat + c.guard.toNat ≤ (reallocReq c sep size).toNat := by
  have := (layout_sound c h size sep hacc).2.2.2.2.1
  rw [reallocReq_eq]; exact ⟨this.2, this.2⟩

example : guardIv defaultCfg 13#64 = (13, 16) ∧ nodeIv defaultCfg 13#64 = (24, 88) ∧ allocReq defaultCfg false 13#64 = 88#64 := by decide

/-! ## calloc -/

/-- The coded test `size != 0 && num > SIZE_MAX / size` is true exactly when `num * size`
    does not fit `size_t`. -/
theorem calloc_null_on_overflow (num size : W) :
    callocOverflowTest num size = true ↔ num.toNat * size.toNat ≥ 2 ^ 64 :=
  calloc_test_iff num size

/-- When the test lets the request through, the requested and the zeroed length are the exact product. -/
theorem calloc_product_exact (num size : W) (h : callocOverflowTest num size = false) :
    (callocRequest num size).toNat = num.toNat * size.toNat ∧
    (callocMemset num size).toNat = num.toNat * size.toNat :=
  calloc_request_exact num size h

example : callocOverflowTest (BitVec.ofNat 64 (2^63 + 1)) 2#64 = true := by decide
example : callocOverflowTest (BitVec.ofNat 64 (2^32)) (BitVec.ofNat 64 (2^32)) = true := by decide
example : callocOverflowTest (BitVec.ofNat 64 (2^32 + 1)) (BitVec.ofNat 64 (2^32 - 1)) = false := by decide
example : callocOverflowTest 0#64 0#64 = false := by decide

/-! ## a successful allocation -/

/-- A successful `allocMemory` (the platform handed out a block of the requested length; in the
    separate-node layout also a node block): the caller's pointer is the block, the record
    `(id, size)` is tracked on top of the old ones, the block still has its full length of which
    the first `size` bytes are the caller's (untouched by the bookkeeping writes), the guard bytes
    sit right behind them, and no other block of the memory changed. -/
theorem alloc_returns_sound_block (c : Cfg) (h : NodeOk c) (img : NodeImage) (hi : ImgOk c img) (s : State) (fam : Nat)
    (size : W) (sep0 : Bool) (id : Nat) (bytes : List UInt8) (a2 : Ans)
    (hacc : rejectsAlloc c size = false)
    (hlen : bytes.length = (allocReq c (forcedSep c sep0) size).toNat)
    (h2 : forcedSep c sep0 = true → ∃ nid nb, a2 = .block nid nb ∧ nb.length = c.node.toNat ∧ nid ≠ id) :
    ∃ s' evs, allocMemory c img s fam size sep0 (.block id bytes) a2 = (s', evs, .ptr id) ∧
      s'.trackedSet = (id, size) :: s.trackedSet ∧
      (∃ b', findBlock s'.mem id = some b' ∧ b'.bytes.length = bytes.length ∧
          b'.bytes.take size.toNat = bytes.take size.toNat ∧ size.toNat + c.guard.toNat ≤ b'.bytes.length ∧
          (b'.bytes.drop size.toNat).take c.guard.toNat = guardImage c) ∧
      (∀ j, j ≠ id → j ≠ a2.id → findBlock s'.mem j = findBlock s.mem j) :=
  allocMemory_block c h img hi s fam size sep0 id bytes a2 hacc hlen h2

/-- Under the environment contract `allocMemory` never writes outside a block and never
    dereferences NULL, for any size and any answers of the platform. -/
theorem alloc_never_ub (c : Cfg) (h : NodeOk c) (img : NodeImage) (hi : ImgOk c img) (s : State) (fam : Nat)
    (size : W) (sep0 : Bool) (a1 a2 : Ans)
    (h1 : a1.Ok (allocReq c (forcedSep c sep0) size).toNat) (h2 : a2.Ok c.node.toNat)
    (hne : a2.isNull = true ∨ a2.id ≠ a1.id) :
    (allocMemory c img s fam size sep0 a1 a2).2.2.isUb = false := by
  cases hacc : rejectsAlloc c size
  · cases a1 with
    | null => simp [allocMemory, hacc, Outcome.isUb]
    | fail => simp [allocMemory, hacc, Outcome.isUb]
    | block id bytes =>
      cases hfs : forcedSep c sep0
      · obtain ⟨s', evs, he, _⟩ := allocMemory_block c h img hi s fam size sep0 id bytes a2 hacc h1 (by simp [hfs])
        rw [he]; rfl
      · cases a2 with
        | null => simp [allocMemory, hacc, hfs, Outcome.isUb]
        | fail =>
          rw [allocMemory_block_eq c img s fam size sep0 id bytes _ hacc (by simp), hfs]
          simp [account, Outcome.isUb]
        | block nid nb =>
          have hne' : nid ≠ id := by simpa [Ans.isNull, Ans.id] using hne
          obtain ⟨s', evs, he, _⟩ := allocMemory_block c h img hi s fam size sep0 id bytes (.block nid nb) hacc h1
            (fun _ => ⟨nid, nb, rfl, h2, hne'⟩)
          rw [he]; rfl
  · simp [allocMemory, hacc, Outcome.isUb]

/-! ## failure leaves the state as it was -/

/-- An over-large size or a platform that answers NULL (or, default allocators, fails the test):
    `allocMemory` returns NULL (resp. the test failure) and the state is exactly what it was. -/
theorem alloc_failure_leaves_state (c : Cfg) (img : NodeImage) (s : State) (fam : Nat) (size : W) (sep0 : Bool) (a1 a2 : Ans)
    (hf : rejectsAlloc c size = true ∨ a1.isNull = true) :
    ∃ evs o, allocMemory c img s fam size sep0 a1 a2 = (s, evs, o) ∧ o.cleanFailure = true ∧
      (o = .null ∨ (o = .testFail ∧ a1 = .fail)) := by
  cases hacc : rejectsAlloc c size
  · rcases hf with hf | hf
    · rw [hacc] at hf; cases hf
    · cases a1 with
      | block id bytes => simp [Ans.isNull] at hf
      | null => exact ⟨[.ualloc (allocReq c (forcedSep c sep0) size) 0], .null, by simp [allocMemory, hacc], rfl, Or.inl rfl⟩
      | fail => exact ⟨[.ualloc (allocReq c (forcedSep c sep0) size) 0], .testFail, by simp [allocMemory, hacc], rfl, Or.inr ⟨rfl, rfl⟩⟩
  · exact ⟨[], .null, by simp [allocMemory, hacc], rfl, Or.inl rfl⟩

/-- The accounting node cannot be allocated (separate-node layout): NULL, the data block is given
    back to the allocator, the state is what it was. -/
theorem alloc_node_failure_leaves_state (c : Cfg) (img : NodeImage) (s : State) (fam : Nat) (size : W) (sep0 : Bool)
    (id : Nat) (bytes : List UInt8) (hacc : rejectsAlloc c size = false) (hsep : forcedSep c sep0 = true) :
    allocMemory c img s fam size sep0 (.block id bytes) .null =
      (s, [.ualloc (allocReq c true size) id, .unode c.node 0, .ufree id], .null) := by
  simp [allocMemory, hacc, hsep]

/-- Whatever happens, an `allocMemory` that does not return a block leaves the tracked set untouched. -/
theorem alloc_tracked_frame (c : Cfg) (img : NodeImage) (s : State) (fam : Nat) (size : W) (sep0 : Bool) (a1 a2 : Ans) :
    (∀ id, (allocMemory c img s fam size sep0 a1 a2).2.2 ≠ .ptr id) →
    (allocMemory c img s fam size sep0 a1 a2).1.trackedSet = s.trackedSet := by
  unfold allocMemory
  split
  · intro _; rfl
  · split
    · intro _; rfl
    · intro _; rfl
    · split
      · intro _; rfl
      · unfold account
        split
        · split
          · intro _; rfl
          · intro _; rfl
          · unfold store
            split
            · intro _; rfl
            · split
              · intro _; rfl
              · intro hp; exact absurd rfl (hp _)
        · unfold store
          split
          · intro _; rfl
          · split
            · intro _; rfl
            · intro hp; exact absurd rfl (hp _)

/-! ## operator new -/

/-- the regenerated table of `mem_leak_operator_new*`: the four throwing forms end in
    `UT_THROW_BAD_ALLOC_WHEN_NULL`, the two nothrow forms do not -/
theorem new_table : newVariants.map (fun (v : NewVariant) => (v.1, v.array, v.throws, v.nothrow)) =
    [("mem_leak_operator_new", false, true, false), ("mem_leak_operator_new_nothrow", false, false, true),
     ("mem_leak_operator_new_debug", false, true, false), ("mem_leak_operator_new_array", true, true, false),
     ("mem_leak_operator_new_array_nothrow", true, false, true), ("mem_leak_operator_new_array_debug", true, true, false)] := by
  decide

/-- every variant either throws on NULL or is a nothrow overload, never both -/
theorem new_table_exclusive : ∀ v ∈ newVariants, NewVariant.throws v = !NewVariant.nothrow v := by decide

/-- the detector itself never throws `std::bad_alloc` -/
theorem alloc_never_badAlloc (c : Cfg) (img : NodeImage) (s : State) (fam : Nat) (size : W) (sep0 : Bool) (a1 a2 : Ans) :
    (allocMemory c img s fam size sep0 a1 a2).2.2 ≠ .badAlloc := by
  unfold allocMemory
  split
  · simp
  · split
    · simp
    · simp
    · split
      · simp
      · unfold account
        split
        · split
          · simp
          · simp
          · unfold store
            split
            · simp
            · split <;> simp
        · unfold store
          split
          · simp
          · split <;> simp

/-- `operator new` throws `std::bad_alloc` exactly when the detector returned NULL and the variant
    is a throwing one; a throwing variant never returns NULL; a nothrow variant never throws
    `bad_alloc` and returns NULL exactly when the detector did.  State and events are the
    detector's. -/
theorem new_throws_iff_null (c : Cfg) (img : NodeImage) (s : State) (v : NewVariant) (size : W) (a1 a2 : Ans) :
    let d := allocMemory c img s (if v.array then famNewArray else famNew) size false a1 a2
    let r := operatorNew c img s v size a1 a2
    r.1 = d.1 ∧ r.2.1 = d.2.1 ∧
    (r.2.2 = .badAlloc ↔ (d.2.2 = .null ∧ v.throws = true)) ∧
    (r.2.2 = .null ↔ (d.2.2 = .null ∧ v.throws = false)) ∧
    (∀ id, r.2.2 = .ptr id ↔ d.2.2 = .ptr id) := by
  intro d r
  show (operatorNew c img s v size a1 a2).1 = d.1 ∧ (operatorNew c img s v size a1 a2).2.1 = d.2.1 ∧
    ((operatorNew c img s v size a1 a2).2.2 = .badAlloc ↔ (d.2.2 = .null ∧ v.throws = true)) ∧
    ((operatorNew c img s v size a1 a2).2.2 = .null ↔ (d.2.2 = .null ∧ v.throws = false)) ∧
    (∀ id, (operatorNew c img s v size a1 a2).2.2 = .ptr id ↔ d.2.2 = .ptr id)
  unfold operatorNew
  have hd : d = allocMemory c img s (if v.array then famNewArray else famNew) size false a1 a2 := rfl
  rw [← hd]
  have hnb := alloc_never_badAlloc c img s (if v.array then famNewArray else famNew) size false a1 a2
  rw [← hd] at hnb
  rcases d with ⟨s1, evs, o⟩
  cases o with
  | null => cases ht : v.throws <;> simp
  | testFail => cases hn : v.nothrow <;> simp
  | ptr id => simp
  | badAlloc => exact absurd rfl hnb
  | ub w => simp

/-- for the variants of the regenerated table: a throwing `operator new` never hands NULL to the caller -/
theorem throwing_new_never_null (c : Cfg) (img : NodeImage) (s : State) (v : NewVariant) (hv : v ∈ newVariants)
    (ht : v.nothrow = false) (size : W) (a1 a2 : Ans) :
    (operatorNew c img s v size a1 a2).2.2 ≠ .null := by
  have hx := new_table_exclusive v hv
  rw [ht] at hx
  have := (new_throws_iff_null c img s v size a1 a2).2.2.2.1
  intro hnull
  have := (this.mp hnull).2
  rw [hx] at this; cases this

/-- the tracked set after a failed `operator new` is what it was -/
theorem new_tracked_frame (c : Cfg) (img : NodeImage) (s : State) (v : NewVariant) (size : W) (a1 a2 : Ans) :
    (∀ id, (operatorNew c img s v size a1 a2).2.2 ≠ .ptr id) →
    (operatorNew c img s v size a1 a2).1.trackedSet = s.trackedSet := by
  intro hp
  have h := new_throws_iff_null c img s v size a1 a2
  simp only [] at h
  rw [h.1]
  apply alloc_tracked_frame
  intro id hid
  exact hp id ((h.2.2.2.2 id).mpr hid)

/-- platform NULL ⇒ `bad_alloc` from the throwing forms, NULL from the nothrow forms, state untouched -/
theorem new_failure_leaves_state (c : Cfg) (img : NodeImage) (s : State) (v : NewVariant) (size : W) (a2 : Ans) :
    operatorNew c img s v size .null a2 =
      (s, (allocMemory c img s (if v.array then famNewArray else famNew) size false .null a2).2.1,
       if v.throws then .badAlloc else .null) := by
  obtain ⟨evs, o, he, _, ho⟩ := alloc_failure_leaves_state c img s (if v.array then famNewArray else famNew) size false .null a2
    (Or.inr rfl)
  unfold operatorNew
  rw [he]
  rcases ho with rfl | ⟨_, h⟩
  · cases v.throws <;> rfl
  · cases h

/-! ## calloc, strdup, strndup -/

/-- A successful `cpputest_calloc`: the block is tracked with the exact product as its size and
    its first `num * size` bytes are zero. -/
theorem calloc_zero_filled (c : Cfg) (h : NodeOk c) (img : NodeImage) (hi : ImgOk c img) (s : State)
    (num size : W) (id : Nat) (bytes : List UInt8) (nid : Nat) (nb : List UInt8)
    (htest : callocOverflowTest num size = false)
    (hacc : rejectsAlloc c (callocRequest num size) = false)
    (hlen : bytes.length = (allocReq c true (callocRequest num size)).toNat)
    (hnl : nb.length = c.node.toNat) (hne : nid ≠ id) :
    ∃ s' evs, cCalloc c img s num size (.block id bytes) (.block nid nb) = (s', evs, .ptr id) ∧
      s'.trackedSet = (id, callocRequest num size) :: s.trackedSet ∧
      (callocRequest num size).toNat = num.toNat * size.toNat ∧
      userView s' id (num.toNat * size.toNat) = some (List.replicate (num.toNat * size.toNat) 0) := by
  obtain ⟨hp1, hp2⟩ := calloc_request_exact num size htest
  obtain ⟨s1, evs, he, ht, ⟨b', hb', hl', _, hfit, _⟩, _⟩ :=
    allocMemory_block c h img hi s famMalloc (callocRequest num size) true id bytes (.block nid nb) hacc
      (by rw [forcedSep_true]; exact hlen) (fun _ => ⟨nid, nb, rfl, hnl, hne⟩)
  unfold cCalloc cMalloc
  simp only [htest, Bool.false_eq_true, if_false, he]
  rw [thenWrite_ptr s1 evs id 0 _ _ b' hb' (by simp [hp2]; omega)]
  refine ⟨_, _, rfl, ht, hp1, ?_⟩
  rw [userView_setBlock s1 id _ _ b' hb']
  simp [hp2]

/-- `cpputest_calloc` with an overflowing product: NULL, nothing requested from the platform,
    state untouched. -/
theorem calloc_overflow_leaves_state (c : Cfg) (img : NodeImage) (s : State) (num size : W) (a1 a2 : Ans)
    (hov : num.toNat * size.toNat ≥ 2 ^ 64) :
    cCalloc c img s num size a1 a2 = (s, [], .null) := by
  have := (calloc_test_iff num size).mpr hov
  simp [cCalloc, this]

/-- A successful `cpputest_strdup` of a NUL-terminated buffer: the new block holds exactly the C
    string followed by its terminator, nothing of the source behind the terminator is read. -/
theorem strdup_copies_exactly (c : Cfg) (h : NodeOk c) (img : NodeImage) (hi : ImgOk c img) (s : State)
    (buf : List UInt8) (id : Nat) (bytes : List UInt8) (nid : Nat) (nb : List UInt8)
    (hnul : (0 : UInt8) ∈ buf) (hshort : buf.length < 2 ^ 62)
    (hlen : bytes.length = (allocReq c true (BitVec.ofNat 64 ((cstrOf buf).length + 1))).toNat)
    (hnl : nb.length = c.node.toNat) (hne : nid ≠ id) :
    ∃ s' evs, cStrdup c img s buf (.block id bytes) (.block nid nb) = (s', evs, .ptr id) ∧
      s'.trackedSet = (id, BitVec.ofNat 64 ((cstrOf buf).length + 1)) :: s.trackedSet ∧
      userView s' id ((cstrOf buf).length + 1) = some (cstrOf buf ++ [0]) := by
  obtain ⟨n, hn⟩ := cstrlen_some_of_nul buf hnul
  obtain ⟨h1, h2, _⟩ := cstrlen_spec buf n hn
  have hcl : (cstrOf buf).length = n := by rw [← h2]; simp; omega
  have hsz : strdupLength (BitVec.ofNat 64 n) = BitVec.ofNat 64 (n + 1) := by
    unfold strdupLength
    apply BitVec.eq_of_toNat_eq; simp [BitVec.toNat_add]; omega
  have hszn : (BitVec.ofNat 64 (n + 1)).toNat = n + 1 := by simp; omega
  unfold cStrdup
  simp only [hn, hsz]
  rw [hcl] at hlen ⊢
  obtain ⟨s', evs, he, ht, hv⟩ := strdupAlloc_copies c h img hi s buf n (BitVec.ofNat 64 (n + 1)) id bytes nid nb hszn h1
    (by rw [hszn]; omega) hlen hnl hne
  exact ⟨s', evs, he, ht, by rw [hv, h2]⟩

/-- A successful `cpputest_strndup`: the new block holds the first `min (strlen) n` bytes of the
    C string followed by a terminator. -/
theorem strndup_copies_prefix (c : Cfg) (h : NodeOk c) (img : NodeImage) (hi : ImgOk c img) (s : State)
    (buf : List UInt8) (n : W) (id : Nat) (bytes : List UInt8) (nid : Nat) (nb : List UInt8)
    (hnul : (0 : UInt8) ∈ buf) (hshort : buf.length < 2 ^ 62)
    (hlen : bytes.length = (allocReq c true (BitVec.ofNat 64 (((cstrOf buf).take n.toNat).length + 1))).toNat)
    (hnl : nb.length = c.node.toNat) (hne : nid ≠ id) :
    ∃ s' evs, cStrndup c img s buf n (.block id bytes) (.block nid nb) = (s', evs, .ptr id) ∧
      s'.trackedSet = (id, BitVec.ofNat 64 (((cstrOf buf).take n.toNat).length + 1)) :: s.trackedSet ∧
      userView s' id (((cstrOf buf).take n.toNat).length + 1) = some ((cstrOf buf).take n.toNat ++ [0]) := by
  obtain ⟨len, hn⟩ := cstrlen_some_of_nul buf hnul
  obtain ⟨h1, h2, _⟩ := cstrlen_spec buf len hn
  have hcl : (cstrOf buf).length = len := by rw [← h2]; simp; omega
  have hk : ((cstrOf buf).take n.toNat).length = min n.toNat len := by simp [hcl]
  have hnlt := n.isLt
  have hsz : strndupLength (BitVec.ofNat 64 len) n = BitVec.ofNat 64 (min n.toNat len + 1) := by
    unfold strndupLength
    apply BitVec.eq_of_toNat_eq
    have hl : (BitVec.ofNat 64 len).toNat = len := by simp; omega
    by_cases hlt : len < n.toNat
    · have : BitVec.ult (BitVec.ofNat 64 len) n = true := by simp [BitVec.ult, hl, hlt]
      simp only [this, if_true, BitVec.toNat_add, hl]
      simp; omega
    · have : BitVec.ult (BitVec.ofNat 64 len) n = false := by simp [BitVec.ult, hl]; omega
      simp only [this, Bool.false_eq_true, if_false, BitVec.toNat_add]
      simp; omega
  have hszn : (BitVec.ofNat 64 (min n.toNat len + 1)).toNat = min n.toNat len + 1 := by simp; omega
  unfold cStrndup
  simp only [hn, hsz]
  rw [hk] at hlen ⊢
  obtain ⟨s', evs, he, ht, hv⟩ := strdupAlloc_copies c h img hi s buf (min n.toNat len) (BitVec.ofNat 64 (min n.toNat len + 1))
    id bytes nid nb hszn (by omega) (by rw [hszn]; omega) hlen hnl hne
  refine ⟨s', evs, he, ht, ?_⟩
  rw [hv, ← h2, List.take_take]

/-- Out of memory (the allocator answers NULL, as `cpputest_malloc_set_out_of_memory()` arranges):
    malloc, calloc, strdup and strndup return NULL without touching the source or the state. -/
theorem c_wrappers_failure_leave_state (c : Cfg) (img : NodeImage) (s : State) (a2 : Ans) :
    (∀ size, ∃ evs, cMalloc c img s size .null a2 = (s, evs, .null)) ∧
    (∀ num size, ∃ evs, cCalloc c img s num size .null a2 = (s, evs, .null)) ∧
    (∀ buf, (0 : UInt8) ∈ buf → ∃ evs, cStrdup c img s buf .null a2 = (s, evs, .null)) ∧
    (∀ buf n, (0 : UInt8) ∈ buf → ∃ evs, cStrndup c img s buf n .null a2 = (s, evs, .null)) := by
  have hm : ∀ size, ∃ evs, cMalloc c img s size .null a2 = (s, evs, .null) := by
    intro size
    obtain ⟨evs, o, he, _, ho⟩ := alloc_failure_leaves_state c img s famMalloc size true .null a2 (Or.inr rfl)
    rcases ho with rfl | ⟨_, hx⟩
    · exact ⟨evs, he⟩
    · cases hx
  have hsd : ∀ buf size, ∃ evs, strdupAlloc c img s buf size .null a2 = (s, evs, .null) := by
    intro buf size
    obtain ⟨evs, he⟩ := hm size
    refine ⟨evs, ?_⟩
    unfold strdupAlloc
    split
    · rw [he]
    · rw [he]; rfl
  refine ⟨hm, ?_, ?_, ?_⟩
  · intro num size
    unfold cCalloc
    split
    · exact ⟨[], rfl⟩
    · obtain ⟨evs, he⟩ := hm (callocRequest num size)
      exact ⟨evs, by rw [he]⟩
  · intro buf hnul
    obtain ⟨n, hn⟩ := cstrlen_some_of_nul buf hnul
    unfold cStrdup; simp only [hn]; exact hsd _ _
  · intro buf n hnul
    obtain ⟨k, hn⟩ := cstrlen_some_of_nul buf hnul
    unfold cStrndup; simp only [hn]; exact hsd _ _

/-! ## realloc -/

/-- An over-large new size: NULL before anything is touched. -/
theorem realloc_rejected_leaves_state (c : Cfg) (img : NodeImage) (s : State) (fam : Nat) (ptr : Option Nat) (size : W)
    (sep0 : Bool) (ar : RAns) (a2 : Ans) (hrej : rejectsRealloc c size = true) :
    reallocMemory c img s fam ptr size sep0 ar a2 = (s, [], .null) := by
  simp [reallocMemory, hrej]

/-- A failing `PlatformSpecificRealloc`: whenever `reallocMemory` then returns NULL, the detector
    tracks exactly the blocks (address and size) it tracked before — the old block is re-tracked. -/
theorem realloc_null_keeps_tracked (c : Cfg) (img : NodeImage) (s : State) (fam : Nat) (ptr : Option Nat) (size : W)
    (sep0 : Bool) (a2 : Ans) :
    (reallocMemory c img s fam ptr size sep0 .null a2).2.2 = .null →
    ((reallocMemory c img s fam ptr size sep0 .null a2).1.trackedSet).Perm s.trackedSet := by
  unfold reallocMemory
  split
  · intro _; exact List.Perm.refl _
  · split
    · -- realloc(NULL, n)
      unfold reallocRest
      intro _; exact List.Perm.refl _
    · next id =>
      split
      · intro _; exact List.Perm.refl _
      · next o rest hrem =>
        obtain ⟨hp, _⟩ := removeRec_perm s.tracked id o rest hrem
        split
        · intro hx; simp at hx
        · next m1 evs hc =>
          unfold reallocRest retrack
          simp only []
          split
          · split
            · intro hx; simp at hx
            · intro hx; simp at hx
            · split
              · intro hx; simp at hx
              · intro _
                simp only [State.trackedSet, List.map_cons]
                exact (trackedSet_perm hp).symm
          · split
            · intro hx; simp at hx
            · intro _
              simp only [State.trackedSet, List.map_cons]
              exact (trackedSet_perm hp).symm

/-- A failing platform realloc of a live, intact block in the inline layout: NULL is returned, the
    old record is back in the table, and the old block keeps its length, its user bytes and its
    guard bytes (only the record behind them is rewritten). -/
theorem realloc_failure_retracks_inline (c : Cfg) (h : NodeOk c) (img : NodeImage) (hi : ImgOk c img) (s : State)
    (fam oid : Nat) (size : W) (sep0 : Bool) (a2 : Ans) (o : Rec) (rest : List Rec) (m1 : List Block) (evs0 : List Ev)
    (ob : Block)
    (hacc : rejectsRealloc c size = false) (hsep : forcedSep c sep0 = false)
    (hrem : removeRec s.tracked oid = some (o, rest))
    (hcfc : checkForCorruption c s.mem o fam false = (m1, evs0, false))
    (hoacc : rejectsAlloc c o.size = false)                              -- the old size had been accepted
    (hob : findBlock m1 oid = some ob) (hol : ob.bytes.length = (allocReq c false o.size).toNat) :
    ∃ s' evs, reallocMemory c img s fam (some oid) size sep0 .null a2 = (s', evs, .null) ∧
      s'.trackedSet = (oid, o.size) :: rest.map (fun r => (r.id, r.size)) ∧
      ∃ b', findBlock s'.mem oid = some b' ∧ b'.bytes.length = ob.bytes.length ∧
        b'.bytes.take (o.size.toNat + c.guard.toNat) = ob.bytes.take (o.size.toNat + c.guard.toNat) := by
  obtain ⟨_, hoid⟩ := removeRec_perm s.tracked oid o rest hrem
  have hb := swciNat_bounds c o.size.toNat
  have hoff := nodeOff_toNat_acc c h o.size hoacc
  have hreq := allocReq_toNat_acc c h o.size false hoacc
  simp only [Bool.false_eq_true, if_false] at hreq
  have hil := hi { o with sep := false, nodeId := 0 }
  have hfit : (nodeOff c o.size).toNat + (img { o with sep := false, nodeId := 0 }).length ≤ ob.bytes.length := by
    rw [hil, hol, hreq, hoff]; unfold extNat; omega
  have hob' : findBlock m1 o.id = some ob := by rw [hoid]; exact hob
  have hw := writeBlock_some (m := m1) (id := o.id) (off := (nodeOff c o.size).toNat)
    (src := img { o with sep := false, nodeId := 0 }) hob' hfit
  generalize hbs : ob.bytes.take (nodeOff c o.size).toNat ++ img { o with sep := false, nodeId := 0 } ++
    ob.bytes.drop ((nodeOff c o.size).toNat + (img { o with sep := false, nodeId := 0 }).length) = bs1 at hw
  have hwa : writeAt ob.bytes (nodeOff c o.size).toNat (img { o with sep := false, nodeId := 0 }) = some bs1 := by
    rw [← hbs]; exact writeAt_some hfit
  refine ⟨{ tracked := { o with sep := false, nodeId := 0 } :: rest, mem := setBlock m1 o.id bs1, seq := s.seq },
    evs0 ++ [.urealloc o.id (reallocReq c false size) 0], ?_, ?_, ⟨o.id, bs1⟩, ?_, writeAt_length hwa, ?_⟩
  · unfold reallocMemory
    simp only [hacc, Bool.false_eq_true, if_false, hrem, hsep, hcfc]
    unfold reallocRest retrack writeNode
    simp only [Bool.false_eq_true, if_false, hw]
  · simp [State.trackedSet, hoid]
  · show findBlock (setBlock m1 o.id bs1) oid = some ⟨o.id, bs1⟩
    rw [← hoid]; exact findBlock_setBlock_same bs1 hob'
  · exact writeAt_take hwa _ (by omega)

/-- The same in the separate-node layout when the allocator provides the new node block. -/
theorem realloc_failure_retracks_separate (c : Cfg) (img : NodeImage) (hi : ImgOk c img) (s : State)
    (fam oid : Nat) (size : W) (sep0 : Bool) (nid : Nat) (nb : List UInt8) (o : Rec) (rest : List Rec) (m1 : List Block)
    (evs0 : List Ev)
    (hacc : rejectsRealloc c size = false) (hsep : forcedSep c sep0 = true)
    (hrem : removeRec s.tracked oid = some (o, rest))
    (hcfc : checkForCorruption c s.mem o fam true = (m1, evs0, false))
    (hnl : nb.length = c.node.toNat) :
    ∃ s' evs, reallocMemory c img s fam (some oid) size sep0 .null (.block nid nb) = (s', evs, .null) ∧
      s'.trackedSet = (oid, o.size) :: rest.map (fun r => (r.id, r.size)) ∧
      ∀ j, j ≠ nid → findBlock s'.mem j = findBlock m1 j := by
  obtain ⟨_, hoid⟩ := removeRec_perm s.tracked oid o rest hrem
  have hil := hi { o with sep := true, nodeId := nid }
  have hw := writeBlock_some (m := ⟨nid, nb⟩ :: m1) (id := nid) (off := 0)
    (src := img { o with sep := true, nodeId := nid }) (findBlock_cons_self nid nb m1) (by simp only []; omega)
  generalize (⟨nid, nb⟩ : Block).bytes.take 0 ++ img { o with sep := true, nodeId := nid } ++
    (⟨nid, nb⟩ : Block).bytes.drop (0 + (img { o with sep := true, nodeId := nid }).length) = bs1 at hw
  refine ⟨{ tracked := { o with sep := true, nodeId := nid } :: rest, mem := setBlock (⟨nid, nb⟩ :: m1) nid bs1, seq := s.seq },
    evs0 ++ [.urealloc o.id (reallocReq c true size) 0] ++ [.unode c.node nid], ?_, ?_, ?_⟩
  · unfold reallocMemory
    simp only [hacc, Bool.false_eq_true, if_false, hrem, hsep, hcfc]
    unfold reallocRest retrack writeNode
    simp only [if_true, hw]
  · simp [State.trackedSet, hoid]
  · intro j hj
    show findBlock (setBlock (⟨nid, nb⟩ :: m1) nid bs1) j = findBlock m1 j
    rw [findBlock_setBlock_ne bs1 hj, findBlock_cons_ne nb m1 (Ne.symm hj)]

/-- A successful `reallocMemory` of a live, intact block: under the platform realloc contract
    (`RAns.Ok`: a block of the requested length that starts with the common prefix of the old one)
    the new block is tracked in place of the old one and its first `min old new` user bytes are the
    old block's — the guard bytes and the record written afterwards do not touch them. -/
theorem realloc_preserves_prefix (c : Cfg) (h : NodeOk c) (img : NodeImage) (hi : ImgOk c img) (s : State)
    (fam oid : Nat) (size : W) (sep0 : Bool) (nid : Nat) (nb : List UInt8) (a2 : Ans)
    (o : Rec) (rest : List Rec) (m1 : List Block) (evs0 : List Ev) (ob : Block)
    (hacc : rejectsRealloc c size = false)
    (hrem : removeRec s.tracked oid = some (o, rest))
    (hcfc : checkForCorruption c s.mem o fam (forcedSep c sep0) = (m1, evs0, false))
    (_hob : findBlock m1 oid = some ob) (hosz : o.size.toNat ≤ ob.bytes.length)
    (hok : RAns.Ok ob.bytes (reallocReq c (forcedSep c sep0) size).toNat (.moved nid nb))
    (h2 : forcedSep c sep0 = true → ∃ k kb, a2 = .block k kb ∧ kb.length = c.node.toNat ∧ k ≠ nid) :
    ∃ s' evs, reallocMemory c img s fam (some oid) size sep0 (.moved nid nb) a2 = (s', evs, .ptr nid) ∧
      s'.trackedSet = (nid, size) :: rest.map (fun r => (r.id, r.size)) ∧
      userView s' nid (min o.size.toNat size.toNat) = some (ob.bytes.take (min o.size.toNat size.toNat)) := by
  have hacc' : rejectsAlloc c size = false := by rw [← rejectsRealloc_eq]; exact hacc
  obtain ⟨hl, hpre⟩ := hok
  have hus := (usable_bytes_ge_request c h size (forcedSep c sep0) hacc').2
  obtain ⟨s', evs, he, ht, ⟨b', hb', _, htk, _, _⟩, _⟩ :=
    account_block c h img hi rest (dropBlock m1 o.id) s.seq fam size (forcedSep c sep0) nid nb a2
      (evs0 ++ [.urealloc o.id (reallocReq c (forcedSep c sep0) size) nid]) hacc'
      (by rw [← reallocReq_eq]; exact hl) h2
  refine ⟨s', evs, ?_, ht, ?_⟩
  · unfold reallocMemory
    simp only [hacc, Bool.false_eq_true, if_false, hrem, hcfc]
    unfold reallocRest
    exact he
  · unfold userView
    rw [hb']
    simp only [Option.map_some]
    congr 1
    -- the first min(old,new) bytes: b' = nb on [0,size), nb = old on [0, min(len old, req))
    have hk1 : min o.size.toNat size.toNat ≤ size.toNat := Nat.min_le_right _ _
    have hk2 : min o.size.toNat size.toNat ≤ min ob.bytes.length (reallocReq c (forcedSep c sep0) size).toNat := by
      have := Nat.min_le_left o.size.toNat size.toNat
      omega
    calc b'.bytes.take (min o.size.toNat size.toNat)
        = (b'.bytes.take size.toNat).take (min o.size.toNat size.toNat) := by
          rw [List.take_take, Nat.min_eq_left hk1]
      _ = (nb.take size.toNat).take (min o.size.toNat size.toNat) := by rw [htk]
      _ = nb.take (min o.size.toNat size.toNat) := by rw [List.take_take, Nat.min_eq_left hk1]
      _ = (nb.take (min ob.bytes.length (reallocReq c (forcedSep c sep0) size).toNat)).take (min o.size.toNat size.toNat) := by
          rw [List.take_take, Nat.min_eq_left hk2]
      _ = (ob.bytes.take (min ob.bytes.length (reallocReq c (forcedSep c sep0) size).toNat)).take (min o.size.toNat size.toNat) := by
          rw [hpre]
      _ = ob.bytes.take (min o.size.toNat size.toNat) := by rw [List.take_take, Nat.min_eq_left hk2]

/-- `realloc(NULL, n)` behaves as an allocation: a sound, tracked block. -/
theorem realloc_null_pointer_allocates (c : Cfg) (h : NodeOk c) (img : NodeImage) (hi : ImgOk c img) (s : State)
    (fam : Nat) (size : W) (sep0 : Bool) (nid : Nat) (nb : List UInt8) (a2 : Ans)
    (hacc : rejectsRealloc c size = false)
    (hl : nb.length = (reallocReq c (forcedSep c sep0) size).toNat)
    (h2 : forcedSep c sep0 = true → ∃ k kb, a2 = .block k kb ∧ kb.length = c.node.toNat ∧ k ≠ nid) :
    ∃ s' evs, reallocMemory c img s fam none size sep0 (.moved nid nb) a2 = (s', evs, .ptr nid) ∧
      s'.trackedSet = (nid, size) :: s.trackedSet := by
  have hacc' : rejectsAlloc c size = false := by rw [← rejectsRealloc_eq]; exact hacc
  obtain ⟨s', evs, he, ht, _⟩ :=
    account_block c h img hi s.tracked s.mem s.seq fam size (forcedSep c sep0) nid nb a2
      ([] ++ [.urealloc 0 (reallocReq c (forcedSep c sep0) size) nid]) hacc'
      (by rw [← reallocReq_eq]; exact hl) h2
  refine ⟨s', evs, ?_, ht⟩
  unfold reallocMemory
  simp only [hacc, Bool.false_eq_true, if_false]
  unfold reallocRest
  exact he

/-! ## the listed finding c05-node-alloc-null, visible in the model -/

/-- Full-strength statement for `reallocMemory`: under the environment contract (the platform
    realloc hands back a block of the requested length, the allocator answers NULL or a node
    block) a reallocation never runs into undefined behaviour. -/
def realloc_never_ub_full : Prop :=
  ∀ (c : Cfg) (img : NodeImage) (s : State) (fam : Nat) (size : W) (sep0 : Bool) (nid : Nat) (nb : List UInt8) (a2 : Ans),
    NodeOk c → ImgOk c img → nb.length = (reallocReq c (forcedSep c sep0) size).toNat → a2.Ok c.node.toNat →
    (reallocMemory c img s fam none size sep0 (.moved nid nb) a2).2.2.isUb = false

/-- It is FALSE for the current source: in the separate-node layout (`cpputest_realloc`, or any
    allocation of the build without guard bytes) a NULL from `allocMemoryLeakNode` is dereferenced
    by `storeLeakInformation` (known finding c05-node-alloc-null; witness: `realloc(NULL, 10)`). -/
theorem realloc_never_ub_full_fails_known : ¬ realloc_never_ub_full := by
  intro hfull
  have := hfull defaultCfg (fun _ => List.replicate 64 0) {} famMalloc 10#64 true 1 (List.replicate 16 0) .null
    defaultCfg_ok (by intro r; simp [defaultCfg, sizeofNode]) (by decide) trivial
  revert this
  decide

/-- What is proved instead: with a node block available (or the inline layout) `realloc(NULL, n)`
    is sound (`realloc_null_pointer_allocates`), a successful move is sound
    (`realloc_preserves_prefix`), a failed platform realloc re-tracks the old block
    (`realloc_failure_retracks_inline/_separate`, `realloc_null_keeps_tracked`); and the only way
    `realloc(NULL, n)` reaches undefined behaviour is the NULL node. -/
theorem realloc_never_ub_partial (c : Cfg) (h : NodeOk c) (img : NodeImage) (hi : ImgOk c img) (s : State)
    (fam : Nat) (size : W) (sep0 : Bool) (nid : Nat) (nb : List UInt8) (a2 : Ans)
    (hl : nb.length = (reallocReq c (forcedSep c sep0) size).toNat) (h2 : a2.Ok c.node.toNat)
    (hne : a2.id ≠ nid)
    (hnn : ¬ (forcedSep c sep0 = true ∧ a2 = .null)) :
    (reallocMemory c img s fam none size sep0 (.moved nid nb) a2).2.2.isUb = false := by
  cases hacc : rejectsRealloc c size
  · cases hfs : forcedSep c sep0
    · obtain ⟨s', evs, he, _⟩ := realloc_null_pointer_allocates c h img hi s fam size sep0 nid nb a2 hacc hl (by simp [hfs])
      rw [he]; rfl
    · cases a2 with
      | null => exact absurd ⟨hfs, rfl⟩ hnn
      | fail =>
        unfold reallocMemory
        simp only [hacc, Bool.false_eq_true, if_false, hfs]
        unfold reallocRest account
        simp [Outcome.isUb]
      | block k kb =>
        obtain ⟨s', evs, he, _⟩ := realloc_null_pointer_allocates c h img hi s fam size sep0 nid nb (.block k kb) hacc hl
          (fun _ => ⟨k, kb, rfl, h2, by simpa [Ans.id] using hne⟩)
        rw [he]; rfl
  · rw [realloc_rejected_leaves_state c img s fam none size sep0 _ a2 hacc]; rfl

/-! ## the listed finding c05-nothrow-new-terminate, visible in the model -/

/-- the detector reports a test failure only when an allocator did (`checkedMalloc`'s FAIL) -/
theorem alloc_testFail_only_if_fail (c : Cfg) (img : NodeImage) (s : State) (fam : Nat) (size : W) (sep0 : Bool) (a1 a2 : Ans) :
    (allocMemory c img s fam size sep0 a1 a2).2.2 = .testFail → a1 = .fail ∨ a2 = .fail := by
  unfold allocMemory
  split
  · simp
  · split
    · simp
    · simp
    · split
      · simp
      · unfold account
        split
        · split
          · simp
          · simp
          · unfold store
            split
            · simp
            · split <;> simp
        · unfold store
          split
          · simp
          · split <;> simp

/-- Full-strength statement: no `operator new` variant of the regenerated table runs into
    undefined behaviour, whatever the platform answers. -/
def new_never_ub_full : Prop :=
  ∀ (c : Cfg) (img : NodeImage) (s : State) (v : NewVariant) (size : W) (a1 a2 : Ans),
    v ∈ newVariants → NodeOk c → ImgOk c img →
    a1.Ok (allocReq c (forcedSep c false) size).toNat → a2.Ok c.node.toNat → (a2.isNull = true ∨ a2.id ≠ a1.id) →
    (operatorNew c img s v size a1 a2).2.2.isUb = false

/-- FALSE for the current source: with the default allocator a platform NULL becomes a test
    failure that is thrown through the `noexcept` nothrow overloads (`std::terminate`; known finding
    c05-nothrow-new-terminate; witness `new (std::nothrow) char[10]`). -/
theorem new_never_ub_full_fails_known : ¬ new_never_ub_full := by
  intro hfull
  have := hfull defaultCfg (fun _ => List.replicate 64 0) {} ("mem_leak_operator_new_array_nothrow", true, false, true)
    10#64 .fail .null (by decide) defaultCfg_ok (by intro r; simp [defaultCfg, sizeofNode]) trivial trivial (Or.inl rfl)
  revert this
  decide

/-- What is proved: with allocators that signal failure by NULL (every allocator except the default
    ones under platform out-of-memory) no `operator new` variant reaches undefined behaviour, and
    the throwing variants never do. -/
theorem new_never_ub_partial (c : Cfg) (h : NodeOk c) (img : NodeImage) (hi : ImgOk c img) (s : State) (v : NewVariant)
    (size : W) (a1 a2 : Ans)
    (h1 : a1.Ok (allocReq c (forcedSep c false) size).toNat) (h2 : a2.Ok c.node.toNat)
    (hne : a2.isNull = true ∨ a2.id ≠ a1.id)
    (hnf : v.nothrow = false ∨ (a1 ≠ .fail ∧ a2 ≠ .fail)) :
    (operatorNew c img s v size a1 a2).2.2.isUb = false := by
  have hu := alloc_never_ub c h img hi s (if v.array then famNewArray else famNew) size false a1 a2 h1 h2 hne
  have ht := alloc_testFail_only_if_fail c img s (if v.array then famNewArray else famNew) size false a1 a2
  unfold operatorNew
  generalize allocMemory c img s (if v.array then famNewArray else famNew) size false a1 a2 = d at hu ht
  rcases d with ⟨s1, evs, o⟩
  cases o with
  | null => cases v.throws <;> rfl
  | testFail =>
    rcases hnf with hn | ⟨hn1, hn2⟩
    · simp [hn, Outcome.isUb]
    · rcases ht rfl with hx | hx
      · exact absurd hx hn1
      · exact absurd hx hn2
  | ptr id => rfl
  | badAlloc => rfl
  | ub w => simp [Outcome.isUb] at hu

/-! ## non-vacuity: concrete runs of the model -/

def img0 : NodeImage := fun _ => List.replicate 64 0x4e

example : ImgOk defaultCfg img0 := by intro r; simp [img0, defaultCfg, sizeofNode]

/-- inline layout, 2 user bytes: 72-byte block, guard `BAS` at offset 2, record at offset 8 -/
example : (allocMemory defaultCfg img0 {} famNew 2#64 false (.block 1 (List.replicate 72 0)) .null).2.2 = .ptr 1 := by decide

example : ((allocMemory defaultCfg img0 {} famNew 2#64 false (.block 1 (List.replicate 72 0)) .null).1.mem.map
    (fun b => b.bytes.take 8)) = [[0, 0, 66, 65, 83, 0, 0, 0]] := by decide

/-- the unrepaired arithmetic would have asked for 72 bytes for SIZE_MAX; the guard now rejects it -/
example : (allocMemory defaultCfg img0 {} famNew (BitVec.ofNat 64 (2^64 - 1)) false (.block 1 (List.replicate 72 0)) .null).2.2 = .null := by
  decide

/-- a failing platform realloc keeps the block tracked -/
example :
    let s1 := (allocMemory defaultCfg img0 {} famNew 2#64 false (.block 1 (List.replicate 72 0)) .null).1
    (reallocMemory defaultCfg img0 s1 famNew (some 1) 5#64 false .null .null).2.2 = .null ∧
    (reallocMemory defaultCfg img0 s1 famNew (some 1) 5#64 false .null .null).1.trackedSet = [(1, 2#64)] := by decide

/-! ## the whole-history invariant -/

/-- The empty detector satisfies the invariant. -/
theorem inv_empty (c : Cfg) : Inv c {} := inv_initial c

/-- **Every public operation keeps the invariant and never reaches undefined behaviour**, for both
    build configurations, every size, every answer of the platform that meets its contract
    (`OpOk`), outside the two listed findings (which `OpOk` excludes by name). -/
theorem step_preserves_inv (c : Cfg) (hn : NodeOk c) (img : NodeImage) (hi : ImgOk c img) (s : State) (h : Inv c s)
    (op : Op) (hop : OpOk c s op) :
    Inv c (step c img s op).1 ∧ (step c img s op).2.2.isUb = false :=
  step_inv c hn img hi h op hop

/-- **Every state reachable from the empty detector** through `new`/`new[]`/`malloc`/`calloc`/
    `strdup`/`strndup`/`realloc`/`free`/`delete`/`delete[]` and client stores into user bytes, of
    any length, satisfies the invariant. -/
theorem history_inv (c : Cfg) (hn : NodeOk c) (img : NodeImage) (hi : ImgOk c img) (ops : List Op)
    (hok : OpsOk c img {} ops) : Inv c (run c img {} ops) :=
  run_inv c hn img hi ops {} (inv_initial c) hok

/-- … and no operation of such a history reaches undefined behaviour (no write outside a block, no
    NULL dereference): the last step of any history, hence every step. -/
theorem history_never_ub (c : Cfg) (hn : NodeOk c) (img : NodeImage) (hi : ImgOk c img) (ops : List Op) (op : Op)
    (hok : OpsOk c img {} (ops ++ [op])) :
    (step c img (run c img {} ops) op).2.2.isUb = false := by
  obtain ⟨h1, h2⟩ := opsOk_append c img ops {} op hok
  exact (step_inv c hn img hi (history_inv c hn img hi ops h1) op h2).2

/-- What the invariant says, spelled out: (1) tracked blocks are pairwise different platform blocks
    and no record's node block is a tracked data block; (2) every tracked block is live, exactly as
    long as it was requested, with at least `size` user bytes and the guard bytes intact behind
    them; (3) the record is where the layout puts it: inline — inside the data block, behind the
    guard bytes, 8-aligned; separate — in a live block of its own of the record's size. -/
theorem inv_meaning (c : Cfg) (hn : NodeOk c) (s : State) (h : Inv c s) :
    (s.tracked.map (·.id)).Nodup ∧
    (∀ r ∈ s.tracked, ∀ r' ∈ s.tracked, r.sep = true → r.nodeId ≠ r'.id) ∧
    (∀ r ∈ s.tracked, ∃ b, findBlock s.mem r.id = some b ∧
        b.bytes.length = (allocReq c r.sep r.size).toNat ∧
        r.size.toNat + c.guard.toNat ≤ b.bytes.length ∧
        (b.bytes.drop r.size.toNat).take c.guard.toNat = guardImage c ∧
        (r.sep = false → (guardIv c r.size).disjoint (nodeIv c r.size) ∧ (nodeIv c r.size).inside b.bytes.length ∧
            (c.check = true → (nodeIv c r.size).1 % 8 = 0)) ∧
        (r.sep = true → ∃ nb, findBlock s.mem r.nodeId = some nb ∧ nb.bytes.length = c.node.toNat)) := by
  refine ⟨(ids_sublist_owned s.tracked).nodup h.nodup, ?_, ?_⟩
  · intro r hr r' hr' hs he
    have h1 : r.nodeId ∈ r.owned := by unfold Rec.owned; simp [hs]
    have h2 : r.nodeId ∈ r'.owned := by rw [he]; exact id_mem_owned r'
    have : r = r' := owned_inj h.nodup hr hr' h1 h2
    subst this
    exact ((h.recs r hr).node.1 hs).1 he
  · intro r hr
    have ok := h.recs r hr
    obtain ⟨b, hb, hl, hg⟩ := ok.blk
    have lay := layout_sound c hn r.size r.sep ok.acc
    refine ⟨b, hb, hl, ?_, hg, ?_, fun hs => (ok.node.1 hs).2⟩
    · rw [hl]; exact (usable_bytes_ge_request c hn r.size r.sep ok.acc).1
    · intro hs
      rw [hl]
      exact ⟨lay.2.1, lay.2.2.2.2.2.1 hs, lay.2.2.2.2.2.2⟩

/-! ## realloc of a tracked block, from the invariant alone -/

/-- **`cpputest_realloc` of any tracked malloc-family block that the platform moves**: in every
    reachable state (`Inv`), under the platform contract, the result is the new block, tracked in
    place of the old one, its first `min old new` user bytes are the old block's, and the invariant
    holds again.  No hypothesis about the table lookup or the guard check is left: both follow from
    the invariant. -/
theorem realloc_preserves_prefix_inv (c : Cfg) (hn : NodeOk c) (img : NodeImage) (hi : ImgOk c img) (s : State) (h : Inv c s)
    (o : Rec) (ho : o ∈ s.tracked) (hfam : o.fam = famMalloc) (size : W) (nid : Nat) (nb : List UInt8) (k : Nat) (kb : List UInt8)
    (hacc : rejectsRealloc c size = false)
    (har : RAns.EnvOk s.mem (some o.id) (reallocReq c true size).toNat (.moved nid nb))
    (hkl : kb.length = c.node.toNat) (hkf : Fresh s.mem k) (hkn : k ≠ nid) :
    ∃ s' evs rest, cRealloc c img s (some o.id) size (.moved nid nb) (.block k kb) = (s', evs, .ptr nid) ∧
      removeRec s.tracked o.id = some (o, rest) ∧
      s'.trackedSet = (nid, size) :: rest.map (fun r => (r.id, r.size)) ∧
      userView s' nid (min o.size.toNat size.toNat) = userView s o.id (min o.size.toNat size.toNat) ∧
      Inv c s' := by
  obtain ⟨rest, hrem⟩ := removeRec_of_tracked c h ho
  obtain ⟨_, _, hcfc, _, ⟨ob, hob1, hob, hol, _⟩, hoacc, _⟩ := realloc_old_record c h hrem hfam
  obtain ⟨hl, _, hpre⟩ := har
  have hosz : o.size.toNat ≤ ob.bytes.length := by
    have := (usable_bytes_ge_request c hn o.size true hoacc).1
    omega
  have hfs := forcedSep_true' c
  obtain ⟨s', evs, he, ht, hv⟩ := realloc_preserves_prefix c hn img hi s famMalloc o.id size true nid nb (.block k kb)
    o rest (dropBlock s.mem o.nodeId) [.unodefree o.nodeId] ob hacc hrem (by rw [hfs]; exact hcfc) hob1 hosz
    (by rw [hfs]; exact ⟨hl, hpre o.id ob rfl hob⟩) (fun _ => ⟨k, kb, rfl, hkl, hkn⟩)
  have hinv := (cRealloc_inv c hn img hi h (some o.id) size (.moved nid nb) (.block k kb)
    (fun id hid r hr hrid => by
      cases hid
      have : r = o := owned_inj h.nodup hr ho (id_mem_owned r) (by rw [hrid]; exact id_mem_owned o)
      rw [this]; exact hfam)
    ⟨hl, ‹_›, hpre⟩ hkl hkf (Or.inr hkn) (by simp)).1
  refine ⟨s', evs, rest, he, hrem, ht, ?_, ?_⟩
  · rw [hv]; unfold userView; rw [hob]; rfl
  · have : cRealloc c img s (some o.id) size (.moved nid nb) (.block k kb) = (s', evs, .ptr nid) := he
    rw [this] at hinv; exact hinv

/-- **A failing `PlatformSpecificRealloc` on any tracked malloc-family block** (node block
    available): NULL, the old block is tracked again with its old size, its bytes are untouched, every
    other block is untouched, the invariant holds again. -/
theorem realloc_failure_retracks_inv (c : Cfg) (hn : NodeOk c) (img : NodeImage) (hi : ImgOk c img) (s : State) (h : Inv c s)
    (o : Rec) (ho : o ∈ s.tracked) (hfam : o.fam = famMalloc) (size : W) (k : Nat) (kb : List UInt8)
    (hacc : rejectsRealloc c size = false) (hkl : kb.length = c.node.toNat) (hkf : Fresh s.mem k) :
    ∃ s' evs rest, cRealloc c img s (some o.id) size .null (.block k kb) = (s', evs, .null) ∧
      removeRec s.tracked o.id = some (o, rest) ∧
      s'.trackedSet = (o.id, o.size) :: rest.map (fun r => (r.id, r.size)) ∧
      (∀ j, j ≠ k → j ≠ o.nodeId → findBlock s'.mem j = findBlock s.mem j) ∧
      Inv c s' := by
  obtain ⟨rest, hrem⟩ := removeRec_of_tracked c h ho
  obtain ⟨_, _, hcfc, _, _, _⟩ := realloc_old_record c h hrem hfam
  have hfs := forcedSep_true' c
  obtain ⟨s', evs, he, ht, hfr⟩ := realloc_failure_retracks_separate c img hi s famMalloc o.id size true k kb o rest
    (dropBlock s.mem o.nodeId) [.unodefree o.nodeId] hacc hfs hrem hcfc hkl
  have hinv := (cRealloc_inv c hn img hi h (some o.id) size .null (.block k kb)
    (fun id hid r hr hrid => by
      cases hid
      have : r = o := owned_inj h.nodup hr ho (id_mem_owned r) (by rw [hrid]; exact id_mem_owned o)
      rw [this]; exact hfam)
    trivial hkl hkf trivial (by simp)).1
  have he' : cRealloc c img s (some o.id) size .null (.block k kb) = (s', evs, .null) := he
  rw [he'] at hinv
  refine ⟨s', evs, rest, he', hrem, ht, ?_, hinv⟩
  intro j hj1 hj2
  rw [hfr j hj1, findBlock_dropBlock_ne hj2]

/-! ## release: `cpputest_free`, `operator delete`, `operator delete[]` -/

/-- **Releasing any tracked block with the release function of its family**, in every reachable
    state and in both layouts: nothing is reported; the platform's `free_memory` is called exactly
    once and with the very pointer the client holds (= the pointer the platform handed out: block
    `r.id` at offset 0), after `freeMemoryLeakNode` for a separately kept node; exactly this record
    leaves the table; exactly its data block (and node block) leave the memory; every other block
    is untouched; the invariant holds again. -/
theorem release_exact (c : Cfg) (hn : NodeOk c) (s : State) (h : Inv c s) (r : Rec) (hr : r ∈ s.tracked)
    (sep0 : Bool) (hsep0 : sep0 = (r.fam == famMalloc)) :
    ∃ s' rest, release c s r.fam (some r.id) sep0 =
        (s', (if r.sep then [.unodefree r.nodeId] else []) ++ [.ufree r.id], .null) ∧
      removeRec s.tracked r.id = some (r, rest) ∧ s'.tracked = rest ∧
      findBlock s'.mem r.id = none ∧ (r.sep = true → findBlock s'.mem r.nodeId = none) ∧
      (∀ j, j ∉ r.owned → findBlock s'.mem j = findBlock s.mem j) ∧ Inv c s' := by
  obtain ⟨rest, hrem⟩ := removeRec_of_tracked c h hr
  obtain ⟨m', he, hinv, h1, h2, h3⟩ := release_tracked c hn h hrem rfl hsep0
  exact ⟨_, rest, he, hrem, rfl, h1, h2, h3, hinv⟩

/-- `cpputest_free(p)` of a tracked malloc-family block -/
theorem free_releases_exactly (c : Cfg) (hn : NodeOk c) (s : State) (h : Inv c s) (r : Rec) (hr : r ∈ s.tracked)
    (hfam : r.fam = famMalloc) :
    ∃ s' rest, cFree c s (some r.id) = (s', [.unodefree r.nodeId, .ufree r.id], .null) ∧
      removeRec s.tracked r.id = some (r, rest) ∧ s'.tracked = rest ∧
      findBlock s'.mem r.id = none ∧ findBlock s'.mem r.nodeId = none ∧
      (∀ j, j ≠ r.id → j ≠ r.nodeId → findBlock s'.mem j = findBlock s.mem j) ∧ Inv c s' := by
  have hsep : r.sep = true := by rw [(h.recs r hr).lay, hfam]; exact sepOf_malloc c
  obtain ⟨s', rest, he, hrem, ht, h1, h2, h3, hinv⟩ := release_exact c hn s h r hr true (by rw [hfam]; rfl)
  rw [hfam, hsep] at he
  refine ⟨s', rest, he, hrem, ht, h1, h2 hsep, ?_, hinv⟩
  intro j hj1 hj2
  exact h3 j (by unfold Rec.owned; simp [hsep, hj1, hj2])

/-- `operator delete(p)` / `operator delete[](p)` of a tracked block of that family: in the default
    build the record is inline and only `free_memory(p)` is called; without guard bytes the node is
    separate and is handed back first -/
theorem delete_releases_exactly (c : Cfg) (hn : NodeOk c) (s : State) (h : Inv c s) (r : Rec) (hr : r ∈ s.tracked)
    (array : Bool) (hfam : r.fam = (if array then famNewArray else famNew)) :
    ∃ s' rest, operatorDelete c s array (some r.id) =
        (s', (if c.check then [] else [.unodefree r.nodeId]) ++ [.ufree r.id], .null) ∧
      r.sep = !c.check ∧
      removeRec s.tracked r.id = some (r, rest) ∧ s'.tracked = rest ∧
      findBlock s'.mem r.id = none ∧
      (∀ j, j ∉ r.owned → findBlock s'.mem j = findBlock s.mem j) ∧ Inv c s' := by
  have hnm : (r.fam == famMalloc) = false := by rw [hfam]; cases array <;> decide
  have hsep : r.sep = !c.check := by
    rw [(h.recs r hr).lay]; unfold sepOf forcedSep; rw [hnm]; simp
  obtain ⟨s', rest, he, hrem, ht, h1, _, h3, hinv⟩ := release_exact c hn s h r hr false hnm.symm
  refine ⟨s', rest, ?_, hsep, hrem, ht, h1, h3, hinv⟩
  unfold operatorDelete
  rw [← hfam, he, hsep]
  cases c.check <;> rfl

/-- releasing NULL or a pointer the detector does not track changes nothing (the latter is reported) -/
theorem release_untracked_leaves_state (c : Cfg) (s : State) (fam : Nat) (sep0 : Bool) :
    release c s fam none sep0 = (s, [], .null) ∧
    ∀ id, (∀ r ∈ s.tracked, r.id ≠ id) → release c s fam (some id) sep0 = (s, [.misuse "nonallocated"], .null) := by
  refine ⟨by simp [release, invalidateMemory, deallocMemory], ?_⟩
  intro id hid
  have hrem : removeRec s.tracked id = none := by
    cases hr : removeRec s.tracked id with
    | none => rfl
    | some p =>
      obtain ⟨r, rest⟩ := p
      obtain ⟨hp, hrid⟩ := removeRec_perm s.tracked id r rest hr
      exact absurd hrid (hid r (hp.mem_iff.mpr (by simp)))
  have hret : retrieveRec s.tracked id = none := by rw [removeRec_retrieve, hrem]; rfl
  unfold release invalidateMemory
  simp only [hret]
  unfold deallocMemory
  simp only [hrem]

/-! ## the pointer handed to the caller is the pointer the platform returned -/

/-- **In every reachable state and both layouts, the pointer a successful allocation hands to the
    caller is the block the platform returned for this very call, at offset 0** (a model pointer is
    a block: `Outcome.ptr id` is the first byte of block `id`; the C++ side — `node->init` stores
    `memory`, `return node->memory_` — is shape-checked by the translator and the offset is observed
    by the harness).  The caller's pointer therefore has exactly the platform's alignment; and it is
    the pointer later handed to `free_memory` (`release_exact`). -/
theorem returned_pointer_is_platform_pointer (c : Cfg) (hn : NodeOk c) (img : NodeImage) (hi : ImgOk c img) (s : State)
    (h : Inv c s) (op : Op) (hop : OpOk c s op) (id : Nat) (hp : (step c img s op).2.2 = .ptr id) :
    op.platformBlock = id := by
  cases op with
  | new v size a1 a2 =>
    obtain ⟨_, henv, hnf⟩ := hop
    rcases operatorNew_inv c hn img hi h v size a1 a2 henv hnf with hr | ⟨hb, _, _⟩
    · obtain ⟨e, nd, ht⟩ := hr.onPtr id hp
      exact e
    · rw [show (step c img s (.new v size a1 a2)).2.2 = _ from hb] at hp; cases hp
  | malloc size a1 a2 =>
    obtain ⟨e, nd, ht⟩ := (cMalloc_inv c hn img hi h size a1 a2 hop).onPtr id hp
    exact e
  | calloc num size a1 a2 =>
    obtain ⟨e, nd, ht⟩ := (cCalloc_inv c hn img hi h num size a1 a2 hop).onPtr id hp
    exact e
  | strdup buf a1 a2 =>
    obtain ⟨h1, h2, henv⟩ := hop
    obtain ⟨e, nd, ht⟩ := (cStrdup_inv c hn img hi h buf a1 a2 h1 h2 henv).onPtr id hp
    exact e
  | strndup buf n a1 a2 =>
    obtain ⟨h1, h2, henv⟩ := hop
    obtain ⟨e, nd, ht⟩ := (cStrndup_inv c hn img hi h buf n a1 a2 h1 h2 henv).onPtr id hp
    exact e
  | realloc ptr size ar a2 =>
    exact reallocMemory_ptr c img s famMalloc ptr size true ar a2 id hp
  | free ptr =>
    have := (release_inv c hn h famMalloc ptr true rfl hop).2
    rw [show (step c img s (.free ptr)).2.2 = _ from this] at hp; cases hp
  | delete array ptr =>
    have := (release_inv c hn h (if array then famNewArray else famNew) ptr false (by cases array <;> decide) hop).2
    rw [show (step c img s (.delete array ptr)).2.2 = _ from this] at hp; cases hp
  | write id' off src =>
    exfalso
    revert hp
    show (clientWrite s id' off src).2.2 = .ptr id → False
    unfold clientWrite
    split <;> simp

/-! ## `realloc(p, 0)` and `realloc(NULL, n)` -/

/-- the platform is never asked for 0 bytes, in either build and either layout (a zero-byte
    `realloc` may free the block although NULL is returned: the repaired defect of the build without
    guard bytes) -/
theorem request_never_zero (c : Cfg) (hn : NodeOk c) (size : W) (sep : Bool) (hacc : rejectsAlloc c size = false) :
    1 ≤ (allocReq c sep size).toNat ∧ 1 ≤ (reallocReq c sep size).toNat := by
  have hreq := allocReq_toNat_acc c hn size sep hacc
  have : 1 ≤ swciNat c size.toNat := by
    unfold swciNat alignNat
    split
    · omega
    · split <;> omega
  rw [reallocReq_eq, hreq]
  unfold extNat
  split <;> omega

/-- a request for 0 bytes is an ordinary, accepted request -/
theorem zero_size_accepted (c : Cfg) (hn : NodeOk c) : rejectsAlloc c 0#64 = false ∧ rejectsRealloc c 0#64 = false := by
  have := small_accepted c hn 0#64 (by simp)
  exact ⟨this, by rw [rejectsRealloc_eq]; exact this⟩

/-- **`cpputest_realloc(p, 0)` of any tracked block**: the platform realloc is asked for at least one
    byte; when it answers, the new (empty) block replaces the old one in the table, nothing of the
    old contents needs to survive, and the invariant holds. -/
theorem realloc_to_zero (c : Cfg) (hn : NodeOk c) (img : NodeImage) (hi : ImgOk c img) (s : State) (h : Inv c s)
    (o : Rec) (ho : o ∈ s.tracked) (hfam : o.fam = famMalloc) (nid : Nat) (nb : List UInt8) (k : Nat) (kb : List UInt8)
    (har : RAns.EnvOk s.mem (some o.id) (reallocReq c true 0#64).toNat (.moved nid nb))
    (hkl : kb.length = c.node.toNat) (hkf : Fresh s.mem k) (hkn : k ≠ nid) :
    1 ≤ (reallocReq c true 0#64).toNat ∧
    ∃ (s' : State) (evs : List Ev) (rest : List Rec), cRealloc c img s (some o.id) 0#64 (.moved nid nb) (.block k kb) = (s', evs, .ptr nid) ∧
      s'.trackedSet = (nid, 0#64) :: rest.map (fun r => (r.id, r.size)) ∧ Inv c s' := by
  obtain ⟨ha, hr⟩ := zero_size_accepted c hn
  obtain ⟨s', evs, rest, he, _, ht, _, hinv⟩ :=
    realloc_preserves_prefix_inv c hn img hi s h o ho hfam 0#64 nid nb k kb hr har hkl hkf hkn
  exact ⟨(request_never_zero c hn 0#64 true ha).2, s', evs, rest, he, ht, hinv⟩

/-- **`cpputest_realloc(NULL, n)`** in any reachable state behaves as `cpputest_malloc(n)`: the
    platform realloc's block is tracked with size `n` on top of what was tracked, the invariant holds. -/
theorem realloc_null_pointer_inv (c : Cfg) (hn : NodeOk c) (img : NodeImage) (hi : ImgOk c img) (s : State) (h : Inv c s)
    (size : W) (nid : Nat) (nb : List UInt8) (k : Nat) (kb : List UInt8)
    (hacc : rejectsRealloc c size = false)
    (hl : nb.length = (reallocReq c true size).toNat) (hnf : Fresh s.mem nid)
    (hkl : kb.length = c.node.toNat) (hkf : Fresh s.mem k) (hkn : k ≠ nid) :
    ∃ s' evs, cRealloc c img s none size (.moved nid nb) (.block k kb) = (s', evs, .ptr nid) ∧
      s'.trackedSet = (nid, size) :: s.trackedSet ∧ Inv c s' := by
  obtain ⟨s', evs, he, ht⟩ := realloc_null_pointer_allocates c hn img hi s famMalloc size true nid nb (.block k kb) hacc
    (by rw [forcedSep_true' c]; exact hl) (fun _ => ⟨k, kb, rfl, hkl, hkn⟩)
  have hinv := (cRealloc_inv c hn img hi h none size (.moved nid nb) (.block k kb)
    (fun id hid => nomatch hid) ⟨hl, Or.inl hnf, fun oid b hx => nomatch hx⟩ hkl hkf (Or.inr hkn) (by simp)).1
  have he' : cRealloc c img s none size (.moved nid nb) (.block k kb) = (s', evs, .ptr nid) := he
  rw [he'] at hinv
  exact ⟨s', evs, he', ht, hinv⟩

/-- `cpputest_realloc(NULL, n)` with a failing platform realloc: NULL, nothing changes -/
theorem realloc_null_pointer_failure (c : Cfg) (img : NodeImage) (s : State) (size : W) (a2 : Ans)
    (hacc : rejectsRealloc c size = false) :
    cRealloc c img s none size .null a2 = (s, [.urealloc 0 (reallocReq c true size) 0], .null) := by
  unfold cRealloc reallocMemory
  simp only [hacc, Bool.false_eq_true, if_false, forcedSep_true' c]
  unfold reallocRest
  rfl

/-! ## non-vacuity of the history theorems -/

def img1 : NodeImage := fun _ => List.replicate 64 0x4e

/-- a concrete history that meets the contract: malloc, a client store, realloc that moves, free -/
def demoOps : List Op :=
  [ .malloc 5#64 (.block 1 (List.replicate 16 0)) (.block 2 (List.replicate 64 0)),
    .write 1 0 [104, 105],
    .realloc (some 1) 9#64 (.moved 3 ([104, 105, 0, 0, 0, 66, 65, 83] ++ List.replicate 8 0)) (.block 4 (List.replicate 64 0)),
    .free (some 3) ]

example : (run defaultCfg img1 {} demoOps).tracked = [] := by decide
example : ((run defaultCfg img1 {} (demoOps.take 3)).tracked.map (fun r => (r.id, r.size))) = [(3, 9#64)] := by decide
example : userView (run defaultCfg img1 {} (demoOps.take 3)) 3 2 = some [104, 105] := by decide

/-- the first step of that history meets its contract (fresh blocks of the requested lengths) -/
example : OpOk defaultCfg {} (.malloc 5#64 (.block 1 (List.replicate 16 0)) (.block 2 (List.replicate 64 0))) :=
  { len1 := by show (List.replicate 16 (0 : UInt8)).length = _; decide
    len2 := by show (List.replicate 64 (0 : UInt8)).length = _; decide
    fresh1 := fun b hb => nomatch hb
    fresh2 := fun b hb => nomatch hb
    differ := Or.inr (by decide) }

/-! ## the statement lists REGENERATED from the current source are the model

`Gen/AllocLayoutCode.lean` holds, statement by statement, the bodies of `allocMemory`,
`storeLeakInformation`, `reallocateMemoryAndLeakInformation` and `reallocMemory` as the translator
read them from the source at check time; `allocMemoryGen` / `reallocMemoryGen` execute them
(`Model/AllocLayoutCode.lean`).  The theorems below make every theorem of this file a statement
about what the source says: dropping, adding or reordering a statement changes the list and breaks
them (the driver replays the implementation's traces through the lists, so the search for a failing
input runs on the changed code's own model). -/
open Gen.AllocLayoutCode

/-- **`allocMemory` as the source has it = the hand model**: same events, same outcome, and (unless
    the outcome is undefined behaviour) the same state, for every size, layout, configuration and
    every answer of the allocator.  Only hypothesis: the allocator does not hand out a block that is
    still live (needed where the source gives the data block back after a NULL node). -/
theorem allocMemoryCode_eq (c : Cfg) (img : NodeImage) (s : State) (fam : Nat) (size : W) (sep0 : Bool) (a1 a2 : Ans)
    (hf : a1.Fresh s.mem) :
    Agree (allocMemoryGen c img s fam size sep0 a1 a2) (allocMemory c img s fam size sep0 a1 a2) :=
  allocMemoryCode_agree c img s fam size sep0 a1 a2 hf

/-- **`reallocMemory` as the source has it = the hand model** (including the table lookup, the
    corruption check, the call of `reallocateMemoryAndLeakInformation`, the re-tracking branch after
    a failed platform realloc), without any hypothesis. -/
theorem reallocMemoryCode_eq (c : Cfg) (img : NodeImage) (s : State) (fam : Nat) (ptr : Option Nat) (size : W)
    (sep0 : Bool) (ar : RAns) (a2 : Ans) :
    Agree (reallocMemoryGen c img s fam ptr size sep0 ar a2) (reallocMemory c img s fam ptr size sep0 ar a2) :=
  reallocMemoryCode_agree c img s fam ptr size sep0 ar a2

/-- whenever the hand model does not reach undefined behaviour the two are EQUAL -/
theorem agree_eq {x y : State × List Ev × Outcome} (h : Agree x y) (hu : y.2.2.isUb = false) : x = y := by
  obtain ⟨h1, h2⟩ := h
  exact Prod.ext (h2 hu) h1

/-- Under the environment contract the regenerated `allocMemory` never writes outside a block and
    never dereferences NULL, and is equal to the hand model (so `alloc_returns_sound_block`,
    `alloc_failure_leaves_state`, `alloc_node_failure_leaves_state`, `layout_sound` … speak about it). -/
theorem allocGen_sound (c : Cfg) (h : NodeOk c) (img : NodeImage) (hi : ImgOk c img) (s : State) (fam : Nat)
    (size : W) (sep0 : Bool) (a1 a2 : Ans)
    (h1 : a1.Ok (allocReq c (forcedSep c sep0) size).toNat) (h2 : a2.Ok c.node.toNat)
    (hne : a2.isNull = true ∨ a2.id ≠ a1.id) (hf : a1.Fresh s.mem) :
    (allocMemoryGen c img s fam size sep0 a1 a2).2.2.isUb = false ∧
    allocMemoryGen c img s fam size sep0 a1 a2 = allocMemory c img s fam size sep0 a1 a2 := by
  have hu := alloc_never_ub c h img hi s fam size sep0 a1 a2 h1 h2 hne
  have he := agree_eq (allocMemoryCode_eq c img s fam size sep0 a1 a2 hf) hu
  exact ⟨by rw [he]; exact hu, he⟩

/-- The regenerated `reallocMemory` equals the hand model wherever the latter stays defined — in
    particular on every step of a history that meets its contract (`history_never_ub`). -/
theorem reallocGen_eq (c : Cfg) (img : NodeImage) (s : State) (fam : Nat) (ptr : Option Nat) (size : W)
    (sep0 : Bool) (ar : RAns) (a2 : Ans) (hu : (reallocMemory c img s fam ptr size sep0 ar a2).2.2.isUb = false) :
    reallocMemoryGen c img s fam ptr size sep0 ar a2 = reallocMemory c img s fam ptr size sep0 ar a2 :=
  agree_eq (reallocMemoryCode_eq c img s fam ptr size sep0 ar a2) hu

/-- … and it reaches undefined behaviour exactly when the hand model does (the listed finding
    c05-node-alloc-null is a property of the source's statement list, not of the hand model only). -/
theorem reallocGen_ub_iff (c : Cfg) (img : NodeImage) (s : State) (fam : Nat) (ptr : Option Nat) (size : W)
    (sep0 : Bool) (ar : RAns) (a2 : Ans) :
    (reallocMemoryGen c img s fam ptr size sep0 ar a2).2.2.isUb = (reallocMemory c img s fam ptr size sep0 ar a2).2.2.isUb := by
  rw [(reallocMemoryCode_eq c img s fam ptr size sep0 ar a2).1]

/-- the witness of c05-node-alloc-null on the regenerated list: `realloc(NULL, 10)`, node allocation NULL -/
theorem reallocGen_node_null_ub :
    (reallocMemoryGen defaultCfg (fun _ => List.replicate 64 0) {} famMalloc none 10#64 true
      (.moved 1 (List.replicate 16 0)) .null).2.2.isUb = true := by decide

example : allocMemoryGen defaultCfg img0 {} famNew 2#64 false (.block 1 (List.replicate 72 0)) .null =
    allocMemory defaultCfg img0 {} famNew 2#64 false (.block 1 (List.replicate 72 0)) .null := by decide
example : (allocMemoryGen defaultCfg img0 {} famMalloc 2#64 true (.block 1 (List.replicate 8 0)) .null).2 =
    ([.ualloc 8#64 1, .unode 64#64 0, .ufree 1], .null) := by decide
example : (reallocMemoryGen defaultCfg img1 (run defaultCfg img1 {} (demoOps.take 2)) famMalloc (some 1) 9#64 true
      (.moved 3 ([104, 105, 0, 0, 0, 66, 65, 83] ++ List.replicate 8 0)) (.block 4 (List.replicate 64 0))).2.2 = .ptr 3 := by decide

/-! ## a request succeeds exactly when it can be satisfied -/

/-- **Converse of the failure theorems**: under the environment contract `allocMemory` hands out a
    block IF AND ONLY IF the size is accepted (its bookkeeping-extended size fits `size_t`), the
    allocator answered with a block and — in the separate-node layout — also with a node block.
    No spurious failure, no spurious success. -/
theorem alloc_succeeds_iff (c : Cfg) (h : NodeOk c) (img : NodeImage) (hi : ImgOk c img) (s : State) (fam : Nat)
    (size : W) (sep0 : Bool) (a1 a2 : Ans)
    (h1 : a1.Ok (allocReq c (forcedSep c sep0) size).toNat) (h2 : a2.Ok c.node.toNat)
    (hne : a2.isNull = true ∨ a2.id ≠ a1.id) :
    (∃ id, (allocMemory c img s fam size sep0 a1 a2).2.2 = .ptr id) ↔
      (extNat c size.toNat < 2 ^ 64 ∧ a1.isNull = false ∧ (forcedSep c sep0 = true → a2.isNull = false)) := by
  have hg := guard_iff_overflow c h size
  constructor
  · rintro ⟨id, hp⟩
    cases hacc : rejectsAlloc c size
    · have hlt : extNat c size.toNat < 2 ^ 64 := by
        by_cases hx : extNat c size.toNat ≥ 2 ^ 64
        · rw [hg.mpr hx] at hacc; cases hacc
        · omega
      cases a1 with
      | null => simp [allocMemory, hacc] at hp
      | fail => simp [allocMemory, hacc] at hp
      | block bid bytes =>
        refine ⟨hlt, rfl, ?_⟩
        intro hsep
        cases a2 with
        | null => simp [allocMemory, hacc, hsep] at hp
        | fail =>
          rw [allocMemory_block_eq c img s fam size sep0 bid bytes _ hacc (by simp), hsep] at hp
          simp [account] at hp
        | block nid nb => rfl
    · simp [allocMemory, hacc] at hp
  · rintro ⟨hlt, hb, hn⟩
    have hacc : rejectsAlloc c size = false := by
      cases hr : rejectsAlloc c size
      · rfl
      · have := hg.mp hr; omega
    cases a1 with
    | null => simp [Ans.isNull] at hb
    | fail => simp [Ans.isNull] at hb
    | block bid bytes =>
      obtain ⟨s', evs, he, _⟩ := alloc_returns_sound_block c h img hi s fam size sep0 bid bytes a2 hacc h1
        (by
          intro hsep
          have hn' := hn hsep
          cases a2 with
          | null => simp [Ans.isNull] at hn'
          | fail => simp [Ans.isNull] at hn'
          | block nid nb =>
            exact ⟨nid, nb, rfl, h2, by simpa [Ans.isNull, Ans.id] using hne⟩)
      exact ⟨bid, by rw [he]⟩

example : (∃ id, (allocMemory defaultCfg img0 {} famNew 2#64 false (.block 1 (List.replicate 72 0)) .null).2.2 = .ptr id) :=
  ⟨1, by decide⟩

/-! ## the global `operator new` / `operator delete` overloads and the C entry points (regenerated wiring) -/

/-- Every global overload of `operator new`, `operator new[]`, `operator delete`, `operator delete[]`
    in `MemoryLeakWarningPlugin.cpp` (plain, `(file, int line)`, `(file, size_t line)`, sized,
    `std::nothrow`) forwards its own first argument (and file/line where the callee takes them) to the
    function pointer of ITS family and form. -/
theorem global_operators_dispatch :
    forwarders.map (fun f => (f.overload, f.fptr, f.args)) =
    [("new(size_t)", "operator_new_fptr", "$0"),
     ("new(size_t,const char*,int)", "operator_new_debug_fptr", "$0,$1,(size_t)$2"),
     ("new(size_t,const char*,size_t)", "operator_new_debug_fptr", "$0,$1,$2"),
     ("delete(void*)", "operator_delete_fptr", "$0"),
     ("delete(void*,const char*,int)", "operator_delete_fptr", "$0"),
     ("delete(void*,const char*,size_t)", "operator_delete_fptr", "$0"),
     ("delete(void*,size_t)", "operator_delete_fptr", "$0"),
     ("new[](size_t)", "operator_new_array_fptr", "$0"),
     ("new[](size_t,const char*,int)", "operator_new_array_debug_fptr", "$0,$1,(size_t)$2"),
     ("new[](size_t,const char*,size_t)", "operator_new_array_debug_fptr", "$0,$1,$2"),
     ("delete[](void*)", "operator_delete_array_fptr", "$0"),
     ("delete[](void*,const char*,int)", "operator_delete_array_fptr", "$0"),
     ("delete[](void*,const char*,size_t)", "operator_delete_array_fptr", "$0"),
     ("delete[](void*,size_t)", "operator_delete_array_fptr", "$0"),
     ("new(size_t,const std::nothrow_t&)", "operator_new_nothrow_fptr", "$0"),
     ("delete(void*,const std::nothrow_t&)", "operator_delete_fptr", "$0"),
     ("new[](size_t,const std::nothrow_t&)", "operator_new_array_nothrow_fptr", "$0"),
     ("delete[](void*,const std::nothrow_t&)", "operator_delete_array_fptr", "$0")] := by decide

/-- With the default (not thread safe) overloads switched on, every `operator new` overload reaches a
    variant of the regenerated `mem_leak_operator_new*` table with the SAME array-ness (so the block is
    recorded in the family its `delete` will check) that is a nothrow variant exactly for the
    `std::nothrow` overloads; every `operator delete` overload reaches the delete of ITS array-ness. -/
theorem overloads_reach_matching_variant :
    (∀ f ∈ forwarders, f.isDelete = false →
      ∃ v, f.target.bind findVariant = some v ∧ NewVariant.array v = f.array ∧
        NewVariant.nothrow v = (f.overload == "new(size_t,const std::nothrow_t&)" || f.overload == "new[](size_t,const std::nothrow_t&)")) ∧
    (∀ f ∈ forwarders, f.isDelete = true →
      f.target = some (if f.array then "mem_leak_operator_delete_array" else "mem_leak_operator_delete")) := by
  decide

/-- The one-line C entry points forward every argument in order: `cpputest_malloc/strdup/strndup/
    calloc/realloc/free` to their `_location` forms, `cpputest_realloc_location` / `cpputest_free_location`
    and the three `…_with_leak_detection` functions to the switched function pointers, which the default
    overloads point at `mem_leak_malloc/realloc/free`. -/
theorem c_entry_points_forward :
    cForwarders =
    [("cpputest_malloc", "cpputest_malloc_location", "$0,'<unknown>',0"),
     ("cpputest_strdup", "cpputest_strdup_location", "$0,'<unknown>',0"),
     ("cpputest_strndup", "cpputest_strndup_location", "$0,$1,'<unknown>',0"),
     ("cpputest_calloc", "cpputest_calloc_location", "$0,$1,'<unknown>',0"),
     ("cpputest_realloc", "cpputest_realloc_location", "$0,$1,'<unknown>',0"),
     ("cpputest_free", "cpputest_free_location", "$0,'<unknown>',0"),
     ("cpputest_realloc_location", "cpputest_realloc_location_with_leak_detection", "$0,$1,$2,$3"),
     ("cpputest_free_location", "cpputest_free_location_with_leak_detection", "$0,$1,$2"),
     ("cpputest_malloc_location_with_leak_detection", "malloc_fptr", "$0,$1,$2"),
     ("cpputest_realloc_location_with_leak_detection", "realloc_fptr", "$0,$1,$2,$3"),
     ("cpputest_free_location_with_leak_detection", "free_fptr", "$0,$1,$2")] ∧
    (defaultOverloads.filter (fun p => p.1 == "malloc_fptr" || p.1 == "realloc_fptr" || p.1 == "free_fptr")) =
      [("malloc_fptr", "mem_leak_malloc"), ("realloc_fptr", "mem_leak_realloc"), ("free_fptr", "mem_leak_free")] := by
  decide

/-- The small bodies the model takes for granted, exactly as the source has them: the default
    allocator's `alloc_memory` is `checkedMalloc` (platform NULL → test failure `FAIL`, never a NULL
    answer), its node allocation goes through `alloc_memory`, `free_memory` is the platform free;
    `NullUnknownAllocator` answers NULL and frees nothing; `CrashOnAllocationAllocator` is the default
    allocator unless the allocation number matches; the 3-argument `allocMemory` / `deallocMemory`
    forward to the 5-argument ones with the caller's layout flag. -/
theorem one_line_bodies :
    oneLiners =
    [("MemoryLeakDetector::allocMemory/3", "returnallocMemory(allocator,size,UNKNOWN,0,allocatNodesSeperately);"),
     ("MemoryLeakDetector::deallocMemory/3", "deallocMemory(allocator,(char*)memory,UNKNOWN,0,allocatNodesSeperately);"),
     ("checkedMalloc", "char*mem=(char*)PlatformSpecificMalloc(size);if(mem==NULLPTR)FAIL('mallocreturnednullpointer');returnmem;"),
     ("TestMemoryAllocator::alloc_memory", "returncheckedMalloc(size);"),
     ("TestMemoryAllocator::free_memory", "PlatformSpecificFree(memory);"),
     ("TestMemoryAllocator::allocMemoryLeakNode", "returnalloc_memory(size,'MemoryLeakNode',1);"),
     ("TestMemoryAllocator::freeMemoryLeakNode", "free_memory(memory,0,'MemoryLeakNode',1);"),
     ("NullUnknownAllocator::alloc_memory", "returnNULLPTR;"),
     ("NullUnknownAllocator::free_memory", ""),
     ("CrashOnAllocationAllocator::alloc_memory",
      "if(MemoryLeakWarningPlugin::getGlobalDetector()->getCurrentAllocationNumber()==allocationToCrashOn_)UT_CRASH();returnTestMemoryAllocator::alloc_memory(size,file,line);")] := by
  rfl

/-- **The thread-safe entry points are the same functions behind a lock**: each of the eleven
    `threadsafe_mem_leak_*` functions is `MemLeakScopedMutex lock;` followed by the very body of its
    plain twin (same allocator getter, same layout flag, same `UT_THROW_BAD_ALLOC_WHEN_NULL`), and
    `turnOnThreadSafeNewDeleteOverloads` points every function pointer at the twin of the function
    the default switch points it at.  So every theorem about `operatorNew`, `cMalloc`, `cRealloc`,
    `cFree`, `operatorDelete` holds in thread-safe mode too (that the lock is taken and released
    properly is C10's subject; the harness runs the `tsafe` stream in this mode). -/
theorem threadsafe_twins_same_body : ∀ p ∈ threadsafeTwins, p.2 = true := by decide

theorem threadsafe_switch_points_at_twins :
    threadsafeOverloads = defaultOverloads.map (fun p => (p.1, "threadsafe_" ++ p.2)) ∧
    (∀ p ∈ defaultOverloads, p.2 ∈ threadsafeTwins.map (·.1)) := by decide

/-! ## the release path as the source has it -/

/-- **`deallocMemory` as the source has it = the hand model**: the statement list regenerated from
    `MemoryLeakDetector::deallocMemory` (NULL test, table removal, the report for an unknown pointer,
    the forced separate layout of the build without guard bytes, and — inside
    `if (!allocator->hasBeenDestroyed())`, taken for allocators that outlive the history — reading the
    size, `checkForCorruption`, `free_memory` with the caller's pointer) computes exactly `deallocMemory`. -/
theorem deallocMemoryCode_eq (c : Cfg) (s : State) (fam : Nat) (ptr : Option Nat) (sep0 : Bool) :
    Agree (deallocMemoryGen c s fam ptr sep0) (deallocMemory c s fam ptr sep0) :=
  deallocMemoryCode_agree c s fam ptr sep0

/-- `mem_leak_free` / `operator delete` with the regenerated `deallocMemory` equal the hand model
    wherever the latter stays defined … -/
theorem releaseGen_eq (c : Cfg) (s : State) (fam : Nat) (ptr : Option Nat) (sep0 : Bool)
    (hu : (release c s fam ptr sep0).2.2.isUb = false) :
    releaseGen c s fam ptr sep0 = release c s fam ptr sep0 := by
  unfold releaseGen release at *
  cases hi : invalidateMemory s ptr with
  | none => rfl
  | some s1 =>
    rw [hi] at hu
    exact agree_eq (deallocMemoryCode_eq c s1 fam ptr sep0) hu

/-- … in particular **releasing any tracked block of any reachable state with the release function of
    its family**: the regenerated code frees exactly that block, with the caller's own pointer, once
    (`release_exact` transferred to the source's statement list). -/
theorem releaseGen_exact (c : Cfg) (hn : NodeOk c) (s : State) (h : Inv c s) (r : Rec) (hr : r ∈ s.tracked)
    (sep0 : Bool) (hsep0 : sep0 = (r.fam == famMalloc)) :
    ∃ s' rest, releaseGen c s r.fam (some r.id) sep0 =
        (s', (if r.sep then [.unodefree r.nodeId] else []) ++ [.ufree r.id], .null) ∧
      removeRec s.tracked r.id = some (r, rest) ∧ s'.tracked = rest ∧
      findBlock s'.mem r.id = none ∧ Inv c s' := by
  obtain ⟨s', rest, he, hrem, ht, h1, _, _, hinv⟩ := release_exact c hn s h r hr sep0 hsep0
  refine ⟨s', rest, ?_, hrem, ht, h1, hinv⟩
  rw [releaseGen_eq c s r.fam (some r.id) sep0 (by rw [he]; rfl), he]

example : (releaseGen defaultCfg (run defaultCfg img1 {} (demoOps.take 3)) famMalloc (some 3) true).2 =
    ([.unodefree 4, .ufree 3], .null) := by decide

/-! ## whole histories through the regenerated code -/

/-- a wrapper that passes undefined behaviour of its callee through cannot be defined where the callee is not -/
theorem thenWrite_ub (r : State × List Ev × Outcome) (off : Nat) (src : List UInt8) (why : String)
    (h : r.2.2.isUb = true) : (thenWrite r off src why).2.2.isUb = true := by
  rcases r with ⟨s1, evs, o⟩
  cases o <;> simp_all [thenWrite, Outcome.isUb]

/-- **One public operation executed by the statement lists of the current source is the model's
    step**, in every state that satisfies the invariant and for every operation that meets its
    contract (`OpOk`). -/
theorem stepGen_eq (c : Cfg) (hn : NodeOk c) (img : NodeImage) (hi : ImgOk c img) (s : State) (h : Inv c s)
    (op : Op) (hop : OpOk c s op) : stepGen c img s op = step c img s op := by
  have hnu := (step_preserves_inv c hn img hi s h op hop).2
  cases op with
  | new v size a1 a2 =>
    have hag := allocMemoryCode_eq c img s (if v.array then famNewArray else famNew) size false a1 a2 hop.2.1.fresh1
    show operatorNewGen c img s v size a1 a2 = operatorNew c img s v size a1 a2
    have hnu' : (operatorNew c img s v size a1 a2).2.2.isUb = false := hnu
    unfold operatorNewGen operatorNew at *
    generalize allocMemory c img s (if v.array then famNewArray else famNew) size false a1 a2 = y at *
    generalize allocMemoryGen c img s (if v.array then famNewArray else famNew) size false a1 a2 = x at *
    cases hy : y.2.2.isUb
    · have hx := agree_eq hag hy; subst hx; rfl
    · exfalso; rcases y with ⟨s1, evs, o⟩; cases o <;> simp_all [Outcome.isUb]
  | malloc size a1 a2 =>
    have hag := allocMemoryCode_eq c img s famMalloc size true a1 a2 hop.fresh1
    exact agree_eq hag hnu
  | calloc num size a1 a2 =>
    have hag := allocMemoryCode_eq c img s famMalloc (callocRequest num size) true a1 a2 hop.fresh1
    show cCallocGen c img s num size a1 a2 = cCalloc c img s num size a1 a2
    have hnu' : (cCalloc c img s num size a1 a2).2.2.isUb = false := hnu
    unfold cCallocGen cCalloc cMallocGen cMalloc at *
    generalize allocMemory c img s famMalloc (callocRequest num size) true a1 a2 = y at *
    generalize allocMemoryGen c img s famMalloc (callocRequest num size) true a1 a2 = x at *
    split
    · rfl
    · next ht =>
      cases hy : y.2.2.isUb
      · have hx := agree_eq hag hy; subst hx; rfl
      · exfalso; rcases y with ⟨s1, evs, o⟩; cases o <;> simp_all [Outcome.isUb]
  | strdup buf a1 a2 =>
    show cStrdupGen c img s buf a1 a2 = cStrdup c img s buf a1 a2
    have hnu' : (cStrdup c img s buf a1 a2).2.2.isUb = false := hnu
    unfold cStrdupGen cStrdup at *
    cases hl : cstrlen buf with
    | none => rfl
    | some len =>
      simp only [hl] at hnu' ⊢
      have hag := allocMemoryCode_eq c img s famMalloc (strdupLength (BitVec.ofNat 64 len)) true a1 a2 hop.2.2.fresh1
      unfold strdupAllocGen strdupAlloc cMallocGen cMalloc at *
      generalize allocMemory c img s famMalloc (strdupLength (BitVec.ofNat 64 len)) true a1 a2 = y at *
      generalize allocMemoryGen c img s famMalloc (strdupLength (BitVec.ofNat 64 len)) true a1 a2 = x at *
      cases hy : y.2.2.isUb
      · have hx := agree_eq hag hy; subst hx; rfl
      · exfalso
        split at hnu'
        · rcases y with ⟨s1, evs, o⟩; cases o <;> simp_all [Outcome.isUb]
        · have := thenWrite_ub _ ((strdupLength (BitVec.ofNat 64 len)) - 1).toNat [0] "terminator outside the block"
            (thenWrite_ub y 0 (buf.take (strdupLength (BitVec.ofNat 64 len)).toNat) "memcpy outside the block" hy)
          rw [this] at hnu'; cases hnu'
  | strndup buf n a1 a2 =>
    show cStrndupGen c img s buf n a1 a2 = cStrndup c img s buf n a1 a2
    have hnu' : (cStrndup c img s buf n a1 a2).2.2.isUb = false := hnu
    unfold cStrndupGen cStrndup at *
    cases hl : cstrlen buf with
    | none => rfl
    | some len =>
      simp only [hl] at hnu' ⊢
      have hag := allocMemoryCode_eq c img s famMalloc (strndupLength (BitVec.ofNat 64 len) n) true a1 a2 hop.2.2.fresh1
      unfold strdupAllocGen strdupAlloc cMallocGen cMalloc at *
      generalize allocMemory c img s famMalloc (strndupLength (BitVec.ofNat 64 len) n) true a1 a2 = y at *
      generalize allocMemoryGen c img s famMalloc (strndupLength (BitVec.ofNat 64 len) n) true a1 a2 = x at *
      cases hy : y.2.2.isUb
      · have hx := agree_eq hag hy; subst hx; rfl
      · exfalso
        split at hnu'
        · rcases y with ⟨s1, evs, o⟩; cases o <;> simp_all [Outcome.isUb]
        · have := thenWrite_ub _ ((strndupLength (BitVec.ofNat 64 len) n) - 1).toNat [0] "terminator outside the block"
            (thenWrite_ub y 0 (buf.take (strndupLength (BitVec.ofNat 64 len) n).toNat) "memcpy outside the block" hy)
          rw [this] at hnu'; cases hnu'
  | realloc ptr size ar a2 => exact reallocGen_eq c img s famMalloc ptr size true ar a2 hnu
  | free ptr => exact releaseGen_eq c s famMalloc ptr true hnu
  | delete array ptr => exact releaseGen_eq c s (if array then famNewArray else famNew) ptr false hnu
  | write id off src => rfl

/-- **Every history executed by the statement lists of the current source is the model's history**:
    same states all along — hence (`history_inv`, `history_never_ub`, `inv_meaning`) every state the
    SOURCE's code reaches from the empty detector under the platform contract has pairwise different,
    live, exactly-sized tracked blocks with intact guard bytes, and no operation of the source's code
    writes outside a block or dereferences NULL. -/
theorem history_gen_eq (c : Cfg) (hn : NodeOk c) (img : NodeImage) (hi : ImgOk c img) :
    ∀ (ops : List Op) (s : State), Inv c s → OpsOk c img s ops → runGen c img s ops = run c img s ops
  | [], _, _, _ => rfl
  | op :: ops, s, h, hok => by
    have he := stepGen_eq c hn img hi s h op hok.1
    show runGen c img (stepGen c img s op).1 ops = run c img (step c img s op).1 ops
    rw [he]
    exact history_gen_eq c hn img hi ops _ (step_preserves_inv c hn img hi s h op hok.1).1 hok.2

/-- the invariant for the states the source's code reaches -/
theorem history_gen_inv (c : Cfg) (hn : NodeOk c) (img : NodeImage) (hi : ImgOk c img) (ops : List Op)
    (hok : OpsOk c img {} ops) : Inv c (runGen c img {} ops) := by
  rw [history_gen_eq c hn img hi ops {} (inv_empty c) hok]
  exact history_inv c hn img hi ops hok

example : (runGen defaultCfg img1 {} demoOps).tracked = [] := by decide

/-! ## no truncation of the recorded size (requests of 2^32 bytes and more)

`node->size_` is what every later step works with: the guard bytes go to `memory + node->size_`,
`realloc` preserves and `invalidateMemory` poisons `node->size_` bytes, the corruption check looks
at `memory + node->size_`.  The declared type of the field is regenerated from the header. -/

/-- the record's size field is declared `size_t` (64 bits on LP64) -/
theorem size_field_is_size_t : nodeSizeFieldType = "size_t" ∧ nodeSizeFieldBits = 64 := by decide

/-- storing a `size_t` request into the field loses nothing, for EVERY size -/
theorem stored_size_exact (size : W) : storedSize size = size := by
  unfold storedSize
  have h : nodeSizeFieldBits = 64 := by decide
  rw [h]; simp

/-- the size-level plan of an accepted request: the recorded size is the requested size, the guard
    bytes start right behind the caller's bytes, and the platform is asked for enough -/
theorem alloc_plan_exact (c : Cfg) (h : NodeOk c) (size : W) (sep0 : Bool) (hacc : rejectsAlloc c size = false) :
    ∃ p, allocPlan c size sep0 = some p ∧ p.recSize = size ∧ p.guardOff = size.toNat ∧
      p.req = allocReq c (forcedSep c sep0) size ∧ p.guardOff + c.guard.toNat ≤ p.req.toNat := by
  refine ⟨planOf c (forcedSep c sep0) (allocReq c (forcedSep c sep0) size) size, by simp [allocPlan, hacc], ?_, ?_, rfl, ?_⟩
  · simp [planOf, stored_size_exact]
  · simp [planOf, stored_size_exact]
  · simp only [planOf, stored_size_exact]
    exact (usable_bytes_ge_request c h size (forcedSep c sep0) hacc).1

theorem realloc_plan_exact (c : Cfg) (h : NodeOk c) (size : W) (sep0 : Bool) (hacc : rejectsRealloc c size = false) :
    ∃ p, reallocPlan c size sep0 = some p ∧ p.recSize = size ∧ p.guardOff = size.toNat ∧
      p.req = reallocReq c (forcedSep c sep0) size ∧ p.guardOff + c.guard.toNat ≤ p.req.toNat := by
  refine ⟨planOf c (forcedSep c sep0) (reallocReq c (forcedSep c sep0) size) size, by simp [reallocPlan, hacc], ?_, ?_, rfl, ?_⟩
  · simp [planOf, stored_size_exact]
  · simp [planOf, stored_size_exact]
  · simp only [planOf, stored_size_exact]
    rw [rejectsRealloc_eq] at hacc
    exact (usable_bytes_ge_request c h size (forcedSep c sep0) hacc).2

/-- **No truncation**: whatever the size of an accepted request — 2^32 + 16 bytes as well as 16 —
    the byte-level model of `allocMemory` tracks the block with exactly the size the plan records,
    which is the requested size, and its guard bytes sit at the plan's offset, right behind the
    caller's `size` bytes. -/
theorem recorded_size_is_request (c : Cfg) (h : NodeOk c) (img : NodeImage) (hi : ImgOk c img) (s : State) (fam : Nat)
    (size : W) (sep0 : Bool) (id : Nat) (bytes : List UInt8) (a2 : Ans)
    (hacc : rejectsAlloc c size = false)
    (hlen : bytes.length = (allocReq c (forcedSep c sep0) size).toNat)
    (h2 : forcedSep c sep0 = true → ∃ nid nb, a2 = .block nid nb ∧ nb.length = c.node.toNat ∧ nid ≠ id) :
    ∃ p s' evs, allocPlan c size sep0 = some p ∧ p.recSize = size ∧
      allocMemory c img s fam size sep0 (.block id bytes) a2 = (s', evs, .ptr id) ∧
      s'.trackedSet = (id, p.recSize) :: s.trackedSet ∧
      (∃ b', findBlock s'.mem id = some b' ∧ (b'.bytes.drop p.guardOff).take c.guard.toNat = guardImage c ∧
        b'.bytes.take size.toNat = bytes.take size.toNat) := by
  obtain ⟨p, hp, hrec, hg, _, _⟩ := alloc_plan_exact c h size sep0 hacc
  obtain ⟨s', evs, he, ht, ⟨b', hb, _, htake, _, hgu⟩, _⟩ :=
    alloc_returns_sound_block c h img hi s fam size sep0 id bytes a2 hacc hlen h2
  exact ⟨p, s', evs, hp, hrec, he, by rw [hrec]; exact ht, b', hb, by rw [hg]; exact hgu, htake⟩

-- non-vacuity: a request of 2^32 + 16 bytes is accepted, planned with its full size, and a field of
-- 32 bits would have kept 16 of it
example : allocPlan defaultCfg (BitVec.ofNat 64 (2^32 + 16)) true =
    some ⟨BitVec.ofNat 64 (2^32 + 24), BitVec.ofNat 64 (2^32 + 16), 2^32 + 16, none⟩ := by decide
example : allocPlan defaultCfg (BitVec.ofNat 64 (2^32 + 16)) false =
    some ⟨BitVec.ofNat 64 (2^32 + 24 + 64), BitVec.ofNat 64 (2^32 + 16), 2^32 + 16, some (2^32 + 24)⟩ := by decide
example : reallocPlan defaultCfg (BitVec.ofNat 64 (2^32 + 4096)) true =
    some ⟨BitVec.ofNat 64 (2^32 + 4104), BitVec.ofNat 64 (2^32 + 4096), 2^32 + 4096, none⟩ := by decide
example : rejectsAlloc defaultCfg (BitVec.ofNat 64 (2^32 + 16)) = false ∧ NodeOk defaultCfg := ⟨by decide, defaultCfg_ok⟩
example : (((BitVec.ofNat 64 (2^32 + 16) : W).setWidth 32).setWidth 64).toNat = 16 := by decide

end AllocLayout
