import CppUModel.Props.C02
import CppUModel.Props.C16
/-!
# C16x — the registry loop of the output-event model is the registry loop of the C02 model

Composition theorems.  They connect

* `Model/OutputEvents.lean` (shared by C16 JUnit and C20 TeamCity): `OutEv.runAll flt scripts`, the callbacks a
  `TestOutput` receives during `TestRegistry::runAllTests` (with the data the writers read), and
* `Model/Registry.lean` (C02): `Registry.runAllTests cfg tests` with its notifications
  `groupStart / testStart / exec / testEnd / groupEnd` and counters, and C02's theorems `groups_balanced`,
  `group_notifications_at_block_boundaries`, `selected_iff`.

`toTests` turns the scripts into C02 tests (id = position, `ignored = !willRun`), `cfgOf flt` is the C02 configuration
with the optional name filter and run-ignored off.  Both event lists are projected to the common skeleton `Sk`
(tests started, group started for test …, test started for test …, test ended, group ended, tests ended with the four
counters).  `skeleton_agrees`: for every list of scripts and every filter the two skeletons are EQUAL — same selected
tests in the same order, same placement of group start and end, same counters.  The C02 theorems about the
notification structure therefore hold for the event lists the JUnit and TeamCity writers fold over.
-/
namespace Compose.C16x
open OutEv (Script TestInfo)

/-! ## translation -/

/-- the C02 shell of a script at position `k`: an `IgnoredUtestShell` iff the script does not run; its own
    run-ignored flag is off -/
abbrev mkTest (k : Nat) (s : Script) : Registry.Test :=
  { id := k, group := s.info.group, name := s.info.name, ignored := !s.info.willRun, flag := false,
    file := s.info.file, line := s.info.line }

def toTestsFrom : Nat → List Script → List Registry.Test
  | _, [] => []
  | k, s :: rest => mkTest k s :: toTestsFrom (k + 1) rest

/-- the scripts as C02 tests: id = position in the registry's list -/
def toTests (ss : List Script) : List Registry.Test := toTestsFrom 0 ss

def toFilter (f : OutEv.Filter) : Registry.Filter := ⟨f.pat, f.strict, f.invert⟩

/-- at most one name filter, no group filter, run-ignored off -/
def cfgOf (flt : Option OutEv.Filter) : Registry.Cfg :=
  { groupFilters := [], nameFilters := (flt.map toFilter).toList, runIgnored := false }

/-- the `UtestShell` behind a C02 test id -/
def infoAt (all : List Script) (i : Nat) : TestInfo := (all[i]?.map (·.info)).getD default

/-! ## the common skeleton -/

inductive Sk
  | testsStarted
  | groupStarted (t : TestInfo)
  | testStarted (t : TestInfo)
  | testEnded
  | groupEnded
  | testsEnded (tests runs ignored filtered : Nat)
deriving DecidableEq, Repr

def skO : OutEv.Ev → Option Sk
  | .testRun _ _ => none
  | .testsStarted => some .testsStarted
  | .groupStarted t => some (.groupStarted t)
  | .testStarted t => some (.testStarted t)
  | .print _ => none
  | .failure _ => none
  | .veryVerbose _ => none
  | .testEnded _ _ => some .testEnded
  | .groupEnded _ => some .groupEnded
  | .testsEnded s => some (.testsEnded s.testCount s.runCount s.ignoredCount s.filteredOutCount)

def skR (inf : Nat → TestInfo) (c : Registry.Counters) : Registry.Ev → Option Sk
  | .testsStarted => some .testsStarted
  | .groupStart i => some (.groupStarted (inf i))
  | .testStart i => some (.testStarted (inf i))
  | .exec _ => none
  | .testEnd _ => some .testEnded
  | .groupEnd _ => some .groupEnded
  | .testsEnded => some (.testsEnded c.testCount c.runCount c.ignoredCount c.filteredOutCount)

/-! ## one test -/

theorem actEvs_skel (t : TestInfo) : ∀ (as : List OutEv.Act), (OutEv.actEvs t as).filterMap skO = []
  | [] => rfl
  | a :: as => by
    have ih := actEvs_skel t as
    cases a <;> simp only [OutEv.actEvs, List.filterMap_cons, List.filterMap_nil, skO, ih]

theorem postEvs_skel (t : TestInfo) : ∀ (as : List OutEv.Act), (OutEv.postEvs t as).filterMap skO = []
  | [] => rfl
  | a :: as => by
    have ih := postEvs_skel t as
    cases a <;> simp only [OutEv.postEvs, List.filterMap_cons, List.filterMap_nil, skO, ih]

theorem testEvs_skel (s : Script) (r : OutEv.R) :
    (OutEv.testEvs s r).filterMap skO = [.testStarted s.info, .testEnded] := by
  have hinner : (OutEv.testInner s.info s.acts).filterMap skO = [] := by
    unfold OutEv.testInner OutEv.traceBetween
    cases OutEv.bodyExits s.acts <;>
      simp only [OutEv.traceBefore, OutEv.traceAfter, OutEv.vv, skO, actEvs_skel, postEvs_skel, List.filterMap_append,
        List.filterMap_cons, List.filterMap_nil, List.append_nil, List.nil_append, Bool.false_eq_true, if_false, if_true]
  unfold OutEv.testEvs
  cases s.info.willRun <;> simp [skO, hinner, List.filterMap_append]

theorem shouldRun_agrees (flt : Option OutEv.Filter) (s : Script) (k : Nat) :
    Registry.shouldRun (cfgOf flt) (mkTest k s) = OutEv.shouldRun flt s.info := by
  unfold Registry.shouldRun Gen.Registry.shouldRun OutEv.shouldRun cfgOf
  cases flt with
  | none => simp [Registry.matchFilters]
  | some f =>
    simp only [Option.map_some, Option.toList_some, Registry.matchFilters, Registry.matchLoop, Bool.true_and]
    unfold Registry.Filter.matches Gen.Registry.filterMatch OutEv.Filter.matches toFilter mkTest
    have hb : ∀ a b : Text.Bytes, decide (a = b) = (a == b) := by
      intro a b; by_cases h : a = b <;> simp [h]
    cases f.strict <;> cases f.invert <;> simp [hb]

/-- the counters of the two models agree -/
structure Cn (r : OutEv.R) (c : Registry.Counters) : Prop where
  tests : r.tests = c.testCount
  runs : r.runs = c.runCount
  ignored : r.ignored = c.ignoredCount
  filtered : r.filtered = c.filteredOutCount

theorem step_agrees (flt : Option OutEv.Filter) (inf : Nat → TestInfo) (cf : Registry.Counters) (s : Script) (k : Nat)
    (hinf : inf k = s.info) {r : OutEv.R} {c : Registry.Counters} (h : Cn r c) :
    (OutEv.bodyEvs flt s r).filterMap skO =
        (Registry.testStep (cfgOf flt) (mkTest k s) c).2.filterMap (skR inf cf) ∧
      Cn (OutEv.bodyR flt s r) (Registry.testStep (cfgOf flt) (mkTest k s) c).1 := by
  unfold OutEv.bodyEvs OutEv.bodyR Registry.testStep
  rw [shouldRun_agrees]
  cases hs : OutEv.shouldRun flt s.info with
  | false =>
    simp only [Bool.false_eq_true, if_false, List.filterMap_nil, true_and]
    exact ⟨by show r.tests + 1 = c.testCount + 1; rw [h.tests], h.runs, h.ignored, by
      show r.filtered + 1 = c.filteredOutCount + 1
      rw [h.filtered]⟩
  | true =>
    simp only [if_true, testEvs_skel]
    unfold Registry.runOneTest Registry.ignoredRunOneTest Registry.utestShellRunOneTest Gen.Registry.ignoredRuns
      OutEv.afterTest Registry.shellFlagAtUse mkTest
    cases hw : s.info.willRun with
    | true =>
      simp only [Bool.not_true, Bool.false_eq_true, if_false, if_true, cfgOf, List.filterMap_append, List.filterMap_cons,
        List.filterMap_nil, skR, hinf, List.cons_append, List.nil_append]
      exact ⟨trivial, by show r.tests + 1 = c.testCount + 1; rw [h.tests],
        by show r.runs + 1 = c.runCount + 1; rw [h.runs], h.ignored, h.filtered⟩
    | false =>
      simp only [Bool.not_false, if_true, cfgOf, Bool.false_eq_true, if_false, List.filterMap_append,
        List.filterMap_cons, List.filterMap_nil, skR, hinf, List.append_nil, List.cons_append, List.nil_append]
      exact ⟨trivial, by show r.tests + 1 = c.testCount + 1; rw [h.tests], h.runs,
        by show r.ignored + 1 = c.ignoredCount + 1; rw [h.ignored], h.filtered⟩

theorem endOfGroup_agrees (s : Script) (rest : List Script) (k : Nat) :
    Registry.endOfGroup (mkTest k s) (toTestsFrom (k + 1) rest) =
      OutEv.endOfGroup s rest := by
  cases rest with
  | nil => rfl
  | cons n rest => simp [toTestsFrom, Registry.endOfGroup, Gen.Registry.endOfGroup, OutEv.endOfGroup]

/-! ## the loop -/

theorem loop_agrees (flt : Option OutEv.Filter) (inf : Nat → TestInfo) (cf : Registry.Counters) :
    ∀ (rest : List Script) (k : Nat), (∀ (j : Nat) (s : Script), rest[j]? = some s → inf (k + j) = s.info) →
      ∀ (gs : Bool) (g0 : Nat) (r : OutEv.R) (c : Registry.Counters), Cn r c →
        (OutEv.loop flt gs g0 r rest).filterMap skO =
          (Registry.runLoop (cfgOf flt) gs (toTestsFrom k rest) c).2.filterMap (skR inf cf) ++
            [.testsEnded (Registry.runLoop (cfgOf flt) gs (toTestsFrom k rest) c).1.testCount
              (Registry.runLoop (cfgOf flt) gs (toTestsFrom k rest) c).1.runCount
              (Registry.runLoop (cfgOf flt) gs (toTestsFrom k rest) c).1.ignoredCount
              (Registry.runLoop (cfgOf flt) gs (toTestsFrom k rest) c).1.filteredOutCount]
  | [], k, _, gs, g0, r, c, h => by
    simp [OutEv.loop, toTestsFrom, Registry.runLoop, skO, OutEv.R.summary, h.tests, h.runs, h.ignored, h.filtered]
  | s :: rest, k, hinf, gs, g0, r, c, h => by
    have hk : inf k = s.info := by simpa using hinf 0 s rfl
    have hstep := step_agrees flt inf cf s k hk h
    have hrest : ∀ (j : Nat) (s' : Script), rest[j]? = some s' → inf (k + 1 + j) = s'.info := by
      intro j s' hj
      have := hinf (j + 1) s' (by simpa using hj)
      rw [← this]; congr 1; omega
    have ih := loop_agrees flt inf cf rest (k + 1) hrest (OutEv.endOfGroup s rest) (if gs then r.clock else g0)
      (OutEv.bodyR flt s r) _ hstep.2
    have hstart : (OutEv.startEvs gs s).filterMap skO =
        (if gs then [Registry.Ev.groupStart k] else []).filterMap (skR inf cf) := by
      cases gs <;> simp [OutEv.startEvs, skO, skR, hk]
    have hend : ∀ g r', (OutEv.endEvs s rest g r').filterMap skO =
        (if OutEv.endOfGroup s rest then [Registry.Ev.groupEnd k] else []).filterMap (skR inf cf) := by
      intro g r'
      cases he : OutEv.endOfGroup s rest <;> simp [OutEv.endEvs, he, skO, skR]
    simp only [OutEv.loop, toTestsFrom, Registry.runLoop, List.filterMap_append, endOfGroup_agrees, hstart, hend,
      hstep.1, ih, List.append_assoc]

theorem infoAt_spec (all : List Script) : ∀ (j : Nat) (s : Script), all[j]? = some s → infoAt all (0 + j) = s.info := by
  intro j s h
  simp [infoAt, h]

/-- **The two registry loops emit the same notifications.**  Connects `OutEv.runAll` (C16/C20) with
    `Registry.runAllTests` (C02): same tests started and ended in the same order (the tests the filter selects,
    ignored ones included), group started/ended at the same places, and the counters printed with `testsEnded` are the
    C02 counters — for every registry content and every name filter. -/
theorem skeleton_agrees (flt : Option OutEv.Filter) (ss : List Script) :
    (OutEv.runAll flt ss).filterMap skO =
      (Registry.runAllTests (cfgOf flt) (toTests ss)).2.filterMap
        (skR (infoAt ss) (Registry.runAllTests (cfgOf flt) (toTests ss)).1) := by
  have h := loop_agrees flt (infoAt ss) (Registry.runAllTests (cfgOf flt) (toTests ss)).1 ss 0 (infoAt_spec ss)
    true 0 {} {} ⟨rfl, rfl, rfl, rfl⟩
  unfold OutEv.runAll Registry.runAllTests toTests
  simp only [List.filterMap_cons, List.filterMap_append, List.filterMap_nil, skO, skR, List.cons_append, List.nil_append]
  rw [h]
  rfl

/-! ## corollaries: C02's theorems about the notifications, for the writers' event lists -/

def groupStartedInfos (evs : List OutEv.Ev) : List TestInfo :=
  evs.filterMap (fun e => match e with | .groupStarted t => some t | _ => none)

def skGroupStarts (l : List Sk) : List TestInfo :=
  l.filterMap (fun e => match e with | .groupStarted t => some t | _ => none)

def skGroupEnds (l : List Sk) : Nat := (l.filter (fun e => e == .groupEnded)).length

theorem skGroupStarts_O (evs : List OutEv.Ev) : skGroupStarts (evs.filterMap skO) = groupStartedInfos evs := by
  induction evs with
  | nil => rfl
  | cons e es ih =>
    cases e <;> simp_all [skGroupStarts, groupStartedInfos, skO, List.filterMap_cons]

theorem skGroupStarts_R (inf : Nat → TestInfo) (c : Registry.Counters) (evs : List Registry.Ev) :
    skGroupStarts (evs.filterMap (skR inf c)) = (Registry.groupStarts evs).map inf := by
  induction evs with
  | nil => rfl
  | cons e es ih =>
    cases e <;> simp_all [skGroupStarts, Registry.groupStarts, skR, List.filterMap_cons]

theorem skGroupEnds_O (evs : List OutEv.Ev) :
    skGroupEnds (evs.filterMap skO) = (evs.filter (fun e => match e with | .groupEnded _ => true | _ => false)).length := by
  induction evs with
  | nil => rfl
  | cons e es ih =>
    cases e <;> simp_all [skGroupEnds, skO, List.filterMap_cons, List.filter_cons]

theorem skGroupEnds_R (inf : Nat → TestInfo) (c : Registry.Counters) (evs : List Registry.Ev) :
    skGroupEnds (evs.filterMap (skR inf c)) = (Registry.groupEnds evs).length := by
  induction evs with
  | nil => rfl
  | cons e es ih =>
    cases e <;> simp_all [skGroupEnds, Registry.groupEnds, skR, List.filterMap_cons, List.filter_cons]

/-- **Group placement.**  C02's `group_notifications_at_block_boundaries`, carried over to the event list the writers
    consume: `printCurrentGroupStarted` is called exactly for the first test of every block of C02's `groupBlocks`
    (maximal runs of equal group names), in order, and `printCurrentGroupEnded` exactly once per block — so the JUnit
    writer produces one file per C02 block and the TeamCity writer one suite per C02 block. -/
theorem group_placement (flt : Option OutEv.Filter) (ss : List Script) :
    groupStartedInfos (OutEv.runAll flt ss) =
      (Registry.blockHeads (Registry.groupBlocks (toTests ss))).map (infoAt ss) ∧
    ((OutEv.runAll flt ss).filter (fun e => match e with | .groupEnded _ => true | _ => false)).length =
      (Registry.groupBlocks (toTests ss)).length := by
  have hsk := skeleton_agrees flt ss
  have hb := Registry.group_notifications_at_block_boundaries (cfgOf flt) (toTests ss)
  constructor
  · rw [← skGroupStarts_O, hsk, skGroupStarts_R, hb.1]
  · rw [← skGroupEnds_O, hsk, skGroupEnds_R, hb.2.1]
    unfold Registry.blockLasts
    have hne := hb.2.2.2.1
    generalize Registry.groupBlocks (toTests ss) = bs at hne
    induction bs with
    | nil => rfl
    | cons b bs ih =>
      have hb0 : b ≠ [] := hne b (List.mem_cons_self ..)
      have hl : (b.getLast?.map (·.id)).isSome = true := by
        cases b with
        | nil => exact absurd rfl hb0
        | cons x xs => simp [List.getLast?_cons_cons, List.getLast?_isSome]
      obtain ⟨v, hv⟩ := Option.isSome_iff_exists.mp hl
      rw [List.filterMap_cons, hv]
      simp only [List.length_cons]
      rw [ih (fun b' hb' => hne b' (List.mem_cons_of_mem _ hb'))]

def testStartedInfos (evs : List OutEv.Ev) : List TestInfo :=
  evs.filterMap (fun e => match e with | .testStarted t => some t | _ => none)

def skTestStarts (l : List Sk) : List TestInfo :=
  l.filterMap (fun e => match e with | .testStarted t => some t | _ => none)

theorem skTestStarts_O (evs : List OutEv.Ev) : skTestStarts (evs.filterMap skO) = testStartedInfos evs := by
  induction evs with
  | nil => rfl
  | cons e es ih =>
    cases e <;> simp_all [skTestStarts, testStartedInfos, skO, List.filterMap_cons]

theorem skTestStarts_R (inf : Nat → TestInfo) (c : Registry.Counters) (evs : List Registry.Ev) :
    skTestStarts (evs.filterMap (skR inf c)) = (Registry.started evs).map inf := by
  induction evs with
  | nil => rfl
  | cons e es ih =>
    cases e <;> simp_all [skTestStarts, Registry.started, skR, List.filterMap_cons]

/-- **Selected tests.**  C02's `each_selected_once`, carried over: `printCurrentTestStarted` is called exactly for the
    tests the C02 model selects (its `shouldRun`, i.e. by `selected_iff` the documented filter meaning), each once, in
    list order — these are the test cases of the JUnit report and the `testStarted` messages of TeamCity. -/
theorem tests_started_agree (flt : Option OutEv.Filter) (ss : List Script) :
    testStartedInfos (OutEv.runAll flt ss) =
      ((toTests ss).filter (Registry.shouldRun (cfgOf flt))).map (fun t => infoAt ss t.id) := by
  rw [← skTestStarts_O, skeleton_agrees, skTestStarts_R, (Registry.each_selected_once (cfgOf flt) (toTests ss)).1,
    List.map_map]
  rfl

/-- **Counters.**  The summary handed to `printTestsEnded` carries C02's counters (`counts_exact` applies to it). -/
theorem summary_counts_agree (flt : Option OutEv.Filter) (ss : List Script) :
    ∃ s pre, OutEv.runAll flt ss = pre ++ [.testsEnded s] ∧
      s.testCount = (Registry.runAllTests (cfgOf flt) (toTests ss)).1.testCount ∧
      s.runCount = (Registry.runAllTests (cfgOf flt) (toTests ss)).1.runCount ∧
      s.ignoredCount = (Registry.runAllTests (cfgOf flt) (toTests ss)).1.ignoredCount ∧
      s.filteredOutCount = (Registry.runAllTests (cfgOf flt) (toTests ss)).1.filteredOutCount := by
  have hlast : ∀ (rest : List Script) (gs : Bool) (g0 : Nat) (r : OutEv.R),
      ∃ s pre, OutEv.loop flt gs g0 r rest = pre ++ [.testsEnded s] := by
    intro rest
    induction rest with
    | nil => intro gs g0 r; exact ⟨r.summary, [], rfl⟩
    | cons t rest ih =>
      intro gs g0 r
      obtain ⟨s, pre, h⟩ := ih (OutEv.endOfGroup t rest) (if gs then r.clock else g0) (OutEv.bodyR flt t r)
      exact ⟨s, OutEv.startEvs gs t ++ OutEv.bodyEvs flt t r ++
        OutEv.endEvs t rest (if gs then r.clock else g0) (OutEv.bodyR flt t r) ++ pre,
        by simp only [OutEv.loop, h, List.append_assoc]⟩
  obtain ⟨s, pre, hl⟩ := hlast ss true 0 {}
  have h := loop_agrees flt (infoAt ss) {} ss 0 (infoAt_spec ss) true 0 {} {} ⟨rfl, rfl, rfl, rfl⟩
  rw [hl] at h
  have hrun : OutEv.runAll flt ss = (.testsStarted :: pre) ++ [.testsEnded s] := by
    unfold OutEv.runAll; rw [hl]; rfl
  refine ⟨s, .testsStarted :: pre, hrun, ?_⟩
  have hh := congrArg List.getLast? h
  simp only [List.filterMap_append, List.filterMap_cons, List.filterMap_nil, skO, List.getLast?_append,
    List.getLast?_singleton, Option.some_or, Option.some.injEq, Sk.testsEnded.injEq] at hh
  exact hh

/-! ## JUnit: one report file per C02 group block -/

/-- C16's `groupRuns` (the grouping its `suites_follow_groups` is stated with) and C02's `groupBlocks` cut the list
    at the same places: same block lengths, and both start their first block with the first test. -/
theorem groupRuns_blocks : ∀ (ss : List Script) (k : Nat),
    (JUnit.groupRuns ss).map List.length = (Registry.groupBlocks (toTestsFrom k ss)).map List.length ∧
    (∀ n rest, ss = n :: rest → (∃ run more, JUnit.groupRuns ss = (n :: run) :: more) ∧
      ∃ b bs, Registry.groupBlocks (toTestsFrom k ss) = (mkTest k n :: b) :: bs)
  | [], _ => ⟨rfl, fun n rest h => by cases h⟩
  | [t], k => by
    refine ⟨by simp [JUnit.groupRuns, toTestsFrom, Registry.groupBlocks, Registry.endOfGroup, Gen.Registry.endOfGroup], ?_⟩
    intro n rest h
    cases h
    exact ⟨⟨[], [], by simp [JUnit.groupRuns]⟩,
      ⟨[], [], by simp [toTestsFrom, Registry.groupBlocks, Registry.endOfGroup, Gen.Registry.endOfGroup]⟩⟩
  | t :: n :: rest, k => by
    obtain ⟨hlen, hhead⟩ := groupRuns_blocks (n :: rest) (k + 1)
    obtain ⟨⟨run, more, hr⟩, ⟨b, bs, hb⟩⟩ := hhead n rest rfl
    have heog : Registry.endOfGroup (mkTest k t) (toTestsFrom (k + 1) (n :: rest)) = (t.info.group != n.info.group) := by
      rw [endOfGroup_agrees]; rfl
    have hR : JUnit.groupRuns (t :: n :: rest) =
        if t.info.group == n.info.group then (t :: n :: run) :: more else [t] :: (n :: run) :: more := by
      simp only [JUnit.groupRuns] at hr ⊢
      rw [hr]
    have hB : Registry.groupBlocks (toTestsFrom k (t :: n :: rest)) =
        if (t.info.group != n.info.group) = true then [mkTest k t] :: (mkTest (k + 1) n :: b) :: bs
        else (mkTest k t :: mkTest (k + 1) n :: b) :: bs := by
      show Registry.groupBlocks (mkTest k t :: toTestsFrom (k + 1) (n :: rest)) = _
      simp only [Registry.groupBlocks, heog, hb]
    rw [hr, hb] at hlen
    simp only [List.map_cons, List.length_cons, List.cons.injEq] at hlen
    refine ⟨?_, ?_⟩
    · rw [hR, hB]
      by_cases hg : t.info.group = n.info.group
      · simp [hg, hlen.1, hlen.2]
      · simp [hg, hlen.1, hlen.2]
    · intro n' rest' h
      cases h
      refine ⟨?_, ?_⟩
      · rw [hR]; split
        · exact ⟨_, _, rfl⟩
        · exact ⟨_, _, rfl⟩
      · rw [hB]; split
        · exact ⟨_, _, rfl⟩
        · exact ⟨_, _, rfl⟩

/-- **One JUnit report file per C02 group block.**  Connects C16's `suites_follow_groups` (the reports of a run
    correspond to `groupRuns`) with C02's `groupBlocks`: the number of report files the JUnit writer produces for a
    run is the number of blocks of `Registry.groupBlocks`, and file `i` holds as many test cases as tests of C16's
    run `i` ran, the runs having the lengths of the C02 blocks. -/
theorem junit_reports_are_registry_blocks (package timeString : Text.Bytes) (flt : Option OutEv.Filter) (ss : List Script) :
    (JUnit.reports package timeString (OutEv.runAll flt ss)).length = (Registry.groupBlocks (toTests ss)).length ∧
    (JUnit.groupRuns ss).map List.length = (Registry.groupBlocks (toTests ss)).map List.length := by
  have h1 := congrArg List.length (JUnit.suites_follow_groups package timeString flt ss)
  have h2 := (groupRuns_blocks ss 0).1
  have h3 := congrArg List.length h2
  simp only [List.length_map] at h1 h3
  exact ⟨h1.trans h3, h2⟩

/-! ## non-vacuity -/

def exScripts : List Script :=
  [ ⟨⟨OutEv.lit "A", OutEv.lit "t1", OutEv.lit "a.cpp", 3, true⟩, [.checks 2, .print (OutEv.lit "a.cpp") 4 (OutEv.lit "hi")]⟩,
    ⟨⟨OutEv.lit "A", OutEv.lit "skip", OutEv.lit "a.cpp", 9, true⟩, []⟩,
    ⟨⟨OutEv.lit "B", OutEv.lit "t2", OutEv.lit "b.cpp", 5, false⟩, []⟩,
    ⟨⟨OutEv.lit "A", OutEv.lit "t3", OutEv.lit "a.cpp", 20, true⟩, [.failExit (OutEv.lit "a.cpp") 21 (OutEv.lit "boom"), .checks 5]⟩ ]

def exFilter : OutEv.Filter := ⟨OutEv.lit "t", true, true⟩   -- -xsn t : everything except the test named "t"

example : (OutEv.runAll (some ⟨OutEv.lit "skip", false, true⟩) exScripts).filterMap skO =
    [.testsStarted, .groupStarted exScripts[0]!.info, .testStarted exScripts[0]!.info, .testEnded, .groupEnded,
     .groupStarted exScripts[2]!.info, .testStarted exScripts[2]!.info, .testEnded, .groupEnded,
     .groupStarted exScripts[3]!.info, .testStarted exScripts[3]!.info, .testEnded, .groupEnded,
     .testsEnded 4 2 1 1] := by decide

example : (Registry.groupBlocks (toTests exScripts)).map (·.map (·.id)) = [[0, 1], [2], [3]] := by decide

end Compose.C16x
