import CppUModel.Gen.MockEquals
import CppUModel.Proofs.MockValue
import CppUModel.Model.MockNamedValueList
import CppUModel.Model.MockEntry
import CppUModel.Model.MockReturn
import CppUModel.Model.MockData
/-!
# C09 — mock parameter values compare by mathematical value, symmetrically

Property theorems only.  `equalsGen` and the six `get…Gen` functions are REGENERATED from the current
`src/CppUTestExt/MockNamedValue.cpp` (clang AST → Lean, `translate/cxx2lean_c09.py`) before this file
is compiled, so every theorem below is about the code as it is now; the callee models
(`simpleStringEq`, `MemCmpSz`, `doubles_equal`, `comparatorIsEqual`) and the value type are in
`Model/MockValue.lean`, the vocabulary (`denote?`, `isInt`, `WF`) in `Spec/MockValue.lean`.
All quantifiers range over every bit pattern / byte string; proofs by toInt/toNat lemmas and omega.
-/
namespace Mock
open Gen.MockEquals

set_option maxRecDepth 8000
set_option linter.unusedSimpArgs false

/-- the table (type name, union member, C type) extracted from the `setValue` overloads is the one
    the value type `MVal` and its readers were written for -/
theorem setters_as_modelled : Gen.MockEquals.setters = modelledSetters := by decide

/-! ## integers: 36 ordered type pairs, all values -/

/-- Two integer values of any two of the six integer types compare equal exactly when they denote
    the same mathematical integer. -/
theorem equals_int_iff (a b : MVal) (ha : a.isInt = true) (hb : b.isInt = true) :
    equalsGen a b = true ↔ denote? a = denote? b := by
  cases a <;> cases b <;> simp [MVal.isInt] at ha hb <;> rename_i x y <;>
    (first | have hx := toInt_cases32 x | have hx := toInt_cases64 x) <;>
    (first | have hy := toInt_cases32 y | have hy := toInt_cases64 y) <;>
    simp [equalsGen, MVal.type_, MVal.longIntValue_, MVal.intValue_, MVal.unsignedIntValue_, MVal.unsignedLongIntValue_,
      MVal.longLongIntValue_, MVal.unsignedLongLongIntValue_, denote?, ← BitVec.toInt_inj, BitVec.sle_iff_toInt_le,
      toInt_zext_32_64, toInt_sext_32_64, -BitVec.toInt_setWidth] <;> omega

/-- The answer does not depend on which side is the expectation. -/
theorem equals_int_symm (a b : MVal) (ha : a.isInt = true) (hb : b.isInt = true) :
    equalsGen a b = equalsGen b a := by
  rw [Bool.eq_iff_iff, equals_int_iff a b ha hb, equals_int_iff b a hb ha]
  exact eq_comm

/-- An integer value is equal to itself through every type that can hold it, and only then
    (reflexivity as a corollary). -/
theorem equals_int_refl (a : MVal) (ha : a.isInt = true) : equalsGen a a = true :=
  (equals_int_iff a a ha ha).mpr rfl

/-! ## different types never compare equal (integer vs non-integer, or two different non-integer types) -/

theorem equals_other_type_false (a b : MVal) (hwa : a.WF) (hwb : b.WF) (ht : a.type_ ≠ b.type_)
    (hni : ¬ (a.isInt = true ∧ b.isInt = true)) : equalsGen a b = false := by
  cases a <;> cases b <;>
    simp [MVal.WF, builtinTypeNames, MVal.isInt, MVal.type_] at hwa hwb ht hni <;>
    simp [equalsGen, MVal.type_, *] <;>
    (try simp [ht, Ne.symm ht, eq_comm, *])


/-- an integer value never equals a non-integer value, whichever side it is on -/
theorem equals_int_nonint_false (a b : MVal) (hwb : b.WF) (ha : a.isInt = true) (hb : b.isInt = false) :
    equalsGen a b = false ∧ equalsGen b a = false := by
  have hwa : a.WF := by cases a <;> simp [MVal.isInt] at ha <;> trivial
  have ht : a.type_ ≠ b.type_ := by
    cases a <;> simp [MVal.isInt] at ha <;> cases b <;>
      simp [MVal.isInt, MVal.WF, builtinTypeNames, MVal.type_] at hb hwb ⊢ <;> simp [*, eq_comm]
  exact ⟨equals_other_type_false a b hwa hwb ht (by simp [hb]),
         equals_other_type_false b a hwb hwa (Ne.symm ht) (by simp [hb])⟩

/-! ## identity within bool / pointer types -/

theorem equals_bool_iff (x y : Bool) : equalsGen (.bool x) (.bool y) = true ↔ x = y := by
  cases x <;> cases y <;> simp [equalsGen, MVal.type_, MVal.boolValue_, boolToBV]

theorem equals_ptr_iff (x y : Nat) : equalsGen (.ptr x) (.ptr y) = true ↔ x = y := by
  simp [equalsGen, MVal.type_, MVal.pointerValue_]

theorem equals_cptr_iff (x y : Nat) : equalsGen (.cptr x) (.cptr y) = true ↔ x = y := by
  simp [equalsGen, MVal.type_, MVal.constPointerValue_]

theorem equals_fptr_iff (x y : Nat) : equalsGen (.fptr x) (.fptr y) = true ↔ x = y := by
  simp [equalsGen, MVal.type_, MVal.functionPointerValue_]

/-! ## strings by content, buffers by length and content -/

/-- `const char*` values compare by the content of the C strings (NULL counts as the empty string) -/
theorem str_eq_iff_content (a b : Option Bytes) (ha : NulFree (cstrContent a)) (hb : NulFree (cstrContent b)) :
    equalsGen (.str a) (.str b) = true ↔ cstrContent a = cstrContent b := by
  have h : equalsGen (.str a) (.str b) = simpleStringEq (simpleStringOfCStr a) (simpleStringOfCStr b) := by
    simp [equalsGen, MVal.type_, MVal.stringValue_]
  have e : ∀ s, simpleStringOfCStr s = cstrContent s := by intro s; cases s <;> rfl
  rw [h, e a, e b]
  simp only [simpleStringEq, beq_iff_eq]
  exact cmp_eq_zero_iff _ _ ha hb

/-- memory buffers compare by length and content -/
theorem mem_eq_iff_len_and_content (a b : Bytes) (ha : SizeOk a) (hb : SizeOk b) :
    equalsGen (.mem a) (.mem b) = true ↔ a.length = b.length ∧ a = b := by
  have h : equalsGen (.mem a) (.mem b) =
      (if BitVec.ofNat 64 a.length != BitVec.ofNat 64 b.length then false
       else MemCmpSz a b (BitVec.ofNat 64 a.length) == 0#32) := by
    simp [equalsGen, MVal.type_, MVal.memoryBufferValue_, MVal.size_]
  rw [h]
  by_cases hl : a.length = b.length
  · have h1 : (BitVec.ofNat 64 a.length != BitVec.ofNat 64 b.length) = false := by
      simp [(ofNat64_length_eq_iff a b ha hb).mpr hl]
    simp only [h1, MemCmpSz, toNat_ofNat64_length a ha, beq_iff_eq, Bool.false_eq_true, if_false]
    rw [memCmp_eq_zero_iff a b hl]
    exact ⟨fun h => ⟨hl, h⟩, fun h => h.2⟩
  · have h1 : (BitVec.ofNat 64 a.length != BitVec.ofNat 64 b.length) = true := by
      simp [mt (ofNat64_length_eq_iff a b ha hb).mp hl]
    simp [h1, hl]

/-! ## doubles: the LEFT operand's tolerance, NaN equal to nothing -/

/-- the double branch is `doubles_equal(this.value, p.value, this.tolerance)`: the right operand's
    tolerance plays no role -/
theorem dbl_eq_uses_left_tolerance (v t w t' : D Float) :
    equalsGen (.dbl v t) (.dbl w t') = doublesEqual floatClose v w t := by
  simp [equalsGen, MVal.type_, MVal.doubleValue_value, MVal.doubleValue_tolerance, doubles_equal]

/-- class logic of `doubles_equal`, for every interpretation of the finite comparison -/
theorem doublesEqual_nan_left {F} (c : F → F → F → Bool) (w t : D F) : doublesEqual c .nan w t = false := by
  cases w <;> cases t <;> rfl
theorem doublesEqual_nan_right {F} (c : F → F → F → Bool) (v t : D F) : doublesEqual c v .nan t = false := by
  cases v <;> cases t <;> rfl
theorem doublesEqual_nan_tol {F} (c : F → F → F → Bool) (v w : D F) : doublesEqual c v w .nan = false := by
  cases v <;> cases w <;> rfl
/-- two infinities: the same infinity is equal whatever the (non-NaN) tolerance; opposite infinities
    only under the tolerance +inf -/
theorem doublesEqual_inf_inf {F} (c : F → F → F → Bool) (n1 n2 : Bool) (t : D F) (ht : t ≠ .nan) :
    doublesEqual c (.inf n1) (.inf n2) t = true ↔ n1 = n2 ∨ t = .inf false := by
  cases t <;> simp [doublesEqual] at *
/-- an infinity and a finite number are equal only under the tolerance +inf -/
theorem doublesEqual_inf_fin {F} (c : F → F → F → Bool) (n : Bool) (y : F) (t : D F) :
    (doublesEqual c (.inf n) (.fin y) t = true ↔ t = .inf false) ∧
    (doublesEqual c (.fin y) (.inf n) t = true ↔ t = .inf false) := by
  cases t <;> simp [doublesEqual]
/-- finite operands and finite tolerance: exactly the hardware comparison `fabs(x - y) <= t` -/
theorem doublesEqual_fin {F} (c : F → F → F → Bool) (x y t : F) :
    doublesEqual c (.fin x) (.fin y) (.fin t) = c x y t := rfl
/-- finite operands, infinite tolerance: +inf accepts everything, -inf nothing -/
theorem doublesEqual_fin_inf_tol {F} (c : F → F → F → Bool) (x y : F) (neg : Bool) :
    doublesEqual c (.fin x) (.fin y) (.inf neg) = !neg := rfl

/-- NaN is equal to nothing: as either value or as the expectation's tolerance -/
theorem dbl_nan_equals_nothing (v w t t' : D Float) (h : v = .nan ∨ w = .nan ∨ t = .nan) :
    equalsGen (.dbl v t) (.dbl w t') = false := by
  rw [dbl_eq_uses_left_tolerance]
  rcases h with h | h | h <;> subst h
  · exact doublesEqual_nan_left _ _ _
  · exact doublesEqual_nan_right _ _ _
  · exact doublesEqual_nan_tol _ _ _

/-- finite doubles are compared by the expectation's (left operand's) tolerance -/
theorem dbl_fin_iff (x y t : Float) (t' : D Float) :
    equalsGen (.dbl (.fin x) (.fin t)) (.dbl (.fin y) t') = floatClose x y t := by
  rw [dbl_eq_uses_left_tolerance]; rfl

/-! ## custom object types -/

theorem obj_eq_comparator (ty : String) (hty : ty ∉ builtinTypeNames) (x y : Nat) (f : Nat → Nat → Bool)
    (c : Option (Nat → Nat → Bool)) : equalsGen (.obj ty x (some f)) (.obj ty y c) = f x y := by
  simp [builtinTypeNames] at hty
  simp [equalsGen, MVal.type_, MVal.comparator_, MVal.constObjectPointerValue_, comparatorIsEqual, hty]

/-- without a comparator for the type, object values never compare equal (not even to themselves) -/
theorem obj_no_comparator_false (ty : String) (hty : ty ∉ builtinTypeNames) (x y : Nat)
    (c : Option (Nat → Nat → Bool)) : equalsGen (.obj ty x none) (.obj ty y c) = false := by
  simp [builtinTypeNames] at hty
  simp [equalsGen, MVal.type_, MVal.comparator_, hty]


/-! ## getters: exactly the stored integer, or the test fails — never a different number

`get…Gen v = .ok n` means the getter returned `n`; `.error` is the failing `STRCMP_EQUAL` on the type
name.  `denote? v = some …` also says that a getter never succeeds on a non-integer value. -/

section getters
set_option linter.unusedSimpArgs false

local macro "getter_tac" g:ident : tactic => `(tactic| (
  intro v hw n h
  cases v
  case obj ty a c =>
    exfalso
    have e := obj_type_beq_false ty a c hw
    simp only [$g:ident, e "int" (by decide), e "unsigned int" (by decide), e "long int" (by decide),
      e "unsigned long int" (by decide), e "long long int" (by decide), e "unsigned long long int" (by decide),
      Bool.false_and, Bool.false_eq_true, if_false, reduceCtorEq] at h
  all_goals (
    clear hw
    simp [$g:ident, MVal.type_, MVal.longIntValue_, MVal.intValue_, MVal.unsignedIntValue_,
      MVal.unsignedLongIntValue_, MVal.longLongIntValue_, MVal.unsignedLongLongIntValue_, denote?, resultInt,
      getIntValueSigned, getUnsignedIntValueSigned, getLongIntValueSigned, getUnsignedLongIntValueSigned,
      getLongLongIntValueSigned, getUnsignedLongLongIntValueSigned] at h ⊢ <;>
    (try (rename_i x
          first | (have hx := toInt_cases32 x; have hs := toNat_sext_32_64 x) | have hx := toInt_cases64 x)) <;>
    (try (repeat' split at h)) <;>
    (try simp at h) <;>
    (try subst h) <;>
    (try simp [BitVec.sle_iff_toInt_le, toInt_zext_32_64, toInt_sext_32_64, -BitVec.toInt_setWidth] at *) <;>
    (try omega))))

theorem getIntValue_exact : ∀ (v : MVal), v.WF → ∀ n, getIntValueGen v = .ok n →
    denote? v = some (resultInt getIntValueSigned n) := by
  getter_tac getIntValueGen
theorem getUnsignedIntValue_exact : ∀ (v : MVal), v.WF → ∀ n, getUnsignedIntValueGen v = .ok n →
    denote? v = some (resultInt getUnsignedIntValueSigned n) := by
  getter_tac getUnsignedIntValueGen
theorem getLongIntValue_exact : ∀ (v : MVal), v.WF → ∀ n, getLongIntValueGen v = .ok n →
    denote? v = some (resultInt getLongIntValueSigned n) := by
  getter_tac getLongIntValueGen
theorem getUnsignedLongIntValue_exact : ∀ (v : MVal), v.WF → ∀ n, getUnsignedLongIntValueGen v = .ok n →
    denote? v = some (resultInt getUnsignedLongIntValueSigned n) := by
  getter_tac getUnsignedLongIntValueGen
theorem getLongLongIntValue_exact : ∀ (v : MVal), v.WF → ∀ n, getLongLongIntValueGen v = .ok n →
    denote? v = some (resultInt getLongLongIntValueSigned n) := by
  getter_tac getLongLongIntValueGen
theorem getUnsignedLongLongIntValue_exact : ∀ (v : MVal), v.WF → ∀ n, getUnsignedLongLongIntValueGen v = .ok n →
    denote? v = some (resultInt getUnsignedLongLongIntValueSigned n) := by
  getter_tac getUnsignedLongLongIntValueGen

end getters

/-- the return types are read signed / unsigned as declared (regenerated flags) -/
theorem getter_signedness :
    getIntValueSigned = true ∧ getUnsignedIntValueSigned = false ∧ getLongIntValueSigned = true ∧
    getUnsignedLongIntValueSigned = false ∧ getLongLongIntValueSigned = true ∧
    getUnsignedLongLongIntValueSigned = false := by decide

/-- Every integer getter on every stored value returns exactly the stored integer or fails. -/
theorem getter_exact_or_fail (v : MVal) (hw : v.WF) :
    (∀ n, getIntValueGen v = .ok n → denote? v = some n.toInt) ∧
    (∀ n, getUnsignedIntValueGen v = .ok n → denote? v = some (n.toNat : Int)) ∧
    (∀ n, getLongIntValueGen v = .ok n → denote? v = some n.toInt) ∧
    (∀ n, getUnsignedLongIntValueGen v = .ok n → denote? v = some (n.toNat : Int)) ∧
    (∀ n, getLongLongIntValueGen v = .ok n → denote? v = some n.toInt) ∧
    (∀ n, getUnsignedLongLongIntValueGen v = .ok n → denote? v = some (n.toNat : Int)) :=
  ⟨fun n h => by simpa [resultInt, getIntValueSigned] using getIntValue_exact v hw n h,
   fun n h => by simpa [resultInt, getUnsignedIntValueSigned] using getUnsignedIntValue_exact v hw n h,
   fun n h => by simpa [resultInt, getLongIntValueSigned] using getLongIntValue_exact v hw n h,
   fun n h => by simpa [resultInt, getUnsignedLongIntValueSigned] using getUnsignedLongIntValue_exact v hw n h,
   fun n h => by simpa [resultInt, getLongLongIntValueSigned] using getLongLongIntValue_exact v hw n h,
   fun n h => by simpa [resultInt, getUnsignedLongLongIntValueSigned] using getUnsignedLongLongIntValue_exact v hw n h⟩

/-- the repaired defect: an `unsigned long` above LLONG_MAX read as `long long` fails the test
    (it used to return the negative number with the same bit pattern) -/
theorem getLongLong_of_ulong_above_max_fails (v : BitVec 64) (h : 9223372036854775808 ≤ v.toNat) :
    getLongLongIntValueGen (.ulong v) = .error (.typeMismatch "long long int") := by
  have hv := toInt_cases64 v
  have hs : ¬ (0 ≤ v.toInt) := by omega
  simp [getLongLongIntValueGen, MVal.type_, MVal.unsignedLongIntValue_, BitVec.sle_iff_toInt_le, hs]

/-- … and at or below LLONG_MAX it is returned unchanged -/
theorem getLongLong_of_ulong_in_range (v : BitVec 64) (h : v.toNat < 9223372036854775808) :
    getLongLongIntValueGen (.ulong v) = .ok v := by
  have hv := toInt_cases64 v
  have hs : 0 ≤ v.toInt := by omega
  simp [getLongLongIntValueGen, MVal.type_, MVal.unsignedLongIntValue_, BitVec.sle_iff_toInt_le, hs]

/-- a negative value read as unsigned fails the test (the example the property names) -/
theorem getUnsigned_of_negative_int_fails (v : BitVec 32) (h : v.toInt < 0) :
    getUnsignedIntValueGen (.int v) = .error (.typeMismatch "unsigned int") ∧
    getUnsignedLongIntValueGen (.int v) = .error (.typeMismatch "unsigned long int") ∧
    getUnsignedLongLongIntValueGen (.int v) = .error (.typeMismatch "unsigned long long int") := by
  have hs : ¬ (0 ≤ v.toInt) := by omega
  simp [getUnsignedIntValueGen, getUnsignedLongIntValueGen, getUnsignedLongLongIntValueGen, MVal.type_, MVal.intValue_,
    BitVec.sle_iff_toInt_le, hs]

/-- every getter returns a value of its own type unchanged -/
theorem getter_same_type (x : BitVec 32) (y : BitVec 64) :
    getIntValueGen (.int x) = .ok x ∧ getUnsignedIntValueGen (.uint x) = .ok x ∧
    getLongIntValueGen (.long y) = .ok y ∧ getUnsignedLongIntValueGen (.ulong y) = .ok y ∧
    getLongLongIntValueGen (.llong y) = .ok y ∧ getUnsignedLongLongIntValueGen (.ullong y) = .ok y := by
  simp [getIntValueGen, getUnsignedIntValueGen, getLongIntValueGen, getUnsignedLongIntValueGen, getLongLongIntValueGen,
    getUnsignedLongLongIntValueGen, MVal.type_, MVal.longIntValue_, MVal.intValue_, MVal.unsignedIntValue_,
    MVal.unsignedLongIntValue_, MVal.longLongIntValue_, MVal.unsignedLongLongIntValue_]

/-! ## the platform predicates the double class model rests on -/

/-- `isnan` / `isinf` of the double itself and libc's `fabs`, as wired in src/Platforms/Gcc/UtestPlatform.cpp -/
theorem platform_predicates_as_modelled : Gen.MockEquals.platformPredicates = modelledPlatformPredicates := by decide

/-! ## every setter stores the right type name and its argument; reading back through the getter of the same type

`Gen.MockEquals.setters` is regenerated from the `setValue` / `setMemoryBuffer` overloads (the translator also checks
that the stored payload is the argument itself); the constructors of `MVal` are the setters' model. -/

/-- for every supported C++ argument type: (type name, union member, argument type) is what the source does, the
    model value carries that type name, and the getter of the same type returns exactly what was stored -/
theorem stored_value_roundtrip :
    (("bool", "boolValue_", "bool") ∈ setters ∧ ∀ b, (MVal.bool b).type_ = "bool" ∧ getBoolValueGen (.bool b) = .ok b) ∧
    (("int", "intValue_", "int") ∈ setters ∧ ∀ v, (MVal.int v).type_ = "int" ∧ getIntValueGen (.int v) = .ok v) ∧
    (("unsigned int", "unsignedIntValue_", "unsigned int") ∈ setters ∧
      ∀ v, (MVal.uint v).type_ = "unsigned int" ∧ getUnsignedIntValueGen (.uint v) = .ok v) ∧
    (("long int", "longIntValue_", "long") ∈ setters ∧
      ∀ v, (MVal.long v).type_ = "long int" ∧ getLongIntValueGen (.long v) = .ok v) ∧
    (("unsigned long int", "unsignedLongIntValue_", "unsigned long") ∈ setters ∧
      ∀ v, (MVal.ulong v).type_ = "unsigned long int" ∧ getUnsignedLongIntValueGen (.ulong v) = .ok v) ∧
    (("long long int", "longLongIntValue_", "long long") ∈ setters ∧
      ∀ v, (MVal.llong v).type_ = "long long int" ∧ getLongLongIntValueGen (.llong v) = .ok v) ∧
    (("unsigned long long int", "unsignedLongLongIntValue_", "unsigned long long") ∈ setters ∧
      ∀ v, (MVal.ullong v).type_ = "unsigned long long int" ∧ getUnsignedLongLongIntValueGen (.ullong v) = .ok v) ∧
    (("double", "doubleValue_value", "double") ∈ setters ∧ ("double", "doubleValue_tolerance", "double") ∈ setters ∧
      ∀ v t, (MVal.dbl v t).type_ = "double" ∧ getDoubleValueGen (.dbl v t) = .ok v ∧ getDoubleToleranceGen (.dbl v t) = .ok t) ∧
    (("const char*", "stringValue_", "const char *") ∈ setters ∧
      ∀ s, (MVal.str s).type_ = "const char*" ∧ getStringValueGen (.str s) = .ok s) ∧
    (("void*", "pointerValue_", "void *") ∈ setters ∧
      ∀ a, (MVal.ptr a).type_ = "void*" ∧ getPointerValueGen (.ptr a) = .ok a) ∧
    (("const void*", "constPointerValue_", "const void *") ∈ setters ∧
      ∀ a, (MVal.cptr a).type_ = "const void*" ∧ getConstPointerValueGen (.cptr a) = .ok a) ∧
    (("void (*)()", "functionPointerValue_", "void (*)()") ∈ setters ∧
      ∀ a, (MVal.fptr a).type_ = "void (*)()" ∧ getFunctionPointerValueGen (.fptr a) = .ok a) ∧
    (("const unsigned char*", "memoryBufferValue_", "const unsigned char *") ∈ setters ∧
      ∀ b, (MVal.mem b).type_ = "const unsigned char*" ∧ getMemoryBufferGen (.mem b) = .ok b ∧
        getSizeGen (.mem b) = .ok (BitVec.ofNat 64 b.length)) := by
  refine ⟨⟨by decide, ?_⟩, ⟨by decide, ?_⟩, ⟨by decide, ?_⟩, ⟨by decide, ?_⟩, ⟨by decide, ?_⟩, ⟨by decide, ?_⟩, ⟨by decide, ?_⟩,
    ⟨by decide, by decide, ?_⟩, ⟨by decide, ?_⟩, ⟨by decide, ?_⟩, ⟨by decide, ?_⟩, ⟨by decide, ?_⟩, ⟨by decide, ?_⟩⟩ <;>
  intros <;>
  simp [MVal.type_, getBoolValueGen, getIntValueGen, getUnsignedIntValueGen, getLongIntValueGen, getUnsignedLongIntValueGen,
    getLongLongIntValueGen, getUnsignedLongLongIntValueGen, getDoubleValueGen, getDoubleToleranceGen, getStringValueGen,
    getPointerValueGen, getConstPointerValueGen, getFunctionPointerValueGen, getMemoryBufferGen, getSizeGen,
    MVal.boolValue_, MVal.longIntValue_, MVal.intValue_, MVal.unsignedIntValue_, MVal.unsignedLongIntValue_,
    MVal.longLongIntValue_, MVal.unsignedLongLongIntValue_, MVal.doubleValue_value, MVal.doubleValue_tolerance,
    MVal.stringValue_, MVal.pointerValue_, MVal.constPointerValue_, MVal.functionPointerValue_, MVal.memoryBufferValue_,
    MVal.size_]

/-- object values: the type name given, the pointer given, through either object getter -/
theorem stored_object_roundtrip (ty : String) (a : Nat) (c : Option (Nat → Nat → Bool)) :
    (MVal.obj ty a c).type_ = ty ∧ getObjectPointerGen (.obj ty a c) = .ok a ∧
    getConstObjectPointerGen (.obj ty a c) = .ok a := by
  simp [MVal.type_, getObjectPointerGen, getConstObjectPointerGen, MVal.objectPointerValue_, MVal.constObjectPointerValue_]

/-- `setObjectPointer` / `setConstObjectPointer`: type and pointer as given; the comparator is the one the default
    repository has for the type at that moment, none without a default repository -/
theorem setObjectPointer_stores (repo : Option Repo) (sem : Nat → Nat → Nat → Bool) (ty : String) (p : Nat) :
    (setObjectPointer repo sem ty p).type_ = ty ∧
    getObjectPointerGen (setObjectPointer repo sem ty p) = .ok p ∧
    (setObjectPointer repo sem ty p).comparator_ = (match repo with
      | none => none
      | some r => (r.getComparatorForType ty).map sem) := by
  cases repo <;>
    simp [setObjectPointer, lookupForType, MVal.type_, getObjectPointerGen, MVal.objectPointerValue_, MVal.comparator_]

/-- a typed getter of a non-integer type succeeds on values of exactly its own type (`getConstPointerValue`,
    which reads `pointerValue_`, still returns the stored `const void*`) -/
theorem typed_getter_own_type_only (v : MVal) (hw : v.WF) :
    (∀ b, getBoolValueGen v = .ok b → v = .bool b) ∧
    (∀ s, getStringValueGen v = .ok s → v = .str s) ∧
    (∀ a, getPointerValueGen v = .ok a → v = .ptr a) ∧
    (∀ a, getConstPointerValueGen v = .ok a → v = .cptr a) ∧
    (∀ a, getFunctionPointerValueGen v = .ok a → v = .fptr a) ∧
    (∀ b, getMemoryBufferGen v = .ok b → v = .mem b) := by
  cases v
  case obj ty a c =>
    have e := obj_type_beq_false ty a c hw
    simp only [getBoolValueGen, getStringValueGen, getPointerValueGen, getConstPointerValueGen, getFunctionPointerValueGen,
      getMemoryBufferGen, e "bool" (by decide), e "const char*" (by decide), e "void*" (by decide),
      e "const void*" (by decide), e "void (*)()" (by decide), e "const unsigned char*" (by decide),
      Bool.false_eq_true, if_false, reduceCtorEq, false_implies, implies_true, and_self]
  all_goals
    simp [getBoolValueGen, getStringValueGen, getPointerValueGen, getConstPointerValueGen, getFunctionPointerValueGen,
      getMemoryBufferGen, MVal.type_, MVal.boolValue_, MVal.stringValue_, MVal.pointerValue_, MVal.constPointerValue_,
      MVal.functionPointerValue_, MVal.memoryBufferValue_]
  all_goals (intros; simp_all)

/-! ## compatibleForCopying -/

theorem compatibleForCopying_iff (a b : MVal) :
    compatibleForCopyingGen a b = true ↔ a.type_ = b.type_ ∨ (a.type_ = "const void*" ∧ b.type_ = "void*") := by
  unfold compatibleForCopyingGen
  by_cases h : a.type_ = b.type_
  · simp [h]
  · by_cases h2 : a.type_ = "const void*" ∧ b.type_ = "void*"
    · simp [h, h2.1, h2.2]
    · simp only [beq_iff_eq, h, if_false, Bool.and_eq_true, h2, false_or]; simp

/-- a `void*` may be copied into a `const void*` slot, not the other way round -/
theorem compatibleForCopying_cptr_ptr (x y : Nat) :
    compatibleForCopyingGen (.cptr x) (.ptr y) = true ∧ compatibleForCopyingGen (.ptr x) (.cptr y) = false := by
  simp [compatibleForCopyingGen, MVal.type_]

/-! ## toString: the text shown in failure messages -/

/-- integers: decimal of the denoted integer, a blank, the hexadecimal two's-complement pattern at the type's own
    width in brackets (`-1` as `int` is `-1 (0xffffffff)`, as `long` `-1 (0xffffffffffffffff)`) -/
theorem toString_integer (env : Env) (v : MVal) (hv : v.isInt = true) :
    ∃ d, denote? v = some d ∧ toStringGen env v = integerText d v.width := by
  cases v <;> simp [MVal.isInt] at hv <;> rename_i x <;> refine ⟨_, rfl, ?_⟩ <;>
    simp [toStringGen, MVal.type_, MVal.width, integerText, MVal.longIntValue_, MVal.intValue_, MVal.unsignedIntValue_,
      MVal.unsignedLongIntValue_, MVal.longLongIntValue_, MVal.unsignedLongLongIntValue_,
      StringFrom_int, StringFrom_uint, StringFrom_long, StringFrom_ulong, StringFrom_llong, StringFrom_ullong,
      BracketsFormattedHexStringFrom_int, BracketsFormattedHexStringFrom_uint, BracketsFormattedHexStringFrom_long,
      BracketsFormattedHexStringFrom_ulong, BracketsFormattedHexStringFrom_llong, BracketsFormattedHexStringFrom_ullong,
      bracketsHex, decInt_ofNat] <;>
    congr 1 <;>
    first
      | exact toNat_eq_toInt_emod32 x
      | exact toNat_eq_toInt_emod64 x
      | (have := x.isLt; omega)

theorem toString_bool (env : Env) (b : Bool) :
    toStringGen env (.bool b) = ascii (if b then "true" else "false") := by
  cases b <;> simp [toStringGen, MVal.type_, MVal.boolValue_, StringFrom_bool]

/-- strings are shown as they are (NULL as the empty string) -/
theorem toString_str (env : Env) (s : Option Bytes) : toStringGen env (.str s) = cstrContent s := by
  cases s <;> simp [toStringGen, MVal.type_, MVal.stringValue_, simpleStringOfCStr, cstrContent]

/-- memory buffers of at most 128 bytes: `Size = n | HexContents = ` and the blank-separated upper-case hex bytes -/
theorem toString_mem_small (env : Env) (b : Bytes) (h : b.length ≤ 128) :
    toStringGen env (.mem b) =
      ascii "Size = " ++ decNat b.length ++ ascii " | HexContents = " ++
        List.intercalate [32] (b.map hex2U) := by
  have h1 : (BitVec.ofNat 64 b.length).toNat = b.length := by
    simp only [BitVec.toNat_ofNat]; exact Nat.mod_eq_of_lt (by omega)
  have h2 : ((BitVec.ofNat 64 b.length).setWidth 32).toNat = b.length := by
    simp only [BitVec.toNat_setWidth, h1]; exact Nat.mod_eq_of_lt (by omega)
  have h3 : ¬ (b.length > 128) := by omega
  have h4 : b.length % 4294967296 = b.length := Nat.mod_eq_of_lt (by omega)
  simp [toStringGen, MVal.type_, MVal.memoryBufferValue_, MVal.size_, StringFromBinaryWithSizeOrNull,
    StringFromBinaryWithSize, h1, h2, h3, h4, stringFromBinary_eq b b.length (Nat.le_refl _)]

/-- longer buffers: the first 128 bytes, then ` ...`; the size is shown modulo 2^32 (`(unsigned) size`) -/
theorem toString_mem_large (env : Env) (b : Bytes) (h : 128 < b.length) (hs : SizeOk b) :
    toStringGen env (.mem b) =
      ascii "Size = " ++ decNat (b.length % 4294967296) ++ ascii " | HexContents = " ++
        List.intercalate [32] ((b.take 128).map hex2U) ++ ascii " ..." := by
  have h1 : (BitVec.ofNat 64 b.length).toNat = b.length := toNat_ofNat64_length b hs
  have h2 : ((BitVec.ofNat 64 b.length).setWidth 32).toNat = b.length % 4294967296 := by
    simp only [BitVec.toNat_setWidth, h1]
  have h3 : b.length > 128 := h
  simp [toStringGen, MVal.type_, MVal.memoryBufferValue_, MVal.size_, StringFromBinaryWithSizeOrNull,
    StringFromBinaryWithSize, h1, h2, h3, stringFromBinary_eq b 128 (by omega)]

/-- doubles: the two special texts, otherwise libc's `%.6g` rendering (an input) -/
theorem toString_dbl (env : Env) (x : Float) (n : Bool) (t : D Float) :
    toStringGen env (.dbl .nan t) = ascii "Nan - Not a number" ∧
    toStringGen env (.dbl (.inf n) t) = ascii "Inf - Infinity" ∧
    toStringGen env (.dbl (.fin x) t) = env.g6 := by
  simp [toStringGen, MVal.type_, MVal.doubleValue_value, StringFrom_double]

/-- pointers of the three kinds: `0x` and the lower-case hexadecimal machine address -/
theorem toString_pointer (env : Env) (a : Nat) :
    toStringGen env (.ptr a) = ascii "0x" ++ hexNat (env.addrOf a) ∧
    toStringGen env (.cptr a) = ascii "0x" ++ hexNat (env.addrOf a) ∧
    toStringGen env (.fptr a) = ascii "0x" ++ hexNat (env.addrOf a) := by
  simp [toStringGen, MVal.type_, MVal.pointerValue_, MVal.constPointerValue_, MVal.functionPointerValue_,
    StringFrom_constVoidPtr, StringFrom_fnPtr]

/-- custom objects: the comparator's text, or the "No comparator found" message naming the type -/
theorem toString_obj (env : Env) (ty : String) (hty : ty ∉ builtinTypeNames) (a : Nat) (f : Nat → Nat → Bool) :
    toStringGen env (.obj ty a (some f)) = env.valueToString a ∧
    toStringGen env (.obj ty a none) =
      ascii "No comparator found for type: \"" ++ ascii ty ++ ascii "\"" := by
  simp [builtinTypeNames] at hty
  simp [toStringGen, MVal.type_, MVal.comparator_, MVal.constObjectPointerValue_, hty]

/-! ## names -/

/-- a fresh value has the given name and holds the `int` 0; `setName` replaces the name only (NULL = empty) -/
theorem name_roundtrip (n : Bytes) (m : Option Bytes) :
    (NamedValue.new n).getName = n ∧ (NamedValue.new n).val = .int 0 ∧
    ((NamedValue.new n).setName m).getName = cstrContent m ∧ ((NamedValue.new n).setName m).val = .int 0 := by
  cases m <;> simp [NamedValue.new, NamedValue.getName, NamedValue.setName, simpleStringOfCStr, cstrContent]

/-! ## MockNamedValueList: insertion order, the FIRST value of a name wins -/

theorem list_add_appends {α} (l : NList α) (x : Bytes × α) : l.add x = l ++ [x] := nlist_add_eq_append l x

/-- adding never changes the answer for a name that is already present: the first added value wins, a later one
    with the same name is unreachable through `getValueByName` -/
theorem list_first_added_wins {α} (l : NList α) (name : Bytes) (a : α) (x : Bytes × α)
    (h : l.getValueByName name = some a) : (l.add x).getValueByName name = some a := by
  rw [nlist_add_eq_append, nlist_get_append, h]

/-- … and for a name not yet present the new value is found exactly when its name compares equal -/
theorem list_add_new {α} (l : NList α) (name : Bytes) (x : Bytes × α) (h : l.getValueByName name = none) :
    (l.add x).getValueByName name = if simpleStringEq x.1 name then some x.2 else none := by
  rw [nlist_add_eq_append, nlist_get_append, h]
  simp [NList.getValueByName]

/-- the value found is the first one in insertion order whose name compares equal -/
theorem list_get_first_match {α} (l1 l2 : NList α) (n name : Bytes) (a : α)
    (h1 : ∀ y ∈ l1, simpleStringEq y.1 name = false) (h2 : simpleStringEq n name = true) :
    (l1 ++ (n, a) :: l2).getValueByName name = some a := by
  induction l1 with
  | nil => simp [NList.getValueByName, h2]
  | cons y t ih =>
    have hy := h1 y (by simp)
    simp only [List.cons_append, NList.getValueByName, hy]
    exact ih (fun z hz => h1 z (by simp [hz]))

theorem list_clear_empty {α} (l : NList α) (name : Bytes) : l.clear.getValueByName name = none := rfl

/-! ## the comparator / copier repository: the LATEST install of a name wins; importing reverses -/

theorem repo_install_comparator_shadows (r : Repo) (name : String) (c : Nat) :
    (r.installComparator name c).getComparatorForType name = some c := by
  simp [Repo.installComparator, Repo.getComparatorForType]

theorem repo_install_comparator_other (r : Repo) (name other : String) (c : Nat) (h : name ≠ other) :
    (r.installComparator name c).getComparatorForType other = r.getComparatorForType other ∧
    (r.installComparator name c).getCopierForType other = r.getCopierForType other := by
  simp [Repo.installComparator, Repo.getComparatorForType, Repo.getCopierForType, h]

/-- comparators and copiers of one name do not shadow each other -/
theorem repo_install_kinds_independent (r : Repo) (name q : String) (c : Nat) :
    (r.installCopier name c).getComparatorForType q = r.getComparatorForType q ∧
    (r.installComparator name c).getCopierForType q = r.getCopierForType q := by
  simp [Repo.installCopier, Repo.installComparator, Repo.getComparatorForType, Repo.getCopierForType]

theorem repo_install_copier_shadows (r : Repo) (name : String) (c : Nat) :
    (r.installCopier name c).getCopierForType name = some c := by
  simp [Repo.installCopier, Repo.getCopierForType]

/-- `installComparatorsAndCopiers(other)` pushes the nodes of `other` head first, i.e. in REVERSED order -/
theorem repo_import_reverses (r other : Repo) : r.installAll other = other.reverse ++ r := repo_installAll_eq r other

/-- after an import the imported entries shadow the own ones, and among the imported ones the lookup order is the
    reverse of `other`'s -/
theorem repo_import_lookup (r other : Repo) (name : String) :
    (r.installAll other).getComparatorForType name =
      (match Repo.getComparatorForType other.reverse name with
       | some c => some c
       | none => r.getComparatorForType name) ∧
    (r.installAll other).getCopierForType name =
      (match Repo.getCopierForType other.reverse name with
       | some c => some c
       | none => r.getCopierForType name) := by
  rw [repo_installAll_eq, repo_getComparator_append, repo_getCopier_append]; exact ⟨rfl, rfl⟩

/-- consequence (behaviour of the code as it is): a name installed twice answers with the later comparator in the
    original repository but with the EARLIER one in a repository that imported it -/
theorem repo_import_flips_shadowing (name : String) (c1 c2 : Nat) :
    Repo.getComparatorForType (Repo.installComparator (Repo.installComparator [] name c1) name c2) name = some c2 ∧
    Repo.getComparatorForType
      (Repo.installAll [] (Repo.installComparator (Repo.installComparator [] name c1) name c2)) name = some c1 := by
  simp [Repo.installComparator, Repo.getComparatorForType, Repo.installAll]

theorem repo_clear_empty (r : Repo) (name : String) :
    r.clear.getComparatorForType name = none ∧ r.clear.getCopierForType name = none := ⟨rfl, rfl⟩

/-! ## values entering through the API: every typed entry point creates a value of its own type

`entryKind` follows the REGENERATED wiring: C struct member ↦ initialiser ↦ forwarder body (callee, declared parameter
type; `Gen.CMock`, C19's translator) and the C++ `withParameter` overloads / explicit methods (`Gen.MockEquals`). -/

/-- all 36 entry points (expected / actual × C++ overload, explicit C++ method, C interface × six integer kinds)
    store a value of exactly the kind they are named for -/
theorem api_entry_kind :
    ∀ cls ∈ ["expected", "actual"], ∀ api ∈ ["ovl", "exp", "c"], ∀ k ∈ intKinds, entryKind cls api k = some k := by
  decide

theorem mkInt_isInt (k : String) (hk : k ∈ intKinds) (v : Int) : ∃ m, mkInt k v = some m ∧ m.isInt = true := by
  simp [intKinds] at hk
  rcases hk with h | h | h | h | h | h <;> subst h <;> simp [mkInt, MVal.isInt]

/-- in the range of its kind, the stored value denotes the integer that was passed -/
theorem mkInt_denote (k : String) (v : Int) :
    (k = "int" → -2147483648 ≤ v → v ≤ 2147483647 → (mkInt k v).bind denote? = some v) ∧
    (k = "uint" → 0 ≤ v → v ≤ 4294967295 → (mkInt k v).bind denote? = some v) ∧
    (k = "long" → -9223372036854775808 ≤ v → v ≤ 9223372036854775807 → (mkInt k v).bind denote? = some v) ∧
    (k = "ulong" → 0 ≤ v → v ≤ 18446744073709551615 → (mkInt k v).bind denote? = some v) ∧
    (k = "llong" → -9223372036854775808 ≤ v → v ≤ 9223372036854775807 → (mkInt k v).bind denote? = some v) ∧
    (k = "ullong" → 0 ≤ v → v ≤ 18446744073709551615 → (mkInt k v).bind denote? = some v) := by
  refine ⟨?_, ?_, ?_, ?_, ?_, ?_⟩ <;> intro hk h1 h2 <;> subst hk <;>
    simp [mkInt, denote?, BitVec.toInt_ofInt, BitVec.toNat_ofInt, Int.bmod_def] <;> omega

/-- in range for a kind -/
def InRange (k : String) (v : Int) : Prop :=
  (k = "int" ∧ -2147483648 ≤ v ∧ v ≤ 2147483647) ∨ (k = "uint" ∧ 0 ≤ v ∧ v ≤ 4294967295) ∨
  (k = "long" ∧ -9223372036854775808 ≤ v ∧ v ≤ 9223372036854775807) ∨ (k = "ulong" ∧ 0 ≤ v ∧ v ≤ 18446744073709551615) ∨
  (k = "llong" ∧ -9223372036854775808 ≤ v ∧ v ≤ 9223372036854775807) ∨ (k = "ullong" ∧ 0 ≤ v ∧ v ≤ 18446744073709551615)

theorem inRange_mem {k : String} {v : Int} (h : InRange k v) : k ∈ intKinds := by
  rcases h with h | h | h | h | h | h <;> simp [intKinds, h.1]

theorem inRange_denote {k : String} {v : Int} (h : InRange k v) : (mkInt k v).bind denote? = some v := by
  have d := mkInt_denote k v
  rcases h with h | h | h | h | h | h
  · exact d.1 h.1 h.2.1 h.2.2
  · exact d.2.1 h.1 h.2.1 h.2.2
  · exact d.2.2.1 h.1 h.2.1 h.2.2
  · exact d.2.2.2.1 h.1 h.2.1 h.2.2
  · exact d.2.2.2.2.1 h.1 h.2.1 h.2.2
  · exact d.2.2.2.2.2 h.1 h.2.1 h.2.2

/-- Whichever way the expected and the actual integer enter (any of the three entry points on either side, any two
    integer kinds): the expectation's `equals` accepts the actual value exactly when they are the same integer. -/
theorem api_equals_iff (ea aa ke ka : String) (hea : ea ∈ ["ovl", "exp", "c"]) (haa : aa ∈ ["ovl", "exp", "c"])
    (x y : Int) (hx : InRange ke x) (hy : InRange ka y) :
    ∃ e a, entryValue "expected" ea ke x = some e ∧ entryValue "actual" aa ka y = some a ∧
      (equalsGen e a = true ↔ x = y) := by
  have hke := inRange_mem hx
  have hka := inRange_mem hy
  have k1 := api_entry_kind "expected" (by simp) ea hea ke hke
  have k2 := api_entry_kind "actual" (by simp) aa haa ka hka
  obtain ⟨e, he, hie⟩ := mkInt_isInt ke hke x
  obtain ⟨a, ha, hia⟩ := mkInt_isInt ka hka y
  refine ⟨e, a, by simp [entryValue, k1, he], by simp [entryValue, k2, ha], ?_⟩
  have dx := inRange_denote hx
  have dy := inRange_denote hy
  rw [he] at dx; rw [ha] at dy
  simp only [Option.bind_some] at dx dy
  rw [equals_int_iff e a hie hia, dx, dy]
  exact ⟨fun h => Option.some.inj h, fun h => by rw [h]⟩

/-! ## return values read back: every integer reader at every level ends in its own getter

`retReaders` is regenerated from MockActualCall.cpp / MockSupport.cpp (plain readers: `return returnValue().getX();`,
`…OrDefault`: the default exactly when `hasReturnValue()` is false, otherwise the plain reader). -/

/-- every reader is wired to the getter of its own return type, every `…OrDefault` to its own plain reader -/
theorem ret_readers_as_required : retReaders = requiredRetReaders := by decide

/-- … so every one of the 24 readers is of the modelled shape (no conversion between getter and reader) -/
theorem ret_readers_total : ∀ row ∈ retReaders, (readerPlan row.1 row.2.1).isSome = true := by decide

theorem getterRun_exact (g : String) (v : MVal) (hw : v.WF) (n : Int) (h : getterRun g v = .ok n) :
    denote? v = some n := by
  unfold getterRun at h
  split at h
  · cases hr : getIntValueGen v with
    | error e => simp [hr, mapInt] at h
    | ok x => simp [hr, mapInt] at h; rw [← h]; exact getIntValue_exact v hw x hr
  split at h
  · cases hr : getUnsignedIntValueGen v with
    | error e => simp [hr, mapInt] at h
    | ok x => simp [hr, mapInt] at h; rw [← h]; exact getUnsignedIntValue_exact v hw x hr
  split at h
  · cases hr : getLongIntValueGen v with
    | error e => simp [hr, mapInt] at h
    | ok x => simp [hr, mapInt] at h; rw [← h]; exact getLongIntValue_exact v hw x hr
  split at h
  · cases hr : getUnsignedLongIntValueGen v with
    | error e => simp [hr, mapInt] at h
    | ok x => simp [hr, mapInt] at h; rw [← h]; exact getUnsignedLongIntValue_exact v hw x hr
  split at h
  · cases hr : getLongLongIntValueGen v with
    | error e => simp [hr, mapInt] at h
    | ok x => simp [hr, mapInt] at h; rw [← h]; exact getLongLongIntValue_exact v hw x hr
  split at h
  · cases hr : getUnsignedLongLongIntValueGen v with
    | error e => simp [hr, mapInt] at h
    | ok x => simp [hr, mapInt] at h; rw [← h]; exact getUnsignedLongLongIntValue_exact v hw x hr
  · simp at h

/-- Whatever integer return value the expectation stored, a reader of any level and form returns exactly that integer
    or fails the test — never a different number. -/
theorem reader_exact_or_fail (level reader : String) (v : MVal) (hw : v.WF) (d n : Int)
    (h : readerResult level reader (some v) d = some (.ok n)) : denote? v = some n := by
  unfold readerResult at h
  cases hp : readerPlan level reader with
  | none => simp [hp] at h
  | some plan =>
    obtain ⟨od, g⟩ := plan
    cases od <;> simp [hp] at h <;> exact getterRun_exact g v hw n h

/-- an `…OrDefault` reader returns the default when no return value was set -/
theorem reader_default (level reader g : String) (d : Int) (hp : readerPlan level reader = some (true, g)) :
    readerResult level reader none d = some (.ok d) := by
  simp [readerResult, hp]

/-- the twelve `…OrDefault` readers are the default-returning form, the twelve others are not -/
theorem reader_forms :
    ∀ row ∈ retReaders, (readerPlan row.1 row.2.1).map (·.1) = some (row.2.2.2.1 == "orDefault") := by decide

/-! ## the whole of `equals` at once, and symmetry for ALL ordered type pairs

`specEq` (Spec/MockValue.lean) is the property written as one function of the two values.  `equals_eq_spec` says that the
REGENERATED `equalsGen` is that function on every pair of valid values — all 14 x 14 ordered pairs of value types, all
payloads.  Symmetry then holds for every pair with exactly two exceptions, both stated with a witness: two doubles
(the LEFT operand's tolerance decides) and two objects (the LEFT operand's comparator decides). -/

/-- validity implies the well-formedness the single-type theorems ask for -/
theorem valid_wf {a : MVal} (h : a.Valid) : a.WF := by
  cases a <;> first | exact h | trivial

/-- two objects of one custom type: the left operand's comparator, none = not equal -/
theorem obj_same_type_spec (ty : String) (hty : ty ∉ builtinTypeNames) (x y : Nat) (c c' : Option (Nat → Nat → Bool)) :
    equalsGen (.obj ty x c) (.obj ty y c') = specEq (.obj ty x c) (.obj ty y c') := by
  cases c with
  | none => rw [obj_no_comparator_false ty hty]; simp [specEq]
  | some f => rw [obj_eq_comparator ty hty]; simp [specEq]

/-- The whole of `equals`, every ordered pair of value types at once. -/
theorem equals_eq_spec (a b : MVal) (ha : a.Valid) (hb : b.Valid) : equalsGen a b = specEq a b := by
  have hwa := valid_wf ha
  have hwb := valid_wf hb
  by_cases hi : a.isInt = true ∧ b.isInt = true
  · rw [Bool.eq_iff_iff, equals_int_iff a b hi.1 hi.2]
    cases a <;> cases b <;> simp [MVal.isInt] at hi <;> simp [specEq, denote?]
  · by_cases ht : a.type_ = b.type_
    · cases a <;> cases b <;> simp [MVal.type_, MVal.isInt, MVal.WF, builtinTypeNames] at ht hi hwa hwb <;>
        (try (exfalso; simp_all; done))
      all_goals first
        | (rw [Bool.eq_iff_iff, equals_bool_iff]; simp [specEq])
        | (rw [dbl_eq_uses_left_tolerance]; rfl)
        | (rw [Bool.eq_iff_iff, str_eq_iff_content _ _ ha hb]; simp [specEq])
        | (rw [Bool.eq_iff_iff, equals_ptr_iff]; simp [specEq])
        | (rw [Bool.eq_iff_iff, equals_cptr_iff]; simp [specEq])
        | (rw [Bool.eq_iff_iff, equals_fptr_iff]; simp [specEq])
        | (rw [Bool.eq_iff_iff, mem_eq_iff_len_and_content _ _ ha hb]; simp [specEq])
        | (subst ht; exact obj_same_type_spec _ ha _ _ _ _)
    · rw [equals_other_type_false a b hwa hwb ht hi]
      cases a <;> cases b <;> simp [MVal.type_, MVal.isInt] at ht hi <;> simp [specEq, denote?, *]


/-- the property function is symmetric outside the two documented classes -/
theorem specEq_symm (a b : MVal) (hd : ¬ (a.isDbl = true ∧ b.isDbl = true)) (ho : ¬ (a.isObj = true ∧ b.isObj = true)) :
    specEq a b = specEq b a := by
  cases a <;> cases b <;> simp [MVal.isDbl, MVal.isObj] at hd ho <;>
    simp [specEq, denote?, Bool.beq_comm] <;>
    (try (rw [Bool.eq_iff_iff]; simp; constructor <;> intro h <;> simp [h, eq_comm]))

/-- SYMMETRY FOR ALL TYPE PAIRS: `a.equals(b) = b.equals(a)` for every pair of valid values unless both are doubles or both
    are objects (all 36 integer pairs, bool, strings, buffers, the three pointer types, and every mixed pair) -/
theorem equals_symm_all (a b : MVal) (ha : a.Valid) (hb : b.Valid)
    (hd : ¬ (a.isDbl = true ∧ b.isDbl = true)) (ho : ¬ (a.isObj = true ∧ b.isObj = true)) :
    equalsGen a b = equalsGen b a := by
  rw [equals_eq_spec a b ha hb, equals_eq_spec b a hb ha, specEq_symm a b hd ho]

/-- class logic of `doubles_equal` is symmetric in the two values whenever the finite comparison is -/
theorem doublesEqual_symm {F} (c : F → F → F → Bool) (hc : ∀ x y t, c x y t = c y x t) (v w t : D F) :
    doublesEqual c v w t = doublesEqual c w v t := by
  cases v <;> cases w <;> cases t <;> simp [doublesEqual, Bool.beq_comm] <;> exact hc _ _ _

/-- doubles ARE symmetric when both carry the same tolerance (hypothesis: `fabs(x-y) <= t` is symmetric in x, y — IEEE) -/
theorem dbl_symm_same_tolerance (hc : ∀ x y t, floatClose x y t = floatClose y x t) (v w t : D Float) :
    equalsGen (.dbl v t) (.dbl w t) = equalsGen (.dbl w t) (.dbl v t) := by
  rw [dbl_eq_uses_left_tolerance, dbl_eq_uses_left_tolerance]; exact doublesEqual_symm _ hc _ _ _

/-- … and are NOT in general: +inf with tolerance +inf accepts 0, 0 with tolerance 0 does not accept +inf -/
theorem dbl_not_symm_witness :
    equalsGen (.dbl (.inf false) (.inf false)) (.dbl (.fin 0) (.fin 0)) = true ∧
    equalsGen (.dbl (.fin 0) (.fin 0)) (.dbl (.inf false) (.inf false)) = false := by
  rw [dbl_eq_uses_left_tolerance, dbl_eq_uses_left_tolerance]; exact ⟨rfl, rfl⟩

/-- objects are symmetric when both sides carry the same symmetric comparator -/
theorem obj_symm_same_comparator (ty : String) (hty : ty ∉ builtinTypeNames) (f : Nat → Nat → Bool)
    (hf : ∀ x y, f x y = f y x) (x y : Nat) :
    equalsGen (.obj ty x (some f)) (.obj ty y (some f)) = equalsGen (.obj ty y (some f)) (.obj ty x (some f)) := by
  rw [obj_eq_comparator ty hty, obj_eq_comparator ty hty, hf]

/-- … and are NOT when only one side has a comparator -/
theorem obj_not_symm_witness :
    equalsGen (.obj "T" 1 (some fun _ _ => true)) (.obj "T" 1 none) = true ∧
    equalsGen (.obj "T" 1 none) (.obj "T" 1 (some fun _ _ => true)) = false := by
  have h : "T" ∉ builtinTypeNames := by decide
  rw [obj_eq_comparator "T" h, obj_no_comparator_false "T" h]; exact ⟨rfl, rfl⟩

/-- every valid value other than a double or an object equals itself -/
theorem equals_refl_all (a : MVal) (ha : a.Valid) (hd : a.isDbl = false) (ho : a.isObj = false) : equalsGen a a = true := by
  rw [equals_eq_spec a a ha ha]
  cases a <;> simp [MVal.isDbl, MVal.isObj] at hd ho <;> simp [specEq, denote?]

/-- the two double getters succeed on double values only and return what was stored -/
theorem typed_getter_dbl_own_type_only (v : MVal) (hw : v.WF) :
    (∀ d, getDoubleValueGen v = .ok d → ∃ t, v = .dbl d t) ∧
    (∀ t, getDoubleToleranceGen v = .ok t → ∃ d, v = .dbl d t) := by
  cases v
  case obj ty a c =>
    have e := obj_type_beq_false ty a c hw
    simp only [getDoubleValueGen, getDoubleToleranceGen, e "double" (by decide),
      Bool.false_eq_true, if_false, reduceCtorEq, false_implies, implies_true, and_self]
  all_goals
    simp [getDoubleValueGen, getDoubleToleranceGen, MVal.type_, MVal.doubleValue_value, MVal.doubleValue_tolerance]

/-- the REGENERATED default tolerance of `setValue(double)` is the documented 0.005 -/
theorem default_tolerance_value : defaultDoubleTolerance = 0.005 := rfl

example : (MVal.str (some [97])).Valid ∧ (MVal.mem [1,2]).Valid ∧ (MVal.obj "T" 1 none).Valid := by
  refine ⟨?_, ?_, ?_⟩
  · intro c hc; simp [cstrContent] at hc; subst hc; decide
  · unfold MVal.Valid SizeOk; decide
  · unfold MVal.Valid; decide

/-! ## every parameter kind through every typed entry point (the whole scenario: expectation, actual call, `hasInputParameter`)

`Gen.MockEquals.cppOverloadsX / cppExplicitX / hasInputParameterGen` are REGENERATED from MockExpectedCall.h/.cpp and
MockActualCall.h/.cpp, the C side is followed through C19's regenerated `Gen.CMock` (struct member ↦ initialiser ↦ forwarder:
callee, argument order, `(value != 0)` for bool, the function-pointer cast). -/

/-- the only call site of `equals` (REGENERATED `hasInputParameter`): the expectation's own parameter is the LEFT operand, the
    actual parameter the right one; without an expected parameter of that name the answer is `ignoreOtherParameters_` -/
theorem hasInputParameter_expectation_left (e a : MVal) (ig : Bool) :
    hasInputParameterGen (some e) a ig = equalsGen e a ∧ hasInputParameterGen none a ig = ig := ⟨rfl, rfl⟩

/-- every non-integer `withParameter` overload forwards to the explicit method of its own kind, arguments in order -/
theorem apix_overloads_as_required : cppOverloadsX = requiredOverloadsX := rfl

/-- every explicit method stores its argument(s) with the one setter call of its kind -/
theorem apix_explicit_as_required : cppExplicitX = requiredExplicitX := rfl

/-- C++ entry points (overload or explicit method, either side): the value created holds exactly the argument, of the
    argument's own type; a double gets the default tolerance -/
theorem apix_stored_cpp (cls api : String) (hcls : cls ∈ ["expected", "actual"]) (hapi : api ∈ ["ovl", "exp"]) :
    (∀ b, entryValueX cls api (.bool b) = some (.bool b)) ∧
    (∀ v, entryValueX cls api (.dbl v) = some (.dbl v defaultTol)) ∧
    (∀ s, entryValueX cls api (.str s) = some (.str s)) ∧
    (∀ x, entryValueX cls api (.ptr x) = some (.ptr x)) ∧
    (∀ x, entryValueX cls api (.cptr x) = some (.cptr x)) ∧
    (∀ x, entryValueX cls api (.fptr x) = some (.fptr x)) ∧
    (∀ b, entryValueX cls api (.mem b) = some (.mem b)) ∧
    (∀ n, entryValueX cls api (.cint n) = none) := by
  simp only [List.mem_cons, List.mem_nil_iff, or_false] at hcls hapi
  rcases hcls with h | h <;> subst h <;> rcases hapi with h | h <;> subst h <;>
    refine ⟨?_, ?_, ?_, ?_, ?_, ?_, ?_, ?_⟩ <;> intro _ <;> rfl

/-- C interface (either side): the same, a bool arrives as an `int` and is true exactly when that int is not 0 -/
theorem apix_stored_c (cls : String) (hcls : cls ∈ ["expected", "actual"]) :
    (∀ n, entryValueX cls "c" (.cint n) = some (.bool (n != 0))) ∧
    (∀ v, entryValueX cls "c" (.dbl v) = some (.dbl v defaultTol)) ∧
    (∀ s, entryValueX cls "c" (.str s) = some (.str s)) ∧
    (∀ x, entryValueX cls "c" (.ptr x) = some (.ptr x)) ∧
    (∀ x, entryValueX cls "c" (.cptr x) = some (.cptr x)) ∧
    (∀ x, entryValueX cls "c" (.fptr x) = some (.fptr x)) ∧
    (∀ b, entryValueX cls "c" (.mem b) = some (.mem b)) ∧
    (∀ b, entryValueX cls "c" (.bool b) = none) := by
  simp only [List.mem_cons, List.mem_nil_iff, or_false] at hcls
  rcases hcls with h | h <;> subst h <;>
    refine ⟨?_, ?_, ?_, ?_, ?_, ?_, ?_, ?_⟩ <;> intro _ <;> rfl

/-- a tolerance can be given on the expectation side only, through all three entry points, and is stored as given -/
theorem apix_tolerance_expected_only (api : String) (hapi : api ∈ ["ovl", "exp", "c"]) (v t : D Float) :
    entryValueX "expected" api (.dbl2 v t) = some (.dbl v t) ∧ entryValueX "actual" api (.dbl2 v t) = none := by
  simp only [List.mem_cons, List.mem_nil_iff, or_false] at hapi
  rcases hapi with h | h | h <;> subst h <;> exact ⟨rfl, rfl⟩

/-- every non-integer entry point creates a value that is not an integer value (and is well-formed) -/
theorem apix_value_nonint (cls api : String) (hcls : cls ∈ ["expected", "actual"]) (hapi : api ∈ ["ovl", "exp", "c"])
    (x : XArg) (m : MVal) (h : entryValueX cls api x = some m) : m.isInt = false ∧ m.WF := by
  have T := fun v t => apix_tolerance_expected_only api hapi v t
  simp only [List.mem_cons, List.mem_nil_iff, or_false] at hapi
  have hc : api = "c" ∨ api ∈ ["ovl", "exp"] := by rcases hapi with h | h | h <;> simp [h]
  rcases hc with hc | hc
  · subst hc
    have S := apix_stored_c cls hcls
    simp only [List.mem_cons, List.mem_nil_iff, or_false] at hcls
    cases x <;> first
      | (rw [S.1] at h; cases h; exact ⟨rfl, trivial⟩)
      | (rw [S.2.1] at h; cases h; exact ⟨rfl, trivial⟩)
      | (rw [S.2.2.1] at h; cases h; exact ⟨rfl, trivial⟩)
      | (rw [S.2.2.2.1] at h; cases h; exact ⟨rfl, trivial⟩)
      | (rw [S.2.2.2.2.1] at h; cases h; exact ⟨rfl, trivial⟩)
      | (rw [S.2.2.2.2.2.1] at h; cases h; exact ⟨rfl, trivial⟩)
      | (rw [S.2.2.2.2.2.2.1] at h; cases h; exact ⟨rfl, trivial⟩)
      | (rw [S.2.2.2.2.2.2.2] at h; cases h)
      | (rcases hcls with hh | hh <;> subst hh
         · rw [(T _ _).1] at h; cases h; exact ⟨rfl, trivial⟩
         · rw [(T _ _).2] at h; cases h)
  · have S := apix_stored_cpp cls api hcls hc
    simp only [List.mem_cons, List.mem_nil_iff, or_false] at hcls
    cases x <;> first
      | (rw [S.1] at h; cases h; exact ⟨rfl, trivial⟩)
      | (rw [S.2.1] at h; cases h; exact ⟨rfl, trivial⟩)
      | (rw [S.2.2.1] at h; cases h; exact ⟨rfl, trivial⟩)
      | (rw [S.2.2.2.1] at h; cases h; exact ⟨rfl, trivial⟩)
      | (rw [S.2.2.2.2.1] at h; cases h; exact ⟨rfl, trivial⟩)
      | (rw [S.2.2.2.2.2.1] at h; cases h; exact ⟨rfl, trivial⟩)
      | (rw [S.2.2.2.2.2.2.1] at h; cases h; exact ⟨rfl, trivial⟩)
      | (rw [S.2.2.2.2.2.2.2] at h; cases h)
      | (rcases hcls with hh | hh <;> subst hh
         · rw [(T _ _).1] at h; cases h; exact ⟨rfl, trivial⟩
         · rw [(T _ _).2] at h; cases h)

/-- Whatever entry points the expectation and the actual call use and whatever they pass: the expectation accepts the
    actual parameter exactly as the property's `specEq` says, with the EXPECTATION as the left operand. -/
theorem apix_equals_spec (ea aa : String) (x y : XArg) (e a : MVal) (ig : Bool)
    (_he : entryValueX "expected" ea x = some e) (_ha : entryValueX "actual" aa y = some a) (ve : e.Valid) (va : a.Valid) :
    hasInputParameterGen (some e) a ig = specEq e a := equals_eq_spec e a ve va

/-- doubles through the API: the tolerance given on the EXPECTATION decides, through any pair of entry points -/
theorem apix_double_expectation_tolerance (ea aa : String) (hea : ea ∈ ["ovl", "exp", "c"]) (haa : aa ∈ ["ovl", "exp", "c"])
    (v t w : D Float) (ig : Bool) :
    ∃ e a, entryValueX "expected" ea (.dbl2 v t) = some e ∧ entryValueX "actual" aa (.dbl w) = some a ∧
      hasInputParameterGen (some e) a ig = doublesEqual floatClose v w t := by
  refine ⟨.dbl v t, .dbl w defaultTol, (apix_tolerance_expected_only ea hea v t).1, ?_, ?_⟩
  · simp only [List.mem_cons, List.mem_nil_iff, or_false] at haa
    rcases haa with h | h | h <;> subst h <;> rfl
  · exact dbl_eq_uses_left_tolerance v t w defaultTol

/-- … and without one the default tolerance of the expectation's `setValue(double)` -/
theorem apix_double_default_tolerance (ea aa : String) (hea : ea ∈ ["ovl", "exp", "c"]) (haa : aa ∈ ["ovl", "exp", "c"])
    (v w : D Float) (ig : Bool) :
    ∃ e a, entryValueX "expected" ea (.dbl v) = some e ∧ entryValueX "actual" aa (.dbl w) = some a ∧
      hasInputParameterGen (some e) a ig = doublesEqual floatClose v w defaultTol := by
  refine ⟨.dbl v defaultTol, .dbl w defaultTol, ?_, ?_, ?_⟩
  · simp only [List.mem_cons, List.mem_nil_iff, or_false] at hea
    rcases hea with h | h | h <;> subst h <;> rfl
  · simp only [List.mem_cons, List.mem_nil_iff, or_false] at haa
    rcases haa with h | h | h <;> subst h <;> rfl
  · exact dbl_eq_uses_left_tolerance v defaultTol w defaultTol

/-- an integer parameter never matches a non-integer one, whichever side is the expectation and whichever entry points
    are used -/
theorem apix_int_vs_nonint_never_match (ci cx ai ax k : String)
    (hcx : cx ∈ ["expected", "actual"]) (hax : ax ∈ ["ovl", "exp", "c"]) (n : Int) (x : XArg) (i m : MVal)
    (hi : entryValue ci ai k n = some i) (hm : entryValueX cx ax x = some m) :
    equalsGen i m = false ∧ equalsGen m i = false := by
  have hmi := apix_value_nonint cx ax hcx hax x m hm
  have hii : i.isInt = true := by
    unfold entryValue at hi
    cases hk : entryKind ci ai k with
    | none => simp [hk] at hi
    | some k' =>
      simp only [hk, Option.bind_some] at hi
      unfold mkInt at hi
      repeat' split at hi
      all_goals first | (cases hi; rfl) | cases hi
  exact equals_int_nonint_false i m hmi.2 hii hmi.1

example : entryValueX "expected" "c" (.cint 256) = some (.bool true) ∧ entryValueX "actual" "c" (.cint 0) = some (.bool false) := ⟨rfl, rfl⟩
example : entryValueX "actual" "ovl" (.mem [1, 2]) = some (.mem [1, 2]) := rfl
example : entryValueX "expected" "exp" (.dbl2 (.fin 1) (.inf false)) = some (.dbl (.fin 1) (.inf false)) := rfl
example : entryValueX "actual" "exp" (.dbl2 (.fin 1) (.inf false)) = none := rfl

/-! ## one object written several times; the data store (`setData` … `getData`) as a whole-history refinement

`Cell` / `Store` are in Model/MockData.lean; which setter every `setData` overload and every C `set…Data` function reaches is
read from the REGENERATED `Gen.MockEquals.dataSetters` and C19's `Gen.CMock`. -/

/-- what `equals` and the getters see after a plain setter is what that setter stored: nothing of the object's past matters -/
theorem cell_plain_last_wins (sem : Nat → Nat → Nat → Bool) (c : Cell) (hist : List (Option Repo × SetOp)) (repo : Option Repo)
    (v : MVal) : (Cell.run sem c (hist ++ [(repo, .plain v)])).val = v := by
  induction hist generalizing c with
  | nil => rfl
  | cons h t ih => exact ih _

/-- … and after `setMemoryBuffer` the buffer and its size -/
theorem cell_mem_last_wins (sem : Nat → Nat → Nat → Bool) (c : Cell) (hist : List (Option Repo × SetOp)) (repo : Option Repo)
    (b : Bytes) : (Cell.run sem c (hist ++ [(repo, .mem b)])).val = .mem b ∧
      (Cell.run sem c (hist ++ [(repo, .mem b)])).size = b.length := by
  induction hist generalizing c with
  | nil => exact ⟨rfl, rfl⟩
  | cons h t ih => exact ih _

/-- an object setter with a default repository: exactly the value a fresh object would get (`setObjectPointer`) -/
theorem cell_object_with_repo (sem : Nat → Nat → Nat → Bool) (c : Cell) (hist : List (Option Repo × SetOp)) (r : Repo)
    (ty : String) (p : Nat) :
    (Cell.run sem c (hist ++ [(some r, .obj ty p)])).val = setObjectPointer (some r) sem ty p := by
  induction hist generalizing c with
  | nil => simp [Cell.run, Cell.apply, Cell.setObject, setObjectPointer, lookupForType]
  | cons h t ih => exact ih _

/-- behaviour of the code as it is: WITHOUT a default repository an object setter keeps the comparator of an earlier
    object setter — the value can compare equal through a comparator installed for ANOTHER type -/
theorem cell_object_without_repo_keeps_comparator (sem : Nat → Nat → Nat → Bool) (c : Cell) (ty : String) (p : Nat) :
    (c.setObject none sem ty p).val = .obj ty p (c.cmp.map sem) ∧ (c.setObject none sem ty p).cmp = c.cmp := ⟨rfl, rfl⟩

/-- `size_` survives every setter except `setMemoryBuffer` -/
theorem cell_size_sticky (repo : Option Repo) (sem : Nat → Nat → Nat → Bool) (c : Cell) (op : SetOp)
    (h : ∀ b, op ≠ .mem b) : (c.apply repo sem op).size = c.size := by
  cases op with
  | plain v => rfl
  | mem b => exact absurd rfl (h b)
  | obj ty p => cases repo <;> rfl

/-! ### the data store of `MockSupport` -/

/-- names are compared as C strings -/
theorem sseq_iff (a b : Bytes) (ha : NulFree a) (hb : NulFree b) : simpleStringEq a b = true ↔ a = b := by
  simp only [simpleStringEq, beq_iff_eq]; exact cmp_eq_zero_iff a b ha hb

/-- writes keep the store's names C strings -/
theorem store_update_namesOk (s : Store) (name : Bytes) (f : Cell → Cell) (hs : s.NamesOk) (hn : NulFree name) :
    (s.update name f).NamesOk := by
  induction s with
  | nil => intro x hx; simp [Store.update] at hx; subst hx; exact hn
  | cons h t ih =>
    obtain ⟨n, c⟩ := h
    have ht : Store.NamesOk t := fun x hx => hs x (by simp [hx])
    have hh : NulFree n := hs (n, c) (by simp)
    unfold Store.update
    split
    · intro x hx
      simp only [List.mem_cons] at hx
      rcases hx with hx | hx
      · subst hx; exact hh
      · exact ht x hx
    · intro x hx
      simp only [List.mem_cons] at hx
      rcases hx with hx | hx
      · subst hx; exact hh
      · exact ih ht x hx

/-- one write: the value of the written name becomes `f` of its old value (a fresh one if the name is new), every other
    name keeps its value -/
theorem store_get_update (s : Store) (name q : Bytes) (f : Cell → Cell) (hs : s.NamesOk) (hn : NulFree name) (hq : NulFree q) :
    (s.update name f).getData q = if name = q then f (s.getData q) else s.getData q := by
  induction s with
  | nil =>
    by_cases e : name = q
    · subst e; simp [Store.update, Store.getData, NList.getValueByName, (sseq_iff name name hn hn).mpr rfl]
    · have : simpleStringEq name q = false := by
        cases h : simpleStringEq name q
        · rfl
        · exact absurd ((sseq_iff name q hn hq).mp h) e
      simp [Store.update, Store.getData, NList.getValueByName, this, e]
  | cons h t ih =>
    obtain ⟨n, c⟩ := h
    have ht : Store.NamesOk t := fun x hx => hs x (by simp [hx])
    have hh : NulFree n := hs (n, c) (by simp)
    have ih := ih ht
    unfold Store.update
    by_cases e1 : simpleStringEq n name = true
    · have en : n = name := (sseq_iff n name hh hn).mp e1
      subst en
      simp only [e1, if_true]
      by_cases e : n = q
      · subst e; simp [Store.getData, NList.getValueByName, e1]
      · have e2 : simpleStringEq n q = false := by
          cases h : simpleStringEq n q
          · rfl
          · exact absurd ((sseq_iff n q hh hq).mp h) e
        simp [Store.getData, NList.getValueByName, e2, e]
    · have e1' : simpleStringEq n name = false := by simpa using e1
      simp only [e1', Bool.false_eq_true, if_false]
      by_cases e2 : simpleStringEq n q = true
      · have en : n = q := (sseq_iff n q hh hq).mp e2
        have ne : name ≠ q := by
          intro hh2; subst hh2; subst en; simp [e2] at e1'
        simp [Store.getData, NList.getValueByName, e2, ne]
      · have e2' : simpleStringEq n q = false := by simpa using e2
        simp only [Store.getData, NList.getValueByName, e2', Bool.false_eq_true, if_false] at ih ⊢
        exact ih

/-- WHOLE HISTORY: after any sequence of writes the store answers for every name exactly what "the writes to that name, in
    order, applied to a fresh value" gives — the linked list with in-place writes refines the map `lastWrites` -/
theorem store_run_refines (ops : List (Bytes × (Cell → Cell))) (s : Store) (q : Bytes) (hs : s.NamesOk)
    (hops : ∀ op ∈ ops, NulFree op.1) (hq : NulFree q) :
    (Store.run s ops).getData q = lastWrites q (s.getData q) ops := by
  induction ops generalizing s with
  | nil => rfl
  | cons op rest ih =>
    obtain ⟨n, f⟩ := op
    have hn : NulFree n := hops (n, f) (by simp)
    simp only [Store.run, lastWrites]
    rw [ih (s.update n f) (store_update_namesOk s n f hs hn) (fun o ho => hops o (by simp [ho])),
      store_get_update s n q f hs hn hq]

/-- writes to other names do not change what a name holds -/
theorem lastWrites_untouched (q : Bytes) (c : Cell) (ops : List (Bytes × (Cell → Cell))) (h : ∀ op ∈ ops, op.1 ≠ q) :
    lastWrites q c ops = c := by
  induction ops generalizing c with
  | nil => rfl
  | cons op rest ih =>
    have : op.1 ≠ q := h op (by simp)
    simp only [lastWrites, this, if_false]
    exact ih c (fun o ho => h o (by simp [ho]))

/-- histories compose -/
theorem lastWrites_append (q : Bytes) (c : Cell) (a b : List (Bytes × (Cell → Cell))) :
    lastWrites q c (a ++ b) = lastWrites q (lastWrites q c a) b := by
  induction a generalizing c with
  | nil => rfl
  | cons op rest ih => simp only [List.cons_append, lastWrites]; exact ih _

/-- END TO END: if the last write to `q` in a history stored the integer `v` (any integer kind the data API has, `v` in its
    range), then reading `q` back and asking ANY integer getter gives exactly `v` or fails the test — whatever was stored
    under that or other names before, and whatever was stored under other names afterwards. -/
theorem data_integer_read_back (pre post : List (Bytes × (Cell → Cell))) (q : Bytes) (k : String) (v : Int) (m : MVal)
    (hk : InRange k v) (hm : mkInt k v = some m)
    (hnames : ∀ op ∈ pre ++ (q, Cell.setPlain m) :: post, NulFree op.1) (hq : NulFree q)
    (hpost : ∀ op ∈ post, op.1 ≠ q) (g : String) (n : Int)
    (h : getterRun g ((Store.run [] (pre ++ (q, Cell.setPlain m) :: post)).getData q).val = .ok n) : n = v := by
  rw [store_run_refines _ [] q (fun x hx => by simp at hx) hnames hq, lastWrites_append] at h
  simp only [lastWrites, if_true] at h
  rw [lastWrites_untouched q _ post hpost] at h
  simp only [Cell.setPlain] at h
  have hw : m.WF := by
    obtain ⟨m', hm', hi⟩ := mkInt_isInt k (inRange_mem hk) v
    rw [hm] at hm'; cases hm'
    cases m <;> simp [MVal.isInt] at hi <;> trivial
  have d := getterRun_exact g m hw n h
  have d2 := inRange_denote hk
  rw [hm] at d2
  simp only [Option.bind_some] at d2
  rw [d] at d2
  exact Option.some.inj d2

/-- every `setData` overload / `setDataObject` / `setDataConstObject` makes exactly the setter call of its own kind on the value
    `retrieveDataFromStore(name)` returned -/
theorem data_setters_as_required : dataSetters = requiredDataSetters := rfl

/-- every entry of the data API (C++ and C) for an integer stores it as a value of its own kind, in place -/
theorem data_entry_int (repo : Option Repo) (sem : Nat → Nat → Nat → Bool) (api k : String) (hapi : api ∈ ["cpp", "c"])
    (hk : k ∈ ["int", "uint"]) (v : Int) :
    dataEntry repo sem api (.int k v) = (mkInt k v).map Cell.setPlain := by
  simp only [List.mem_cons, List.mem_nil_iff, or_false] at hapi hk
  rcases hapi with h | h <;> subst h <;> rcases hk with h | h <;> subst h <;> rfl

/-- … and for the other kinds: bool (C: any non-zero int), double with the default tolerance, string, pointers, objects -/
theorem data_entry_other (repo : Option Repo) (sem : Nat → Nat → Nat → Bool) :
    (∀ b, dataEntry repo sem "cpp" (.x (.bool b)) = some (Cell.setPlain (.bool b))) ∧
    (∀ n, dataEntry repo sem "c" (.x (.cint n)) = some (Cell.setPlain (.bool (n != 0)))) ∧
    (∀ api ∈ ["cpp", "c"],
      (∀ d, dataEntry repo sem api (.x (.dbl d)) = some (Cell.setPlain (.dbl d defaultTol))) ∧
      (∀ s, dataEntry repo sem api (.x (.str s)) = some (Cell.setPlain (.str s))) ∧
      (∀ a, dataEntry repo sem api (.x (.ptr a)) = some (Cell.setPlain (.ptr a))) ∧
      (∀ a, dataEntry repo sem api (.x (.cptr a)) = some (Cell.setPlain (.cptr a))) ∧
      (∀ a, dataEntry repo sem api (.x (.fptr a)) = some (Cell.setPlain (.fptr a))) ∧
      (∀ ty p, dataEntry repo sem api (.obj ty p) = some (Cell.setObject repo sem ty p)) ∧
      (∀ ty p, dataEntry repo sem api (.cobj ty p) = some (Cell.setObject repo sem ty p))) := by
  refine ⟨fun _ => rfl, fun _ => rfl, ?_⟩
  intro api hapi
  simp only [List.mem_cons, List.mem_nil_iff, or_false] at hapi
  rcases hapi with h | h <;> subst h <;> refine ⟨?_, ?_, ?_, ?_, ?_, ?_, ?_⟩ <;> intros <;> rfl

example : (Store.run [] [([97], Cell.setPlain (.int 5)), ([98], Cell.setPlain (.bool true)), ([97], Cell.setPlain (.uint 7))]).getData [97]
    = { val := .uint 7, size := 0, cmp := none, cop := none } := rfl
example : Store.NamesOk ([] : Store) := fun x hx => by simp at hx

/-! ## non-vacuity: concrete values on both sides of every boundary the theorems talk about -/

-- −1 as int, 2^32−1 as unsigned, 2^64−1 as unsigned long: same low bits, three different integers
example : equalsGen (.int (-1)) (.uint 4294967295#32) = false := by decide
example : equalsGen (.ulong 18446744073709551615#64) (.int (-1)) = false := by decide
example : equalsGen (.uint 4294967295#32) (.long 4294967295#64) = true := by decide
example : equalsGen (.llong (-1)) (.int (-1)) = true := by decide
example : denote? (.int (-1)) = some (-1) ∧ denote? (.uint 4294967295#32) = some 4294967295 := by decide
example : (MVal.int 5#32).isInt = true ∧ (MVal.ullong 5#64).isInt = true ∧ (MVal.bool true).isInt = false := by decide
-- hypotheses of `equals_other_type_false` are satisfiable, also with the same representation on both sides
example : (MVal.ptr 3).WF ∧ (MVal.cptr 3).WF ∧ (MVal.ptr 3).type_ ≠ (MVal.cptr 3).type_ ∧
    ¬ ((MVal.ptr 3).isInt = true ∧ (MVal.cptr 3).isInt = true) := by simp [MVal.WF, MVal.type_, MVal.isInt]
example : (MVal.obj "MyType" 1 none).WF := by simp [MVal.WF, builtinTypeNames]
-- strings / buffers
example : NulFree (cstrContent (some [97, 98])) ∧ NulFree (cstrContent none) := by
  constructor <;> intro c hc <;> simp [cstrContent] at hc <;> rcases hc with h | h <;> subst h <;> decide
example : equalsGen (.str none) (.str (some [])) = true := by decide
example : equalsGen (.str (some [97])) (.str (some [97, 98])) = false := by decide
example : SizeOk [1, 2, 3] := by unfold SizeOk; decide
example : equalsGen (.mem [1, 2]) (.mem [1, 2, 0]) = false ∧ equalsGen (.mem []) (.mem []) = true := by decide
-- doubles: class logic with any finite comparison
example : doublesEqual (fun (_ _ _ : Nat) => true) (.fin 1) (.nan) (.fin 1) = false := rfl
example : doublesEqual (fun (x y t : Nat) => x - y ≤ t) (.fin 5) (.fin 3) (.fin 2) = true := by decide
example : doublesEqual (fun (_ _ _ : Nat) => true) (.inf false) (.inf true) (.fin 1) = false := rfl
example : doublesEqual (fun (_ _ _ : Nat) => false) (.inf false) (.inf true) (.inf false) = true := rfl
-- getters: one success and one failure each way
example : getLongLongIntValueGen (.ulong 9223372036854775808#64) = .error (.typeMismatch "long long int") := rfl
example : getLongLongIntValueGen (.ulong 9223372036854775807#64) = .ok 9223372036854775807#64 := rfl
example : getUnsignedIntValueGen (.int (-1)) = .error (.typeMismatch "unsigned int") := rfl
example : getLongIntValueGen (.uint 4294967295#32) = .ok 4294967295#64 := rfl

-- the rest of MockNamedValue
example : toStringGen ⟨[], id, fun _ => []⟩ (.int (-1)) = ascii "-1 (0xffffffff)" := by decide
example : toStringGen ⟨[], id, fun _ => []⟩ (.long (-1)) = ascii "-1 (0xffffffffffffffff)" := by decide
example : toStringGen ⟨[], id, fun _ => []⟩ (.uint 255#32) = ascii "255 (0xff)" := by decide
example : toStringGen ⟨[], id, fun _ => []⟩ (.mem [0, 255, 16]) = ascii "Size = 3 | HexContents = 00 FF 10" := by decide
example : toStringGen ⟨[], id, fun _ => []⟩ (.mem []) = ascii "Size = 0 | HexContents = " := by decide
example : toStringGen ⟨[], id, fun _ => []⟩ (.ptr 255) = ascii "0xff" := by decide
example : integerText (-1) 32 = ascii "-1 (0xffffffff)" := by decide
example : compatibleForCopyingGen (.cptr 1) (.ptr 2) = true ∧ compatibleForCopyingGen (.int 1#32) (.uint 1#32) = false := by decide
example : NList.getValueByName (NList.add (NList.add [] ([97], 1)) ([97], 2)) [97] = some 1 := by decide
example : NList.getValueByName (NList.add (NList.add [] ([97], 1)) ([98], 2)) [98] = some 2 := by decide
example : Repo.getComparatorForType (Repo.installCopier (Repo.installComparator [] "T" 3) "T" 1) "T" = some 3 := by decide
example : (setObjectPointer none (fun _ _ _ => true) "T" 5).comparator_.isNone = true := rfl

-- API entry points
example : entryValue "actual" "c" "ullong" 18446744073709551615 = some (.ullong 18446744073709551615#64) := rfl
example : InRange "ullong" 18446744073709551615 ∧ InRange "llong" (-1) := by simp [InRange]

-- return-value readers
example : readerResult "support" "returnUnsignedIntValueOrDefault" (some (.ulong 4294967296#64)) 7 =
    some (.error (.typeMismatch "unsigned int")) := rfl
example : readerResult "support" "returnUnsignedIntValueOrDefault" none 7 = some (.ok 7) := rfl
example : readerResult "call" "returnLongLongIntValue" (some (.int (-1))) 7 = some (.ok (-1)) := rfl

end Mock
