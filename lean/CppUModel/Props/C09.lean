import CppUModel.Gen.MockEquals
import CppUModel.Proofs.MockValue
/-!
# C09 — mock parameter values compare by mathematical value, symmetrically

Property theorems only.  `equalsGen` and the six `get…Gen` functions are REGENERATED from the current
`src/CppUTestExt/MockNamedValue.cpp` (clang AST → Lean, `translate/cxx2lean_c09.py`) before this file
is compiled, so every theorem below is about the code as it is now; the callee models
(`simpleStringEq`, `MemCmpSz`, `doubles_equal`, `comparatorIsEqual`) and the value type are in
`Model/MockValue.lean`, the vocabulary (`denote?`, `isInt`, `WF`) in `Spec/MockValue.lean`.
All quantifiers range over every bit pattern / byte string; proofs by toInt/toNat lemmas and omega.
-/
namespace Mock
open Gen.MockEquals

set_option maxRecDepth 4000

/-- the table (type name, union member, C type) extracted from the `setValue` overloads is the one
    the value type `MVal` and its readers were written for -/
theorem setters_as_modelled : Gen.MockEquals.setters = modelledSetters := by decide

/-! ## integers: 36 ordered type pairs, all values -/

/-- Two integer values of any two of the six integer types compare equal exactly when they denote
    the same mathematical integer. -/
theorem equals_int_iff (a b : MVal) (ha : a.isInt = true) (hb : b.isInt = true) :
    equalsGen a b = true ↔ denote? a = denote? b := by
  cases a <;> cases b <;> simp [MVal.isInt] at ha hb <;> rename_i x y <;>
    (first | have hx := toInt_cases32 x | have hx := toInt_cases64 x) <;>
    (first | have hy := toInt_cases32 y | have hy := toInt_cases64 y) <;>
    simp [equalsGen, MVal.type_, MVal.longIntValue_, MVal.intValue_, MVal.unsignedIntValue_, MVal.unsignedLongIntValue_,
      MVal.longLongIntValue_, MVal.unsignedLongLongIntValue_, denote?, ← BitVec.toInt_inj, BitVec.sle_iff_toInt_le,
      toInt_zext_32_64, toInt_sext_32_64, -BitVec.toInt_setWidth] <;> omega

/-- The answer does not depend on which side is the expectation. -/
theorem equals_int_symm (a b : MVal) (ha : a.isInt = true) (hb : b.isInt = true) :
    equalsGen a b = equalsGen b a := by
  rw [Bool.eq_iff_iff, equals_int_iff a b ha hb, equals_int_iff b a hb ha]
  exact eq_comm

/-- An integer value is equal to itself through every type that can hold it, and only then
    (reflexivity as a corollary). -/
theorem equals_int_refl (a : MVal) (ha : a.isInt = true) : equalsGen a a = true :=
  (equals_int_iff a a ha ha).mpr rfl

/-! ## different types never compare equal (integer vs non-integer, or two different non-integer types) -/

theorem equals_other_type_false (a b : MVal) (hwa : a.WF) (hwb : b.WF) (ht : a.type_ ≠ b.type_)
    (hni : ¬ (a.isInt = true ∧ b.isInt = true)) : equalsGen a b = false := by
  cases a <;> cases b <;>
    simp [MVal.WF, builtinTypeNames, MVal.isInt, MVal.type_] at hwa hwb ht hni <;>
    simp [equalsGen, MVal.type_, *] <;>
    (try simp [ht, Ne.symm ht, eq_comm, *])


/-- an integer value never equals a non-integer value, whichever side it is on -/
theorem equals_int_nonint_false (a b : MVal) (hwb : b.WF) (ha : a.isInt = true) (hb : b.isInt = false) :
    equalsGen a b = false ∧ equalsGen b a = false := by
  have hwa : a.WF := by cases a <;> simp [MVal.isInt] at ha <;> trivial
  have ht : a.type_ ≠ b.type_ := by
    cases a <;> simp [MVal.isInt] at ha <;> cases b <;>
      simp [MVal.isInt, MVal.WF, builtinTypeNames, MVal.type_] at hb hwb ⊢ <;> simp [*, eq_comm]
  exact ⟨equals_other_type_false a b hwa hwb ht (by simp [hb]),
         equals_other_type_false b a hwb hwa (Ne.symm ht) (by simp [hb])⟩

/-! ## identity within bool / pointer types -/

theorem equals_bool_iff (x y : Bool) : equalsGen (.bool x) (.bool y) = true ↔ x = y := by
  cases x <;> cases y <;> simp [equalsGen, MVal.type_, MVal.boolValue_, boolToBV]

theorem equals_ptr_iff (x y : Nat) : equalsGen (.ptr x) (.ptr y) = true ↔ x = y := by
  simp [equalsGen, MVal.type_, MVal.pointerValue_]

theorem equals_cptr_iff (x y : Nat) : equalsGen (.cptr x) (.cptr y) = true ↔ x = y := by
  simp [equalsGen, MVal.type_, MVal.constPointerValue_]

theorem equals_fptr_iff (x y : Nat) : equalsGen (.fptr x) (.fptr y) = true ↔ x = y := by
  simp [equalsGen, MVal.type_, MVal.functionPointerValue_]

/-! ## strings by content, buffers by length and content -/

/-- `const char*` values compare by the content of the C strings (NULL counts as the empty string) -/
theorem str_eq_iff_content (a b : Option Bytes) (ha : NulFree (cstrContent a)) (hb : NulFree (cstrContent b)) :
    equalsGen (.str a) (.str b) = true ↔ cstrContent a = cstrContent b := by
  have h : equalsGen (.str a) (.str b) = simpleStringEq (simpleStringOfCStr a) (simpleStringOfCStr b) := by
    simp [equalsGen, MVal.type_, MVal.stringValue_]
  have e : ∀ s, simpleStringOfCStr s = cstrContent s := by intro s; cases s <;> rfl
  rw [h, e a, e b]
  simp only [simpleStringEq, beq_iff_eq]
  exact cmp_eq_zero_iff _ _ ha hb

/-- memory buffers compare by length and content -/
theorem mem_eq_iff_len_and_content (a b : Bytes) (ha : SizeOk a) (hb : SizeOk b) :
    equalsGen (.mem a) (.mem b) = true ↔ a.length = b.length ∧ a = b := by
  have h : equalsGen (.mem a) (.mem b) =
      (if BitVec.ofNat 64 a.length != BitVec.ofNat 64 b.length then false
       else MemCmpSz a b (BitVec.ofNat 64 a.length) == 0#32) := by
    simp [equalsGen, MVal.type_, MVal.memoryBufferValue_, MVal.size_]
  rw [h]
  by_cases hl : a.length = b.length
  · have h1 : (BitVec.ofNat 64 a.length != BitVec.ofNat 64 b.length) = false := by
      simp [(ofNat64_length_eq_iff a b ha hb).mpr hl]
    simp only [h1, MemCmpSz, toNat_ofNat64_length a ha, beq_iff_eq, Bool.false_eq_true, if_false]
    rw [memCmp_eq_zero_iff a b hl]
    exact ⟨fun h => ⟨hl, h⟩, fun h => h.2⟩
  · have h1 : (BitVec.ofNat 64 a.length != BitVec.ofNat 64 b.length) = true := by
      simp [mt (ofNat64_length_eq_iff a b ha hb).mp hl]
    simp [h1, hl]

/-! ## doubles: the LEFT operand's tolerance, NaN equal to nothing -/

/-- the double branch is `doubles_equal(this.value, p.value, this.tolerance)`: the right operand's
    tolerance plays no role -/
theorem dbl_eq_uses_left_tolerance (v t w t' : D Float) :
    equalsGen (.dbl v t) (.dbl w t') = doublesEqual floatClose v w t := by
  simp [equalsGen, MVal.type_, MVal.doubleValue_value, MVal.doubleValue_tolerance, doubles_equal]

/-- class logic of `doubles_equal`, for every interpretation of the finite comparison -/
theorem doublesEqual_nan_left {F} (c : F → F → F → Bool) (w t : D F) : doublesEqual c .nan w t = false := by
  cases w <;> cases t <;> rfl
theorem doublesEqual_nan_right {F} (c : F → F → F → Bool) (v t : D F) : doublesEqual c v .nan t = false := by
  cases v <;> cases t <;> rfl
theorem doublesEqual_nan_tol {F} (c : F → F → F → Bool) (v w : D F) : doublesEqual c v w .nan = false := by
  cases v <;> cases w <;> rfl
/-- two infinities: the same infinity is equal whatever the (non-NaN) tolerance; opposite infinities
    only under the tolerance +inf -/
theorem doublesEqual_inf_inf {F} (c : F → F → F → Bool) (n1 n2 : Bool) (t : D F) (ht : t ≠ .nan) :
    doublesEqual c (.inf n1) (.inf n2) t = true ↔ n1 = n2 ∨ t = .inf false := by
  cases t <;> simp [doublesEqual] at *
/-- an infinity and a finite number are equal only under the tolerance +inf -/
theorem doublesEqual_inf_fin {F} (c : F → F → F → Bool) (n : Bool) (y : F) (t : D F) :
    (doublesEqual c (.inf n) (.fin y) t = true ↔ t = .inf false) ∧
    (doublesEqual c (.fin y) (.inf n) t = true ↔ t = .inf false) := by
  cases t <;> simp [doublesEqual]
/-- finite operands and finite tolerance: exactly the hardware comparison `fabs(x - y) <= t` -/
theorem doublesEqual_fin {F} (c : F → F → F → Bool) (x y t : F) :
    doublesEqual c (.fin x) (.fin y) (.fin t) = c x y t := rfl
/-- finite operands, infinite tolerance: +inf accepts everything, -inf nothing -/
theorem doublesEqual_fin_inf_tol {F} (c : F → F → F → Bool) (x y : F) (neg : Bool) :
    doublesEqual c (.fin x) (.fin y) (.inf neg) = !neg := rfl

/-- NaN is equal to nothing: as either value or as the expectation's tolerance -/
theorem dbl_nan_equals_nothing (v w t t' : D Float) (h : v = .nan ∨ w = .nan ∨ t = .nan) :
    equalsGen (.dbl v t) (.dbl w t') = false := by
  rw [dbl_eq_uses_left_tolerance]
  rcases h with h | h | h <;> subst h
  · exact doublesEqual_nan_left _ _ _
  · exact doublesEqual_nan_right _ _ _
  · exact doublesEqual_nan_tol _ _ _

/-- finite doubles are compared by the expectation's (left operand's) tolerance -/
theorem dbl_fin_iff (x y t : Float) (t' : D Float) :
    equalsGen (.dbl (.fin x) (.fin t)) (.dbl (.fin y) t') = floatClose x y t := by
  rw [dbl_eq_uses_left_tolerance]; rfl

/-! ## custom object types -/

theorem obj_eq_comparator (ty : String) (hty : ty ∉ builtinTypeNames) (x y : Nat) (f : Nat → Nat → Bool)
    (c : Option (Nat → Nat → Bool)) : equalsGen (.obj ty x (some f)) (.obj ty y c) = f x y := by
  simp [builtinTypeNames] at hty
  simp [equalsGen, MVal.type_, MVal.comparator_, MVal.constObjectPointerValue_, comparatorIsEqual, hty]

/-- without a comparator for the type, object values never compare equal (not even to themselves) -/
theorem obj_no_comparator_false (ty : String) (hty : ty ∉ builtinTypeNames) (x y : Nat)
    (c : Option (Nat → Nat → Bool)) : equalsGen (.obj ty x none) (.obj ty y c) = false := by
  simp [builtinTypeNames] at hty
  simp [equalsGen, MVal.type_, MVal.comparator_, hty]


/-! ## getters: exactly the stored integer, or the test fails — never a different number

`get…Gen v = .ok n` means the getter returned `n`; `.error` is the failing `STRCMP_EQUAL` on the type
name.  `denote? v = some …` also says that a getter never succeeds on a non-integer value. -/

section getters
set_option linter.unusedSimpArgs false

local macro "getter_tac" g:ident : tactic => `(tactic| (
  intro v hw n h
  cases v
  case obj ty a c =>
    exfalso
    have e := obj_type_beq_false ty a c hw
    simp only [$g:ident, e "int" (by decide), e "unsigned int" (by decide), e "long int" (by decide),
      e "unsigned long int" (by decide), e "long long int" (by decide), e "unsigned long long int" (by decide),
      Bool.false_and, Bool.false_eq_true, if_false, reduceCtorEq] at h
  all_goals (
    clear hw
    simp [$g:ident, MVal.type_, MVal.longIntValue_, MVal.intValue_, MVal.unsignedIntValue_,
      MVal.unsignedLongIntValue_, MVal.longLongIntValue_, MVal.unsignedLongLongIntValue_, denote?, resultInt,
      getIntValueSigned, getUnsignedIntValueSigned, getLongIntValueSigned, getUnsignedLongIntValueSigned,
      getLongLongIntValueSigned, getUnsignedLongLongIntValueSigned] at h ⊢ <;>
    (try (rename_i x
          first | (have hx := toInt_cases32 x; have hs := toNat_sext_32_64 x) | have hx := toInt_cases64 x)) <;>
    (try (repeat' split at h)) <;>
    (try simp at h) <;>
    (try subst h) <;>
    (try simp [BitVec.sle_iff_toInt_le, toInt_zext_32_64, toInt_sext_32_64, -BitVec.toInt_setWidth] at *) <;>
    (try omega))))

theorem getIntValue_exact : ∀ (v : MVal), v.WF → ∀ n, getIntValueGen v = .ok n →
    denote? v = some (resultInt getIntValueSigned n) := by
  getter_tac getIntValueGen
theorem getUnsignedIntValue_exact : ∀ (v : MVal), v.WF → ∀ n, getUnsignedIntValueGen v = .ok n →
    denote? v = some (resultInt getUnsignedIntValueSigned n) := by
  getter_tac getUnsignedIntValueGen
theorem getLongIntValue_exact : ∀ (v : MVal), v.WF → ∀ n, getLongIntValueGen v = .ok n →
    denote? v = some (resultInt getLongIntValueSigned n) := by
  getter_tac getLongIntValueGen
theorem getUnsignedLongIntValue_exact : ∀ (v : MVal), v.WF → ∀ n, getUnsignedLongIntValueGen v = .ok n →
    denote? v = some (resultInt getUnsignedLongIntValueSigned n) := by
  getter_tac getUnsignedLongIntValueGen
theorem getLongLongIntValue_exact : ∀ (v : MVal), v.WF → ∀ n, getLongLongIntValueGen v = .ok n →
    denote? v = some (resultInt getLongLongIntValueSigned n) := by
  getter_tac getLongLongIntValueGen
theorem getUnsignedLongLongIntValue_exact : ∀ (v : MVal), v.WF → ∀ n, getUnsignedLongLongIntValueGen v = .ok n →
    denote? v = some (resultInt getUnsignedLongLongIntValueSigned n) := by
  getter_tac getUnsignedLongLongIntValueGen

end getters

/-- the return types are read signed / unsigned as declared (regenerated flags) -/
theorem getter_signedness :
    getIntValueSigned = true ∧ getUnsignedIntValueSigned = false ∧ getLongIntValueSigned = true ∧
    getUnsignedLongIntValueSigned = false ∧ getLongLongIntValueSigned = true ∧
    getUnsignedLongLongIntValueSigned = false := by decide

/-- Every integer getter on every stored value returns exactly the stored integer or fails. -/
theorem getter_exact_or_fail (v : MVal) (hw : v.WF) :
    (∀ n, getIntValueGen v = .ok n → denote? v = some n.toInt) ∧
    (∀ n, getUnsignedIntValueGen v = .ok n → denote? v = some (n.toNat : Int)) ∧
    (∀ n, getLongIntValueGen v = .ok n → denote? v = some n.toInt) ∧
    (∀ n, getUnsignedLongIntValueGen v = .ok n → denote? v = some (n.toNat : Int)) ∧
    (∀ n, getLongLongIntValueGen v = .ok n → denote? v = some n.toInt) ∧
    (∀ n, getUnsignedLongLongIntValueGen v = .ok n → denote? v = some (n.toNat : Int)) :=
  ⟨fun n h => by simpa [resultInt, getIntValueSigned] using getIntValue_exact v hw n h,
   fun n h => by simpa [resultInt, getUnsignedIntValueSigned] using getUnsignedIntValue_exact v hw n h,
   fun n h => by simpa [resultInt, getLongIntValueSigned] using getLongIntValue_exact v hw n h,
   fun n h => by simpa [resultInt, getUnsignedLongIntValueSigned] using getUnsignedLongIntValue_exact v hw n h,
   fun n h => by simpa [resultInt, getLongLongIntValueSigned] using getLongLongIntValue_exact v hw n h,
   fun n h => by simpa [resultInt, getUnsignedLongLongIntValueSigned] using getUnsignedLongLongIntValue_exact v hw n h⟩

/-- the repaired defect: an `unsigned long` above LLONG_MAX read as `long long` fails the test
    (it used to return the negative number with the same bit pattern) -/
theorem getLongLong_of_ulong_above_max_fails (v : BitVec 64) (h : 9223372036854775808 ≤ v.toNat) :
    getLongLongIntValueGen (.ulong v) = .error (.typeMismatch "long long int") := by
  have hv := toInt_cases64 v
  have hs : ¬ (0 ≤ v.toInt) := by omega
  simp [getLongLongIntValueGen, MVal.type_, MVal.unsignedLongIntValue_, BitVec.sle_iff_toInt_le, hs]

/-- … and at or below LLONG_MAX it is returned unchanged -/
theorem getLongLong_of_ulong_in_range (v : BitVec 64) (h : v.toNat < 9223372036854775808) :
    getLongLongIntValueGen (.ulong v) = .ok v := by
  have hv := toInt_cases64 v
  have hs : 0 ≤ v.toInt := by omega
  simp [getLongLongIntValueGen, MVal.type_, MVal.unsignedLongIntValue_, BitVec.sle_iff_toInt_le, hs]

/-- a negative value read as unsigned fails the test (the example the property names) -/
theorem getUnsigned_of_negative_int_fails (v : BitVec 32) (h : v.toInt < 0) :
    getUnsignedIntValueGen (.int v) = .error (.typeMismatch "unsigned int") ∧
    getUnsignedLongIntValueGen (.int v) = .error (.typeMismatch "unsigned long int") ∧
    getUnsignedLongLongIntValueGen (.int v) = .error (.typeMismatch "unsigned long long int") := by
  have hs : ¬ (0 ≤ v.toInt) := by omega
  simp [getUnsignedIntValueGen, getUnsignedLongIntValueGen, getUnsignedLongLongIntValueGen, MVal.type_, MVal.intValue_,
    BitVec.sle_iff_toInt_le, hs]

/-- every getter returns a value of its own type unchanged -/
theorem getter_same_type (x : BitVec 32) (y : BitVec 64) :
    getIntValueGen (.int x) = .ok x ∧ getUnsignedIntValueGen (.uint x) = .ok x ∧
    getLongIntValueGen (.long y) = .ok y ∧ getUnsignedLongIntValueGen (.ulong y) = .ok y ∧
    getLongLongIntValueGen (.llong y) = .ok y ∧ getUnsignedLongLongIntValueGen (.ullong y) = .ok y := by
  simp [getIntValueGen, getUnsignedIntValueGen, getLongIntValueGen, getUnsignedLongIntValueGen, getLongLongIntValueGen,
    getUnsignedLongLongIntValueGen, MVal.type_, MVal.longIntValue_, MVal.intValue_, MVal.unsignedIntValue_,
    MVal.unsignedLongIntValue_, MVal.longLongIntValue_, MVal.unsignedLongLongIntValue_]

/-! ## non-vacuity: concrete values on both sides of every boundary the theorems talk about -/

-- −1 as int, 2^32−1 as unsigned, 2^64−1 as unsigned long: same low bits, three different integers
example : equalsGen (.int (-1)) (.uint 4294967295#32) = false := by decide
example : equalsGen (.ulong 18446744073709551615#64) (.int (-1)) = false := by decide
example : equalsGen (.uint 4294967295#32) (.long 4294967295#64) = true := by decide
example : equalsGen (.llong (-1)) (.int (-1)) = true := by decide
example : denote? (.int (-1)) = some (-1) ∧ denote? (.uint 4294967295#32) = some 4294967295 := by decide
example : (MVal.int 5#32).isInt = true ∧ (MVal.ullong 5#64).isInt = true ∧ (MVal.bool true).isInt = false := by decide
-- hypotheses of `equals_other_type_false` are satisfiable, also with the same representation on both sides
example : (MVal.ptr 3).WF ∧ (MVal.cptr 3).WF ∧ (MVal.ptr 3).type_ ≠ (MVal.cptr 3).type_ ∧
    ¬ ((MVal.ptr 3).isInt = true ∧ (MVal.cptr 3).isInt = true) := by simp [MVal.WF, MVal.type_, MVal.isInt]
example : (MVal.obj "MyType" 1 none).WF := by simp [MVal.WF, builtinTypeNames]
-- strings / buffers
example : NulFree (cstrContent (some [97, 98])) ∧ NulFree (cstrContent none) := by
  constructor <;> intro c hc <;> simp [cstrContent] at hc <;> rcases hc with h | h <;> subst h <;> decide
example : equalsGen (.str none) (.str (some [])) = true := by decide
example : equalsGen (.str (some [97])) (.str (some [97, 98])) = false := by decide
example : SizeOk [1, 2, 3] := by unfold SizeOk; decide
example : equalsGen (.mem [1, 2]) (.mem [1, 2, 0]) = false ∧ equalsGen (.mem []) (.mem []) = true := by decide
-- doubles: class logic with any finite comparison
example : doublesEqual (fun (_ _ _ : Nat) => true) (.fin 1) (.nan) (.fin 1) = false := rfl
example : doublesEqual (fun (x y t : Nat) => x - y ≤ t) (.fin 5) (.fin 3) (.fin 2) = true := by decide
example : doublesEqual (fun (_ _ _ : Nat) => true) (.inf false) (.inf true) (.fin 1) = false := rfl
example : doublesEqual (fun (_ _ _ : Nat) => false) (.inf false) (.inf true) (.inf false) = true := rfl
-- getters: one success and one failure each way
example : getLongLongIntValueGen (.ulong 9223372036854775808#64) = .error (.typeMismatch "long long int") := rfl
example : getLongLongIntValueGen (.ulong 9223372036854775807#64) = .ok 9223372036854775807#64 := rfl
example : getUnsignedIntValueGen (.int (-1)) = .error (.typeMismatch "unsigned int") := rfl
example : getLongIntValueGen (.uint 4294967295#32) = .ok 4294967295#64 := rfl

end Mock
