import CppUModel.Proofs.Plugins
/-!
# C17 — pointers set for a test are restored after it; plugin actions nest properly

Property theorems only.  Model: `CppUModel/Model/Plugins.lean` (from `src/CppUTest/TestPlugin.cpp`,
`include/CppUTest/TestPlugin.h`, `src/CppUTest/TestRegistry.cpp`); vocabulary:
`CppUModel/Spec/Plugins.lean`; the limit `Gen.Plugins.maxSet` and the sentinel's name are regenerated
from the header on every run.

A test body is any list of statements `set loc val` / `stop` (`stop` = the body ends there by a
failing check, a C-style failure or an exception — for the pointer table all of them are the same:
the rest of the body does not run, the post actions do).
-/
namespace Plugins
open Gen.Plugins

/-! ## restoring -/

/-- **Restore.**  Whatever the body does (any number of redirections, repeated targets, more than
    the limit, any outcome) and whatever else is installed: if an enabled `SetPointerPlugin` is in
    the chain and the table was empty when the test started, then after the post actions every
    location holds the value it had before the test, and the table is empty again. -/
theorem restore_all (c : Chain) (s : Store) (body : List Stmt)
    (hset : HasActiveSet c) (hempty : s.table = []) :
    (∀ l, (runTest c s body).store.mem l = s.mem l) ∧ (runTest c s body).store.table = [] := by
  have hb := (hasActiveSetB_iff c).mpr hset
  have hinv := runBody_restore_inv body s 0
  simp only [runTest, postStore_eq, hb, if_true, postAction]
  rw [hinv, hempty]
  simp [restore]

/-- the general form: with entries left over from earlier tests (the plugin was not active then),
    the post action goes back to the memory those entries were started from -/
theorem restore_all_general (c : Chain) (s : Store) (body : List Stmt) (hset : HasActiveSet c) :
    (runTest c s body).store.mem = restore s.table s.mem ∧ (runTest c s body).store.table = [] := by
  have hb := (hasActiveSetB_iff c).mpr hset
  have hinv := runBody_restore_inv body s 0
  simp only [runTest, postStore_eq, hb, if_true, postAction]
  simp [hinv]

/-- repeated redirection of one target: the value that comes back is the one from before the
    FIRST redirection (the reason why the table must be undone backwards) -/
theorem repeated_target_restored (m : Loc → Val) (l : Loc) (v₁ v₂ : Val) :
    ∀ c, HasActiveSet c →
      (runTest c { mem := m, table := [] } [.set l v₁, .set l v₂]).store.mem l = m l := by
  intro c hc
  exact (restore_all c { mem := m, table := [] } _ hc rfl).1 l

/-- without an (enabled) `SetPointerPlugin` nothing is restored: the post actions of other plugins
    do not touch the pointers -/
theorem no_set_plugin_no_restore (c : Chain) (s : Store) (body : List Stmt) (h : ¬ HasActiveSet c) :
    (runTest c s body).store = (runBody s 0 body).store := by
  have hb : hasActiveSetB c = false := by
    cases hh : hasActiveSetB c
    · rfl
    · exact absurd ((hasActiveSetB_iff c).mp hh) h
  simp [runTest, postStore_eq, hb]

/-! ## a newly constructed plugin, and tests that run without an active plugin -/

/-- **A fresh plugin starts empty.**  Constructing a `SetPointerPlugin` resets the table index:
    whatever earlier tests recorded while no enabled plugin was installed is forgotten.  A test that
    then runs with an enabled plugin gets back, for EVERY location, exactly the value it had before
    that test — its restore touches only that test's own redirections — and leaves an empty table. -/
theorem fresh_plugin_starts_empty (c : Chain) (s : Store) (body : List Stmt) (hset : HasActiveSet c) :
    (∀ l, (runTest c (construct s) body).store.mem l = s.mem l) ∧
    (runTest c (construct s) body).store.table = [] :=
  restore_all c (construct s) body hset rfl

/-- stale entries have no influence at all on what happens after the construction … -/
theorem fresh_plugin_forgets_stale_entries (c : Chain) (s : Store) (body : List Stmt) :
    runTest c (construct s) body = runTest c { mem := s.mem, table := [] } body := rfl

/-- … and the new plugin has the whole table: the verdict of the next test and the number of
    redirections it carries out do not depend on how full the table was before -/
theorem fresh_plugin_has_whole_table (c : Chain) (s s' : Store) (body : List Stmt) :
    (runTest c (construct s) body).failed = (runTest c (construct s') body).failed ∧
    (runTest c (construct s) body).overflow = (runTest c (construct s') body).overflow ∧
    (runTest c (construct s) body).done = (runTest c (construct s') body).done := by
  have := runBody_flags body (construct s) (construct s') 0 rfl
  simp only [runTest]
  exact ⟨by rw [this.1], this.2.1, this.2.2⟩

/-- **Tests that run without an enabled plugin** keep their entries recorded: the index grows by
    the number of redirections carried out, over any number of such tests, and never passes the
    limit (the redirections beyond it fail the test, see `beyond_limit_fails_no_write`). -/
theorem inactive_test_keeps_entries (c : Chain) (s : Store) (body : List Stmt) (h : ¬ HasActiveSet c) :
    (runTest c s body).store.table.length = s.table.length + (runTest c s body).done ∧
    (s.table.length ≤ maxSet → (runTest c s body).store.table.length ≤ maxSet) := by
  rw [no_set_plugin_no_restore c s body h]
  have := runBody_table_length body s 0
  exact ⟨by simpa [runTest] using this.1, this.2⟩

/-- when a plugin becomes active again WITHOUT a new construction, its post action undoes all the
    recorded entries, back to the memory at the last point where the table was empty -/
theorem leftover_entries_undone_by_next_active_test (c₀ c : Chain) (s : Store) (b₀ body : List Stmt)
    (hempty : s.table = []) (h0 : ¬ HasActiveSet c₀) (hset : HasActiveSet c) :
    (runTest c (runTest c₀ s b₀).store body).store.mem = s.mem ∧
    (runTest c (runTest c₀ s b₀).store body).store.table = [] := by
  obtain ⟨h1, h2⟩ := restore_all_general c (runTest c₀ s b₀).store body hset
  refine ⟨?_, h2⟩
  rw [h1, no_set_plugin_no_restore c₀ s b₀ h0, runBody_restore_inv b₀ s 0, hempty]
  rfl

/-! ## the limit -/

/-- **Beyond the limit.**  With `maxSet` entries in the table the next `UT_PTR_SET` fails the test
    and writes neither the table nor the location. -/
theorem beyond_limit_fails_no_write (s : Store) (l : Loc) (v : Val) (rest : List Stmt) (n : Nat)
    (hfull : maxSet ≤ s.table.length) :
    ptrSet s l v = none ∧
    (runBody s n (.set l v :: rest)).failed = true ∧ (runBody s n (.set l v :: rest)).overflow = true ∧
    (runBody s n (.set l v :: rest)).store.mem = s.mem ∧
    (runBody s n (.set l v :: rest)).store.table = s.table ∧
    (runBody s n (.set l v :: rest)).done = n := by
  have h := (ptrSet_none_iff s l v).mpr hfull
  refine ⟨h, ?_⟩
  unfold runBody
  simp [h]

/-- below the limit a redirection is carried out: recorded and assigned -/
theorem within_limit_succeeds (s : Store) (l : Loc) (v : Val) (h : s.table.length < maxSet) :
    ∃ s', ptrSet s l v = some s' ∧ s'.mem = update s.mem l v ∧ s'.table = (l, s.mem l) :: s.table := by
  cases hp : ptrSet s l v with
  | none => rw [ptrSet_none_iff] at hp; omega
  | some s' => exact ⟨s', rfl, (ptrSet_some s s' l v hp).1, (ptrSet_some s s' l v hp).2.1⟩

/-- a test with up to `maxSet` redirections (repeated targets allowed): all are carried out, the
    test does not fail because of them, and the memory the body sees afterwards is the memory with
    the redirections applied in order -/
theorem up_to_limit_all_redirected (s : Store) (ss : List (Loc × Val))
    (hempty : s.table = []) (hle : ss.length ≤ maxSet) :
    (runBody s 0 (setsOf ss)).failed = false ∧ (runBody s 0 (setsOf ss)).done = ss.length ∧
    (runBody s 0 (setsOf ss)).store.mem = applySets s.mem ss := by
  have := runBody_sets_fit ss s 0 (by rw [hempty]; simpa using hle)
  exact ⟨this.1, by simpa using this.2.2.1, this.2.2.2.1⟩

/-- a test with more than `maxSet` redirections: exactly the first `maxSet` are carried out, the
    next one fails the test, nothing is written past the table -/
theorem over_limit_fails_at_limit (s : Store) (ss : List (Loc × Val))
    (hempty : s.table = []) (hgt : maxSet < ss.length) :
    (runBody s 0 (setsOf ss)).failed = true ∧ (runBody s 0 (setsOf ss)).overflow = true ∧
    (runBody s 0 (setsOf ss)).done = maxSet ∧
    (runBody s 0 (setsOf ss)).store.mem = applySets s.mem (ss.take maxSet) ∧
    (runBody s 0 (setsOf ss)).store.table.length = maxSet := by
  have := runBody_sets_overflow ss s 0 (by rw [hempty]; simp) (by rw [hempty]; simpa using hgt)
  rw [hempty] at this
  simpa using this

/-! ## consecutive tests -/

/-- **Consecutive tests are independent.**  With an active `SetPointerPlugin`, after any number
    of consecutive tests (any bodies, any outcomes) the memory is the initial one and the table
    index is back to 0 … -/
theorem consecutive_tests_independent (c : Chain) (hset : HasActiveSet c) :
    ∀ (bodies : List (List Stmt)) (s : Store), s.table = [] →
      (∀ l, (runTests c s bodies).mem l = s.mem l) ∧ (runTests c s bodies).table = []
  | [], _, h => ⟨fun _ => rfl, h⟩
  | b :: rest, s, h => by
    obtain ⟨h1, h2⟩ := restore_all c s b hset h
    obtain ⟨h3, h4⟩ := consecutive_tests_independent c hset rest (runTest c s b).store h2
    exact ⟨fun l => by rw [runTests, h3 l, h1 l], h4⟩

/-- … and every test has the whole table for itself: its verdict and the number of redirections it
    carries out are what they would be if it ran first -/
theorem each_test_as_if_alone (c : Chain) (hset : HasActiveSet c) (before : List (List Stmt))
    (s : Store) (hempty : s.table = []) (body : List Stmt) :
    (runTest c (runTests c s before) body).failed = (runTest c s body).failed ∧
    (runTest c (runTests c s before) body).overflow = (runTest c s body).overflow ∧
    (runTest c (runTests c s before) body).done = (runTest c s body).done := by
  have h := (consecutive_tests_independent c hset before s hempty).2
  have := runBody_flags body (runTests c s before) s 0 (by rw [h, hempty])
  simp only [runTest]
  exact ⟨by rw [this.1], this.2.1, this.2.2⟩

/-! ## order of the plugin actions -/

/-- the pre actions are seen by the enabled plugins in chain order (head first) -/
theorem pre_order_is_chain_order (c : Chain) :
    runAllPre c = (c.filter (·.enabled)).map (·.name) := runAllPre_eq c

/-- **Pre actions run in installation-reversed order**: after installing `ps` in this order, the
    enabled ones see the pre action last-installed first. -/
theorem pre_order_is_install_reversed (ps : List Plugin) :
    runAllPre (installAll ps) = ((ps.filter (·.enabled)).map (·.name)).reverse := by
  rw [runAllPre_eq, installAll_eq_reverse, List.filter_reverse, List.map_reverse]

/-- **Post actions run in exactly the reverse order of the pre actions.** -/
theorem post_order_is_reverse_of_pre (c : Chain) : runAllPost c = (runAllPre c).reverse :=
  runAllPost_eq c

/-- so the post actions run in installation order -/
theorem post_order_is_install_order (ps : List Plugin) :
    runAllPost (installAll ps) = (ps.filter (·.enabled)).map (·.name) := by
  rw [runAllPost_eq, pre_order_is_install_reversed, List.reverse_reverse]

/-- **Disabled plugins see neither action**; enabled ones see each exactly once. -/
theorem disabled_see_neither (c : Chain) (hu : UniqueNames c) (p : Plugin) (hp : p ∈ c) :
    (p.enabled = false → p.name ∉ runAllPre c ∧ p.name ∉ runAllPost c) ∧
    (p.enabled = true → (runAllPre c).count p.name = 1 ∧ (runAllPost c).count p.name = 1) := by
  have key : ∀ q ∈ c, q.name = p.name → q = p := by
    intro q hq hn
    induction c with
    | nil => cases hq
    | cons a rest ih =>
      simp only [UniqueNames, List.map_cons, List.nodup_cons, List.mem_map, not_exists, not_and] at hu
      rcases List.mem_cons.mp hq with rfl | hq' <;> rcases List.mem_cons.mp hp with rfl | hp'
      · rfl
      · exact absurd hn.symm (hu.1 p hp')
      · exact absurd hn (hu.1 q hq')
      · exact ih hu.2 hp' hq'
  rw [runAllPost_eq, runAllPre_eq]
  constructor
  · intro hd
    have : p.name ∉ (c.filter (·.enabled)).map (·.name) := by
      intro hm
      obtain ⟨q, hq, hn⟩ := List.mem_map.mp hm
      have hq' := List.mem_filter.mp hq
      have := key q hq'.1 hn
      rw [this, hd] at hq'; simp at hq'
    exact ⟨this, by simpa using this⟩
  · intro he
    have hn : ((c.filter (·.enabled)).map (·.name)).Nodup := by
      have : ((c.filter (·.enabled)).map (·.name)).Sublist (c.map (·.name)) :=
        (List.filter_sublist).map _
      exact this.nodup hu
    have hm : p.name ∈ (c.filter (·.enabled)).map (·.name) :=
      List.mem_map.mpr ⟨p, List.mem_filter.mpr ⟨hp, by simpa using he⟩, rfl⟩
    have h1 : ((c.filter (·.enabled)).map (·.name)).count p.name = 1 := by
      have a := List.nodup_iff_count.mp hn p.name
      have b := List.count_pos_iff.mpr hm
      omega
    exact ⟨h1, by rw [List.count_reverse]; exact h1⟩

/-! ## removing by name -/

/-- **Removing by name removes exactly that plugin**, at any depth of the chain: with pairwise
    different names the chain afterwards is the chain before without the plugin of that name —
    everything else stays, in the same order, with the same enabled flags; a name that is not
    installed changes nothing. -/
theorem remove_by_name_removes_exactly (c : Chain) (name : String) (hu : UniqueNames c) :
    regRemove name c = c.filter (fun q => q.name ≠ name) := by
  cases c with
  | nil => rfl
  | cons p rest =>
    have hu' := hu
    simp only [UniqueNames, List.map_cons, List.nodup_cons] at hu'
    have hrest : rest.eraseP (fun q => q.name = name) = rest.filter (fun q => q.name ≠ name) :=
      eraseP_eq_filter name rest hu'.2
    by_cases hp : p.name = name
    · subst hp
      have hnm : p.name ∉ rest.map (·.name) := hu'.1
      have h1 : rest.eraseP (fun q => q.name = p.name) = rest := eraseP_eq_self_of_not_mem _ rest hnm
      have h2 : rest.filter (fun q => q.name ≠ p.name) = rest := filter_eq_self_of_not_mem _ rest hnm
      simp only [regRemove, removeBelowHead, removeNext_fst, h1, removeHead, if_true]
      rw [List.filter_cons_of_neg (by simp), h2]
      cases rest with
      | nil => rfl
      | cons q r =>
        simp only [removeBelowHead, removeNext_fst]
        have : p.name ∉ r.map (·.name) := fun h => hnm (by simp [h])
        rw [eraseP_eq_self_of_not_mem _ r this]
    · simp only [regRemove, removeBelowHead, removeNext_fst, removeHead, hp, if_false]
      rw [List.filter_cons_of_pos (by simpa using hp), hrest]
      rw [eraseP_eq_self_of_not_mem name _ (not_mem_names_filter name rest)]

theorem remove_absent_is_noop (c : Chain) (name : String) (hu : UniqueNames c)
    (h : name ∉ c.map (·.name)) : regRemove name c = c := by
  rw [remove_by_name_removes_exactly c name hu, filter_eq_self_of_not_mem name c h]

/-- install then remove gives the chain back -/
theorem install_remove_roundtrip (c : Chain) (p : Plugin) (hu : UniqueNames (install c p)) :
    regRemove p.name (install c p) = c := by
  rw [remove_by_name_removes_exactly _ _ hu]
  simp only [install, UniqueNames, List.map_cons, List.nodup_cons] at hu ⊢
  rw [List.filter_cons_of_neg (by simp), filter_eq_self_of_not_mem _ c hu.1]

/-- `getPluginByName` finds the first plugin with that name -/
theorem get_by_name_finds (c : Chain) (name : String) :
    getByName name c = c.find? (fun p => name = p.name) := by
  induction c with
  | nil => rfl
  | cons p rest ih =>
    unfold getByName
    by_cases h : name = p.name <;> simp [List.find?_cons, h, ih]

/-! ## the registry's view of the chain -/

/-- `getPluginByName` returns the first plugin carrying the name; a name nobody carries yields NULL,
    except the sentinel's own name, which yields the sentinel -/
theorem lookup_spec (c : Chain) (name : String) :
    lookup name c = match c.find? (fun p => name = p.name) with
      | some p => .plugin p
      | none => if name = nullName then .sentinel else .none := by
  induction c with
  | nil => simp [lookup]
  | cons p rest ih =>
    unfold lookup
    by_cases h : name = p.name
    · simp [h]
    · simp [h, ih]

/-- `resetPlugins` leaves the sentinel only: no plugin is counted, found or called -/
theorem reset_leaves_sentinel_only (c : Chain) (name : String) :
    countPlugins (reset c) = 0 ∧ firstPlugin (reset c) = none ∧
    (lookup name (reset c) = if name = nullName then .sentinel else .none) ∧
    runAllPre (reset c) = [] ∧ runAllPost (reset c) = [] := by
  simp [reset, countPlugins, firstPlugin, lookup, runAllPre, runAllPost]

/-- `countPlugins` and `getFirstPlugin` after install / remove -/
theorem count_and_first (c : Chain) (p : Plugin) (name : String) (hu : UniqueNames c) :
    countPlugins (install c p) = countPlugins c + 1 ∧ firstPlugin (install c p) = some p ∧
    countPlugins (regRemove name c) = countPlugins c - (if name ∈ c.map (·.name) then 1 else 0) := by
  refine ⟨by simp [install, countPlugins], rfl, ?_⟩
  rw [remove_by_name_removes_exactly c name hu]
  simp only [countPlugins]
  induction c with
  | nil => simp
  | cons q rest ih =>
    have hu' := hu
    simp only [UniqueNames, List.map_cons, List.nodup_cons] at hu'
    have ih' := ih hu'.2
    by_cases hq : q.name = name
    · subst hq
      rw [List.filter_cons_of_neg (by simp), filter_eq_self_of_not_mem _ rest hu'.1]
      simp
    · rw [List.filter_cons_of_pos (by simpa using hq)]
      have : (name ∈ (q :: rest).map (·.name)) ↔ (name ∈ rest.map (·.name)) := by
        simp only [List.map_cons, List.mem_cons]
        constructor
        · rintro (h | h)
          · exact absurd h.symm hq
          · exact h
        · exact Or.inr
      simp only [List.length_cons, this, ih']
      split
      · next hm =>
        have : 0 < rest.length := by
          cases rest with
          | nil => simp at hm
          | cons _ _ => simp
        omega
      · omega

/-! ## how the shell runs the test -/

/-- **Separate process**: the pre actions, the body and the post actions all run (in the child, in
    the same order, with the same verdict as in-process), and the calling process keeps its pointers
    and its table exactly as they were -/
theorem separate_process_leaves_caller_untouched (c : Chain) (s : Store) (body : List Stmt) :
    (runTestKind .separate c s body).store = s ∧
    (runTestKind .separate c s body).pre = (runTest c s body).pre ∧
    (runTestKind .separate c s body).post = (runTest c s body).post ∧
    (runTestKind .separate c s body).failed = (runTest c s body).failed := ⟨rfl, rfl, rfl, rfl⟩

/-- **An ignored test** runs neither its body nor any plugin action; **a run-ignored one** is an
    ordinary test -/
theorem ignored_test_runs_nothing (c : Chain) (s : Store) (body : List Stmt) :
    (runTestKind .ignored c s body).store = s ∧ (runTestKind .ignored c s body).pre = [] ∧
    (runTestKind .ignored c s body).post = [] ∧ (runTestKind .ignored c s body).failed = false ∧
    runTestKind .ignoredRun c s body = runTest c s body := ⟨rfl, rfl, rfl, rfl, rfl⟩

/-- **A plugin that reports a failure in its pre action** makes the test fail and stops nothing:
    the later plugins' pre actions, the whole body and every post action run exactly as if it were
    an ordinary plugin, so the pointers are restored all the same -/
theorem failing_pre_action_stops_nothing (c : Chain) (s : Store) (body : List Stmt)
    (h : preFails c = true) :
    (runTest c s body).failed = true ∧
    (runTest c s body).store = postStore c (runBody s 0 body).store ∧
    (runTest c s body).done = (runBody s 0 body).done ∧
    (runTest c s body).pre = runAllPre c ∧ (runTest c s body).post = (runAllPre c).reverse ∧
    (HasActiveSet c → s.table = [] → ∀ l, (runTest c s body).store.mem l = s.mem l) := by
  refine ⟨by simp [runTest, h], rfl, rfl, rfl, runAllPost_eq c, ?_⟩
  intro hset hempty l
  exact (restore_all c s body hset hempty).1 l

/-! ## changes of the chain while the registry runs -/

theorem names_runAllPre_subset (c : Chain) (n : String) (h : n ∈ runAllPre c) : n ∈ c.map (·.name) := by
  rw [runAllPre_eq] at h
  obtain ⟨q, hq, rfl⟩ := List.mem_map.mp h
  exact List.mem_map.mpr ⟨q, (List.mem_filter.mp hq).1, rfl⟩

/-- a scripted test that changes nothing is an ordinary test and leaves the chain as it was -/
theorem scripted_without_changes (c : Chain) (s : Store) (body : List Stmt) (actor : Nat) :
    runScripted c s ⟨body, .none, actor, .none⟩ = (runTest c s body, c) := by
  have h : effectiveBodyMut s ⟨body, .none, actor, .none⟩ = .none := by
    unfold effectiveBodyMut; split <;> rfl
  simp [runScripted, h, postChainAfterBody, applyMut, runTest]

/-- **Changes of the chain take effect from the next test.**  `runAllTests` hands every test the
    chain as it is when that test starts: the pre actions of test k are those of the chain at its
    start — whatever the test or a post action then installs or removes — and the pre actions of
    test k+1 are those of the chain test k left behind. -/
theorem chain_changes_take_effect_from_next_test (c : Chain) (s : Store) (t t₂ : ScriptedTest) :
    ((runAllTestsReg c s [t, t₂]).1.map (·.pre)) = [runAllPre c, runAllPre (runScripted c s t).2] ∧
    (runAllTestsReg c s [t]).2.1 = (runScripted c s t).2 := by
  simp [runAllTestsReg, runScripted]

/-- a plugin installed from the body of test k sees neither action of test k, and both actions of
    test k+1: first of all in the pre order, last of all in the post order -/
theorem installed_during_test_seen_from_next (c : Chain) (s s' : Store) (body b₂ : List Stmt) (p : Plugin)
    (a a₂ : Nat) (hov : (runBody s 0 body).overflow = false) (hen : p.enabled = true)
    (hfresh : p.name ∉ c.map (·.name)) (hid : c.any (fun q => q.id == p.id) = false) :
    p.name ∉ (runScripted c s ⟨body, .install p, a, .none⟩).1.pre ∧
    p.name ∉ (runScripted c s ⟨body, .install p, a, .none⟩).1.post ∧
    (runScripted c s ⟨body, .install p, a, .none⟩).2 = p :: c ∧
    (runScripted (p :: c) s' ⟨b₂, .none, a₂, .none⟩).1.pre = p.name :: runAllPre c ∧
    (runScripted (p :: c) s' ⟨b₂, .none, a₂, .none⟩).1.post = runAllPost c ++ [p.name] := by
  have h : effectiveBodyMut s ⟨body, .install p, a, .none⟩ = .install p := by
    simp [effectiveBodyMut, hov]
  have h2 : effectiveBodyMut s' ⟨b₂, .none, a₂, .none⟩ = .none := by
    unfold effectiveBodyMut; split <;> rfl
  refine ⟨?_, ?_, ?_, ?_, ?_⟩
  · simp only [runScripted]
    exact fun hm => hfresh (names_runAllPre_subset c _ hm)
  · simp only [runScripted, h, postChainAfterBody]
    rw [runAllPost_eq]
    intro hm
    exact hfresh (names_runAllPre_subset c _ (by simpa using hm))
  · simp [runScripted, h, postChainAfterBody, applyMut, install, actorActs, hid]
  · simp [runScripted, runAllPre, hen]
  · simp [runScripted, h2, postChainAfterBody, runAllPost, hen]

/-- a plugin removed by name from the body of test k (pairwise different names) sees nothing from
    test k+1 on; as for test k's own post action: the head of the chain still sees it (the walk
    starts at the head captured when the test started), any other plugin does not (its predecessor
    already skips it) -/
theorem removed_during_test_gone_from_next (c : Chain) (s s' : Store) (body b₂ : List Stmt) (name : String)
    (a a₂ : Nat) (hov : (runBody s 0 body).overflow = false) (hu : UniqueNames c) :
    (runScripted c s ⟨body, .remove name, a, .none⟩).2 = c.filter (fun q => q.name ≠ name) ∧
    name ∉ (runScripted (runScripted c s ⟨body, .remove name, a, .none⟩).2 s' ⟨b₂, .none, a₂, .none⟩).1.pre ∧
    name ∉ (runScripted (runScripted c s ⟨body, .remove name, a, .none⟩).2 s' ⟨b₂, .none, a₂, .none⟩).1.post ∧
    (∀ h rest, c = h :: rest → h.name = name →
      (runScripted c s ⟨body, .remove name, a, .none⟩).1.post = runAllPost c) ∧
    (∀ h rest, c = h :: rest → h.name ≠ name →
      (runScripted c s ⟨body, .remove name, a, .none⟩).1.post = runAllPost (c.filter (fun q => q.name ≠ name))) := by
  have h : effectiveBodyMut s ⟨body, .remove name, a, .none⟩ = .remove name := by
    simp [effectiveBodyMut, hov]
  have h2 : effectiveBodyMut s' ⟨b₂, .none, a₂, .none⟩ = .none := by
    unfold effectiveBodyMut; split <;> rfl
  have hc : (runScripted c s ⟨body, .remove name, a, .none⟩).2 = c.filter (fun q => q.name ≠ name) := by
    simp only [runScripted, h, applyMut]
    rw [remove_by_name_removes_exactly c name hu]
    split <;> rfl
  have hnot : name ∉ (c.filter (fun q => q.name ≠ name)).map (·.name) := not_mem_names_filter name c
  refine ⟨hc, ?_, ?_, ?_, ?_⟩
  · rw [hc]; simp only [runScripted]
    exact fun hm => hnot (names_runAllPre_subset _ _ hm)
  · rw [hc]; simp only [runScripted, h2, postChainAfterBody]
    rw [runAllPost_eq]
    exact fun hm => hnot (names_runAllPre_subset _ _ (by simpa using hm))
  · intro hd rest hcr hn
    subst hcr
    simp [runScripted, h, postChainAfterBody, hn]
  · intro hd rest hcr hn
    subst hcr
    simp only [runScripted, h, postChainAfterBody, hn, if_false]
    rw [remove_by_name_removes_exactly _ name hu]

/-- a change made FROM a post action does not alter who sees that test's post action (every frame of
    the post recursion exists before the first post action runs); it shows from the next test on -/
theorem change_from_post_action (c : Chain) (s : Store) (body : List Stmt) (actor : Nat) (m : Mut)
    (hact : actorActs c actor = true) :
    (runScripted c s ⟨body, .none, actor, m⟩).1.post = runAllPost c ∧
    (runScripted c s ⟨body, .none, actor, m⟩).2 = applyMut m c := by
  have h : effectiveBodyMut s ⟨body, .none, actor, m⟩ = .none := by
    unfold effectiveBodyMut; split <;> rfl
  simp [runScripted, h, postChainAfterBody, applyMut, hact]

/-! ## non-vacuity -/

def exChain : Chain := installAll
  [⟨0, "a", true, .recording⟩, ⟨1, "set", true, .setPointer⟩, ⟨2, "b", false, .recording⟩, ⟨3, "c", true, .recording⟩]

example : HasActiveSet exChain ∧ UniqueNames exChain := by
  refine ⟨⟨⟨1, "set", true, .setPointer⟩, by decide, rfl, rfl⟩, by unfold UniqueNames; decide⟩
example : runAllPre exChain = ["c", "set", "a"] ∧ runAllPost exChain = ["a", "set", "c"] := by decide
/-- the history of the constructor change: a test redirects pointer 1 while the plugin is disabled, a
    new plugin is constructed, the next test redirects pointer 1 again: it comes back to the value
    the first test left, not to the original one -/
example :
    let c₀ : Chain := [⟨99, "SetPointerPlugin", false, .setPointer⟩]
    let c₁ : Chain := [⟨100, "SetPointerPlugin", true, .setPointer⟩]
    let s₁ := (runTest c₀ { mem := fun l => l, table := [] } [.set 1 1001]).store
    s₁.table.length = 1 ∧ (runTest c₁ (construct s₁) [.set 1 1002]).store.mem 1 = 1001 := by decide
example : (regRemove "a" exChain).map (·.name) = ["c", "b", "set"] := by decide
example : (runTest exChain { mem := fun l => l, table := [] } [.set 3 100, .set 3 200, .set 5 7, .stop, .set 6 1]).store.mem 3 = 3 := by
  decide

end Plugins
