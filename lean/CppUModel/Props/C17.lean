import CppUModel.Proofs.Plugins
import CppUModel.Proofs.PluginsTable
/-!
# C17 — pointers set for a test are restored after it; plugin actions nest properly

Property theorems only.  Model: `CppUModel/Model/Plugins.lean` (from `src/CppUTest/TestPlugin.cpp`,
`include/CppUTest/TestPlugin.h`, `src/CppUTest/TestRegistry.cpp`); vocabulary:
`CppUModel/Spec/Plugins.lean`; the limit `Gen.Plugins.maxSet` and the sentinel's name are regenerated
from the header on every run.

A test body is any list of statements `set loc val` / `stop` (`stop` = the body ends there by a
failing check, a C-style failure or an exception — for the pointer table all of them are the same:
the rest of the body does not run, the post actions do).
-/
namespace Plugins
open Gen.Plugins

/-! ## restoring -/

/-- **Restore.**  Whatever the body does (any number of redirections, repeated targets, more than
    the limit, any outcome) and whatever else is installed: if an enabled `SetPointerPlugin` is in
    the chain and the table was empty when the test started, then after the post actions every
    location holds the value it had before the test, and the table is empty again. -/
theorem restore_all (c : Chain) (s : Store) (body : List Stmt)
    (hset : HasActiveSet c) (hempty : s.table = []) :
    (∀ l, (runTest c s body).store.mem l = s.mem l) ∧ (runTest c s body).store.table = [] := by
  have hb := (hasActiveSetB_iff c).mpr hset
  have hinv := runBody_restore_inv body s 0
  simp only [runTest, postStore_eq, hb, if_true, postAction]
  rw [hinv, hempty]
  simp [restore]

/-- the general form: with entries left over from earlier tests (the plugin was not active then),
    the post action goes back to the memory those entries were started from -/
theorem restore_all_general (c : Chain) (s : Store) (body : List Stmt) (hset : HasActiveSet c) :
    (runTest c s body).store.mem = restore s.table s.mem ∧ (runTest c s body).store.table = [] := by
  have hb := (hasActiveSetB_iff c).mpr hset
  have hinv := runBody_restore_inv body s 0
  simp only [runTest, postStore_eq, hb, if_true, postAction]
  simp [hinv]

/-- repeated redirection of one target: the value that comes back is the one from before the
    FIRST redirection (the reason why the table must be undone backwards) -/
theorem repeated_target_restored (m : Loc → Val) (l : Loc) (v₁ v₂ : Val) :
    ∀ c, HasActiveSet c →
      (runTest c { mem := m, table := [] } [.set l v₁, .set l v₂]).store.mem l = m l := by
  intro c hc
  exact (restore_all c { mem := m, table := [] } _ hc rfl).1 l

/-- without an (enabled) `SetPointerPlugin` nothing is restored: the post actions of other plugins
    do not touch the pointers -/
theorem no_set_plugin_no_restore (c : Chain) (s : Store) (body : List Stmt) (h : ¬ HasActiveSet c) :
    (runTest c s body).store = (runBody s 0 body).store := by
  have hb : hasActiveSetB c = false := by
    cases hh : hasActiveSetB c
    · rfl
    · exact absurd ((hasActiveSetB_iff c).mp hh) h
  simp [runTest, postStore_eq, hb]

/-! ## a newly constructed plugin, and tests that run without an active plugin -/

/-- **A fresh plugin starts empty.**  Constructing a `SetPointerPlugin` resets the table index:
    whatever earlier tests recorded while no enabled plugin was installed is forgotten.  A test that
    then runs with an enabled plugin gets back, for EVERY location, exactly the value it had before
    that test — its restore touches only that test's own redirections — and leaves an empty table. -/
theorem fresh_plugin_starts_empty (c : Chain) (s : Store) (body : List Stmt) (hset : HasActiveSet c) :
    (∀ l, (runTest c (construct s) body).store.mem l = s.mem l) ∧
    (runTest c (construct s) body).store.table = [] :=
  restore_all c (construct s) body hset rfl

/-- stale entries have no influence at all on what happens after the construction … -/
theorem fresh_plugin_forgets_stale_entries (c : Chain) (s : Store) (body : List Stmt) :
    runTest c (construct s) body = runTest c { mem := s.mem, table := [] } body := rfl

/-- … and the new plugin has the whole table: the verdict of the next test and the number of
    redirections it carries out do not depend on how full the table was before -/
theorem fresh_plugin_has_whole_table (c : Chain) (s s' : Store) (body : List Stmt) :
    (runTest c (construct s) body).failed = (runTest c (construct s') body).failed ∧
    (runTest c (construct s) body).overflow = (runTest c (construct s') body).overflow ∧
    (runTest c (construct s) body).done = (runTest c (construct s') body).done := by
  have := runBody_flags body (construct s) (construct s') 0 rfl
  simp only [runTest]
  exact ⟨by rw [this.1], this.2.1, this.2.2⟩

/-- **Tests that run without an enabled plugin** keep their entries recorded: the index grows by
    the number of redirections carried out, over any number of such tests, and never passes the
    limit (the redirections beyond it fail the test, see `beyond_limit_fails_no_write`). -/
theorem inactive_test_keeps_entries (c : Chain) (s : Store) (body : List Stmt) (h : ¬ HasActiveSet c) :
    (runTest c s body).store.table.length = s.table.length + (runTest c s body).done ∧
    (s.table.length ≤ maxSet → (runTest c s body).store.table.length ≤ maxSet) := by
  rw [no_set_plugin_no_restore c s body h]
  have := runBody_table_length body s 0
  exact ⟨by simpa [runTest] using this.1, this.2⟩

/-- when a plugin becomes active again WITHOUT a new construction, its post action undoes all the
    recorded entries, back to the memory at the last point where the table was empty -/
theorem leftover_entries_undone_by_next_active_test (c₀ c : Chain) (s : Store) (b₀ body : List Stmt)
    (hempty : s.table = []) (h0 : ¬ HasActiveSet c₀) (hset : HasActiveSet c) :
    (runTest c (runTest c₀ s b₀).store body).store.mem = s.mem ∧
    (runTest c (runTest c₀ s b₀).store body).store.table = [] := by
  obtain ⟨h1, h2⟩ := restore_all_general c (runTest c₀ s b₀).store body hset
  refine ⟨?_, h2⟩
  rw [h1, no_set_plugin_no_restore c₀ s b₀ h0, runBody_restore_inv b₀ s 0, hempty]
  rfl

/-! ## the limit -/

/-- **Beyond the limit.**  With `maxSet` entries in the table the next `UT_PTR_SET` fails the test
    and writes neither the table nor the location. -/
theorem beyond_limit_fails_no_write (s : Store) (l : Loc) (v : Val) (rest : List Stmt) (n : Nat)
    (hfull : maxSet ≤ s.table.length) :
    ptrSet s l v = none ∧
    (runBody s n (.set l v :: rest)).failed = true ∧ (runBody s n (.set l v :: rest)).overflow = true ∧
    (runBody s n (.set l v :: rest)).store.mem = s.mem ∧
    (runBody s n (.set l v :: rest)).store.table = s.table ∧
    (runBody s n (.set l v :: rest)).done = n := by
  have h := (ptrSet_none_iff s l v).mpr hfull
  refine ⟨h, ?_⟩
  unfold runBody
  simp [h]

/-- below the limit a redirection is carried out: recorded and assigned -/
theorem within_limit_succeeds (s : Store) (l : Loc) (v : Val) (h : s.table.length < maxSet) :
    ∃ s', ptrSet s l v = some s' ∧ s'.mem = update s.mem l v ∧ s'.table = (l, s.mem l) :: s.table := by
  cases hp : ptrSet s l v with
  | none => rw [ptrSet_none_iff] at hp; omega
  | some s' => exact ⟨s', rfl, (ptrSet_some s s' l v hp).1, (ptrSet_some s s' l v hp).2.1⟩

/-- a test with up to `maxSet` redirections (repeated targets allowed): all are carried out, the
    test does not fail because of them, and the memory the body sees afterwards is the memory with
    the redirections applied in order -/
theorem up_to_limit_all_redirected (s : Store) (ss : List (Loc × Val))
    (hempty : s.table = []) (hle : ss.length ≤ maxSet) :
    (runBody s 0 (setsOf ss)).failed = false ∧ (runBody s 0 (setsOf ss)).done = ss.length ∧
    (runBody s 0 (setsOf ss)).store.mem = applySets s.mem ss := by
  have := runBody_sets_fit ss s 0 (by rw [hempty]; simpa using hle)
  exact ⟨this.1, by simpa using this.2.2.1, this.2.2.2.1⟩

/-- a test with more than `maxSet` redirections: exactly the first `maxSet` are carried out, the
    next one fails the test, nothing is written past the table -/
theorem over_limit_fails_at_limit (s : Store) (ss : List (Loc × Val))
    (hempty : s.table = []) (hgt : maxSet < ss.length) :
    (runBody s 0 (setsOf ss)).failed = true ∧ (runBody s 0 (setsOf ss)).overflow = true ∧
    (runBody s 0 (setsOf ss)).done = maxSet ∧
    (runBody s 0 (setsOf ss)).store.mem = applySets s.mem (ss.take maxSet) ∧
    (runBody s 0 (setsOf ss)).store.table.length = maxSet := by
  have := runBody_sets_overflow ss s 0 (by rw [hempty]; simp) (by rw [hempty]; simpa using hgt)
  rw [hempty] at this
  simpa using this

/-! ## consecutive tests -/

/-- **Consecutive tests are independent.**  With an active `SetPointerPlugin`, after any number
    of consecutive tests (any bodies, any outcomes) the memory is the initial one and the table
    index is back to 0 … -/
theorem consecutive_tests_independent (c : Chain) (hset : HasActiveSet c) :
    ∀ (bodies : List (List Stmt)) (s : Store), s.table = [] →
      (∀ l, (runTests c s bodies).mem l = s.mem l) ∧ (runTests c s bodies).table = []
  | [], _, h => ⟨fun _ => rfl, h⟩
  | b :: rest, s, h => by
    obtain ⟨h1, h2⟩ := restore_all c s b hset h
    obtain ⟨h3, h4⟩ := consecutive_tests_independent c hset rest (runTest c s b).store h2
    exact ⟨fun l => by rw [runTests, h3 l, h1 l], h4⟩

/-- … and every test has the whole table for itself: its verdict and the number of redirections it
    carries out are what they would be if it ran first -/
theorem each_test_as_if_alone (c : Chain) (hset : HasActiveSet c) (before : List (List Stmt))
    (s : Store) (hempty : s.table = []) (body : List Stmt) :
    (runTest c (runTests c s before) body).failed = (runTest c s body).failed ∧
    (runTest c (runTests c s before) body).overflow = (runTest c s body).overflow ∧
    (runTest c (runTests c s before) body).done = (runTest c s body).done := by
  have h := (consecutive_tests_independent c hset before s hempty).2
  have := runBody_flags body (runTests c s before) s 0 (by rw [h, hempty])
  simp only [runTest]
  exact ⟨by rw [this.1], this.2.1, this.2.2⟩

/-! ## order of the plugin actions -/

/-- the pre actions are seen by the enabled plugins in chain order (head first) -/
theorem pre_order_is_chain_order (c : Chain) :
    runAllPre c = (c.filter (·.enabled)).map (·.name) := runAllPre_eq c

/-- **Pre actions run in installation-reversed order**: after installing `ps` in this order, the
    enabled ones see the pre action last-installed first. -/
theorem pre_order_is_install_reversed (ps : List Plugin) :
    runAllPre (installAll ps) = ((ps.filter (·.enabled)).map (·.name)).reverse := by
  rw [runAllPre_eq, installAll_eq_reverse, List.filter_reverse, List.map_reverse]

/-- **Post actions run in exactly the reverse order of the pre actions.** -/
theorem post_order_is_reverse_of_pre (c : Chain) : runAllPost c = (runAllPre c).reverse :=
  runAllPost_eq c

/-- so the post actions run in installation order -/
theorem post_order_is_install_order (ps : List Plugin) :
    runAllPost (installAll ps) = (ps.filter (·.enabled)).map (·.name) := by
  rw [runAllPost_eq, pre_order_is_install_reversed, List.reverse_reverse]

/-- **Disabled plugins see neither action**; enabled ones see each exactly once. -/
theorem disabled_see_neither (c : Chain) (hu : UniqueNames c) (p : Plugin) (hp : p ∈ c) :
    (p.enabled = false → p.name ∉ runAllPre c ∧ p.name ∉ runAllPost c) ∧
    (p.enabled = true → (runAllPre c).count p.name = 1 ∧ (runAllPost c).count p.name = 1) := by
  have key : ∀ q ∈ c, q.name = p.name → q = p := by
    intro q hq hn
    induction c with
    | nil => cases hq
    | cons a rest ih =>
      simp only [UniqueNames, List.map_cons, List.nodup_cons, List.mem_map, not_exists, not_and] at hu
      rcases List.mem_cons.mp hq with rfl | hq' <;> rcases List.mem_cons.mp hp with rfl | hp'
      · rfl
      · exact absurd hn.symm (hu.1 p hp')
      · exact absurd hn (hu.1 q hq')
      · exact ih hu.2 hp' hq'
  rw [runAllPost_eq, runAllPre_eq]
  constructor
  · intro hd
    have : p.name ∉ (c.filter (·.enabled)).map (·.name) := by
      intro hm
      obtain ⟨q, hq, hn⟩ := List.mem_map.mp hm
      have hq' := List.mem_filter.mp hq
      have := key q hq'.1 hn
      rw [this, hd] at hq'; simp at hq'
    exact ⟨this, by simpa using this⟩
  · intro he
    have hn : ((c.filter (·.enabled)).map (·.name)).Nodup := by
      have : ((c.filter (·.enabled)).map (·.name)).Sublist (c.map (·.name)) :=
        (List.filter_sublist).map _
      exact this.nodup hu
    have hm : p.name ∈ (c.filter (·.enabled)).map (·.name) :=
      List.mem_map.mpr ⟨p, List.mem_filter.mpr ⟨hp, by simpa using he⟩, rfl⟩
    have h1 : ((c.filter (·.enabled)).map (·.name)).count p.name = 1 := by
      have a := List.nodup_iff_count.mp hn p.name
      have b := List.count_pos_iff.mpr hm
      omega
    exact ⟨h1, by rw [List.count_reverse]; exact h1⟩

/-! ## removing by name -/

/-- **Removing by name removes exactly that plugin**, at any depth of the chain: with pairwise
    different names the chain afterwards is the chain before without the plugin of that name —
    everything else stays, in the same order, with the same enabled flags; a name that is not
    installed changes nothing. -/
theorem remove_by_name_removes_exactly (c : Chain) (name : String) (hu : UniqueNames c) :
    regRemove name c = c.filter (fun q => q.name ≠ name) := by
  cases c with
  | nil => rfl
  | cons p rest =>
    have hu' := hu
    simp only [UniqueNames, List.map_cons, List.nodup_cons] at hu'
    have hrest : rest.eraseP (fun q => q.name = name) = rest.filter (fun q => q.name ≠ name) :=
      eraseP_eq_filter name rest hu'.2
    by_cases hp : p.name = name
    · subst hp
      have hnm : p.name ∉ rest.map (·.name) := hu'.1
      have h1 : rest.eraseP (fun q => q.name = p.name) = rest := eraseP_eq_self_of_not_mem _ rest hnm
      have h2 : rest.filter (fun q => q.name ≠ p.name) = rest := filter_eq_self_of_not_mem _ rest hnm
      simp only [regRemove, removeBelowHead, removeNext_fst, h1, removeHead, if_true]
      rw [List.filter_cons_of_neg (by simp), h2]
      cases rest with
      | nil => rfl
      | cons q r =>
        simp only [removeBelowHead, removeNext_fst]
        have : p.name ∉ r.map (·.name) := fun h => hnm (by simp [h])
        rw [eraseP_eq_self_of_not_mem _ r this]
    · simp only [regRemove, removeBelowHead, removeNext_fst, removeHead, hp, if_false]
      rw [List.filter_cons_of_pos (by simpa using hp), hrest]
      rw [eraseP_eq_self_of_not_mem name _ (not_mem_names_filter name rest)]

theorem remove_absent_is_noop (c : Chain) (name : String) (hu : UniqueNames c)
    (h : name ∉ c.map (·.name)) : regRemove name c = c := by
  rw [remove_by_name_removes_exactly c name hu, filter_eq_self_of_not_mem name c h]

/-- install then remove gives the chain back -/
theorem install_remove_roundtrip (c : Chain) (p : Plugin) (hu : UniqueNames (install c p)) :
    regRemove p.name (install c p) = c := by
  rw [remove_by_name_removes_exactly _ _ hu]
  simp only [install, UniqueNames, List.map_cons, List.nodup_cons] at hu ⊢
  rw [List.filter_cons_of_neg (by simp), filter_eq_self_of_not_mem _ c hu.1]

/-- `getPluginByName` finds the first plugin with that name -/
theorem get_by_name_finds (c : Chain) (name : String) :
    getByName name c = c.find? (fun p => name = p.name) := by
  induction c with
  | nil => rfl
  | cons p rest ih =>
    unfold getByName
    by_cases h : name = p.name <;> simp [List.find?_cons, h, ih]

/-! ## the registry's view of the chain -/

/-- `getPluginByName` returns the first plugin carrying the name; a name nobody carries yields NULL,
    except the sentinel's own name, which yields the sentinel -/
theorem lookup_spec (c : Chain) (name : String) :
    lookup name c = match c.find? (fun p => name = p.name) with
      | some p => .plugin p
      | none => if name = nullName then .sentinel else .none := by
  induction c with
  | nil => simp [lookup]
  | cons p rest ih =>
    unfold lookup
    by_cases h : name = p.name
    · simp [h]
    · simp [h, ih]

/-- `resetPlugins` leaves the sentinel only: no plugin is counted, found or called -/
theorem reset_leaves_sentinel_only (c : Chain) (name : String) :
    countPlugins (reset c) = 0 ∧ firstPlugin (reset c) = none ∧
    (lookup name (reset c) = if name = nullName then .sentinel else .none) ∧
    runAllPre (reset c) = [] ∧ runAllPost (reset c) = [] := by
  simp [reset, countPlugins, firstPlugin, lookup, runAllPre, runAllPost]

/-- `countPlugins` and `getFirstPlugin` after install / remove -/
theorem count_and_first (c : Chain) (p : Plugin) (name : String) (hu : UniqueNames c) :
    countPlugins (install c p) = countPlugins c + 1 ∧ firstPlugin (install c p) = some p ∧
    countPlugins (regRemove name c) = countPlugins c - (if name ∈ c.map (·.name) then 1 else 0) := by
  refine ⟨by simp [install, countPlugins], rfl, ?_⟩
  rw [remove_by_name_removes_exactly c name hu]
  simp only [countPlugins]
  induction c with
  | nil => simp
  | cons q rest ih =>
    have hu' := hu
    simp only [UniqueNames, List.map_cons, List.nodup_cons] at hu'
    have ih' := ih hu'.2
    by_cases hq : q.name = name
    · subst hq
      rw [List.filter_cons_of_neg (by simp), filter_eq_self_of_not_mem _ rest hu'.1]
      simp
    · rw [List.filter_cons_of_pos (by simpa using hq)]
      have : (name ∈ (q :: rest).map (·.name)) ↔ (name ∈ rest.map (·.name)) := by
        simp only [List.map_cons, List.mem_cons]
        constructor
        · rintro (h | h)
          · exact absurd h.symm hq
          · exact h
        · exact Or.inr
      simp only [List.length_cons, this, ih']
      split
      · next hm =>
        have : 0 < rest.length := by
          cases rest with
          | nil => simp at hm
          | cons _ _ => simp
        omega
      · omega

/-! ## how the shell runs the test -/

/-- **Separate process**: the pre actions, the body and the post actions all run (in the child, in
    the same order, with the same verdict as in-process), and the calling process keeps its pointers
    and its table exactly as they were -/
theorem separate_process_leaves_caller_untouched (c : Chain) (s : Store) (body : List Stmt) :
    (runTestKind .separate c s body).store = s ∧
    (runTestKind .separate c s body).pre = (runTest c s body).pre ∧
    (runTestKind .separate c s body).post = (runTest c s body).post ∧
    (runTestKind .separate c s body).failed = (runTest c s body).failed := ⟨rfl, rfl, rfl, rfl⟩

/-- **An ignored test** runs neither its body nor any plugin action; **a run-ignored one** is an
    ordinary test -/
theorem ignored_test_runs_nothing (c : Chain) (s : Store) (body : List Stmt) :
    (runTestKind .ignored c s body).store = s ∧ (runTestKind .ignored c s body).pre = [] ∧
    (runTestKind .ignored c s body).post = [] ∧ (runTestKind .ignored c s body).failed = false ∧
    runTestKind .ignoredRun c s body = runTest c s body := ⟨rfl, rfl, rfl, rfl, rfl⟩

/-- **A plugin that reports a failure in its pre action** makes the test fail and stops nothing:
    the later plugins' pre actions, the whole body and every post action run exactly as if it were
    an ordinary plugin, so the pointers are restored all the same -/
theorem failing_pre_action_stops_nothing (c : Chain) (s : Store) (body : List Stmt)
    (h : preFails c = true) :
    (runTest c s body).failed = true ∧
    (runTest c s body).store = postStore c (runBody s 0 body).store ∧
    (runTest c s body).done = (runBody s 0 body).done ∧
    (runTest c s body).pre = runAllPre c ∧ (runTest c s body).post = (runAllPre c).reverse ∧
    (HasActiveSet c → s.table = [] → ∀ l, (runTest c s body).store.mem l = s.mem l) := by
  refine ⟨by simp [runTest, h], rfl, rfl, rfl, runAllPost_eq c, ?_⟩
  intro hset hempty l
  exact (restore_all c s body hset hempty).1 l

/-! ## changes of the chain while the registry runs -/

theorem names_runAllPre_subset (c : Chain) (n : String) (h : n ∈ runAllPre c) : n ∈ c.map (·.name) := by
  rw [runAllPre_eq] at h
  obtain ⟨q, hq, rfl⟩ := List.mem_map.mp h
  exact List.mem_map.mpr ⟨q, (List.mem_filter.mp hq).1, rfl⟩

/-- a scripted test that changes nothing is an ordinary test and leaves the chain as it was -/
theorem scripted_without_changes (c : Chain) (s : Store) (body : List Stmt) (actor : Nat) :
    runScripted c s ⟨body, .none, actor, .none⟩ = (runTest c s body, c) := by
  have h : effectiveBodyMut s ⟨body, .none, actor, .none⟩ = .none := by
    unfold effectiveBodyMut; split <;> rfl
  simp [runScripted, h, postChainAfterBody, applyMut, runTest]

/-- **Changes of the chain take effect from the next test.**  `runAllTests` hands every test the
    chain as it is when that test starts: the pre actions of test k are those of the chain at its
    start — whatever the test or a post action then installs or removes — and the pre actions of
    test k+1 are those of the chain test k left behind. -/
theorem chain_changes_take_effect_from_next_test (c : Chain) (s : Store) (t t₂ : ScriptedTest) :
    ((runAllTestsReg c s [t, t₂]).1.map (·.pre)) = [runAllPre c, runAllPre (runScripted c s t).2] ∧
    (runAllTestsReg c s [t]).2.1 = (runScripted c s t).2 := by
  simp [runAllTestsReg, runScripted]

/-- a plugin installed from the body of test k sees neither action of test k, and both actions of
    test k+1: first of all in the pre order, last of all in the post order -/
theorem installed_during_test_seen_from_next (c : Chain) (s s' : Store) (body b₂ : List Stmt) (p : Plugin)
    (a a₂ : Nat) (hov : (runBody s 0 body).overflow = false) (hen : p.enabled = true)
    (hfresh : p.name ∉ c.map (·.name)) (hid : c.any (fun q => q.id == p.id) = false) :
    p.name ∉ (runScripted c s ⟨body, .install p, a, .none⟩).1.pre ∧
    p.name ∉ (runScripted c s ⟨body, .install p, a, .none⟩).1.post ∧
    (runScripted c s ⟨body, .install p, a, .none⟩).2 = p :: c ∧
    (runScripted (p :: c) s' ⟨b₂, .none, a₂, .none⟩).1.pre = p.name :: runAllPre c ∧
    (runScripted (p :: c) s' ⟨b₂, .none, a₂, .none⟩).1.post = runAllPost c ++ [p.name] := by
  have h : effectiveBodyMut s ⟨body, .install p, a, .none⟩ = .install p := by
    simp [effectiveBodyMut, hov]
  have h2 : effectiveBodyMut s' ⟨b₂, .none, a₂, .none⟩ = .none := by
    unfold effectiveBodyMut; split <;> rfl
  refine ⟨?_, ?_, ?_, ?_, ?_⟩
  · simp only [runScripted]
    exact fun hm => hfresh (names_runAllPre_subset c _ hm)
  · simp only [runScripted, h, postChainAfterBody]
    rw [runAllPost_eq]
    intro hm
    exact hfresh (names_runAllPre_subset c _ (by simpa using hm))
  · simp [runScripted, h, postChainAfterBody, applyMut, install, actorActs, hid]
  · simp [runScripted, runAllPre, hen]
  · simp [runScripted, h2, postChainAfterBody, runAllPost, hen]

/-- a plugin removed by name from the body of test k (pairwise different names) sees nothing from
    test k+1 on; as for test k's own post action: the head of the chain still sees it (the walk
    starts at the head captured when the test started), any other plugin does not (its predecessor
    already skips it) -/
theorem removed_during_test_gone_from_next (c : Chain) (s s' : Store) (body b₂ : List Stmt) (name : String)
    (a a₂ : Nat) (hov : (runBody s 0 body).overflow = false) (hu : UniqueNames c) :
    (runScripted c s ⟨body, .remove name, a, .none⟩).2 = c.filter (fun q => q.name ≠ name) ∧
    name ∉ (runScripted (runScripted c s ⟨body, .remove name, a, .none⟩).2 s' ⟨b₂, .none, a₂, .none⟩).1.pre ∧
    name ∉ (runScripted (runScripted c s ⟨body, .remove name, a, .none⟩).2 s' ⟨b₂, .none, a₂, .none⟩).1.post ∧
    (∀ h rest, c = h :: rest → h.name = name →
      (runScripted c s ⟨body, .remove name, a, .none⟩).1.post = runAllPost c) ∧
    (∀ h rest, c = h :: rest → h.name ≠ name →
      (runScripted c s ⟨body, .remove name, a, .none⟩).1.post = runAllPost (c.filter (fun q => q.name ≠ name))) := by
  have h : effectiveBodyMut s ⟨body, .remove name, a, .none⟩ = .remove name := by
    simp [effectiveBodyMut, hov]
  have h2 : effectiveBodyMut s' ⟨b₂, .none, a₂, .none⟩ = .none := by
    unfold effectiveBodyMut; split <;> rfl
  have hc : (runScripted c s ⟨body, .remove name, a, .none⟩).2 = c.filter (fun q => q.name ≠ name) := by
    simp only [runScripted, h, applyMut]
    rw [remove_by_name_removes_exactly c name hu]
    split <;> rfl
  have hnot : name ∉ (c.filter (fun q => q.name ≠ name)).map (·.name) := not_mem_names_filter name c
  refine ⟨hc, ?_, ?_, ?_, ?_⟩
  · rw [hc]; simp only [runScripted]
    exact fun hm => hnot (names_runAllPre_subset _ _ hm)
  · rw [hc]; simp only [runScripted, h2, postChainAfterBody]
    rw [runAllPost_eq]
    exact fun hm => hnot (names_runAllPre_subset _ _ (by simpa using hm))
  · intro hd rest hcr hn
    subst hcr
    simp [runScripted, h, postChainAfterBody, hn]
  · intro hd rest hcr hn
    subst hcr
    simp only [runScripted, h, postChainAfterBody, hn, if_false]
    rw [remove_by_name_removes_exactly _ name hu]

/-- a change made FROM a post action does not alter who sees that test's post action (every frame of
    the post recursion exists before the first post action runs); it shows from the next test on -/
theorem change_from_post_action (c : Chain) (s : Store) (body : List Stmt) (actor : Nat) (m : Mut)
    (hact : actorActs c actor = true) :
    (runScripted c s ⟨body, .none, actor, m⟩).1.post = runAllPost c ∧
    (runScripted c s ⟨body, .none, actor, m⟩).2 = applyMut m c := by
  have h : effectiveBodyMut s ⟨body, .none, actor, m⟩ = .none := by
    unfold effectiveBodyMut; split <;> rfl
  simp [runScripted, h, postChainAfterBody, applyMut, hact]

/-! ## non-vacuity -/

def exChain : Chain := installAll
  [⟨0, "a", true, .recording⟩, ⟨1, "set", true, .setPointer⟩, ⟨2, "b", false, .recording⟩, ⟨3, "c", true, .recording⟩]

example : HasActiveSet exChain ∧ UniqueNames exChain := by
  refine ⟨⟨⟨1, "set", true, .setPointer⟩, by decide, rfl, rfl⟩, by unfold UniqueNames; decide⟩
example : runAllPre exChain = ["c", "set", "a"] ∧ runAllPost exChain = ["a", "set", "c"] := by decide
/-- the history of the constructor change: a test redirects pointer 1 while the plugin is disabled, a
    new plugin is constructed, the next test redirects pointer 1 again: it comes back to the value
    the first test left, not to the original one -/
example :
    let c₀ : Chain := [⟨99, "SetPointerPlugin", false, .setPointer⟩]
    let c₁ : Chain := [⟨100, "SetPointerPlugin", true, .setPointer⟩]
    let s₁ := (runTest c₀ { mem := fun l => l, table := [] } [.set 1 1001]).store
    s₁.table.length = 1 ∧ (runTest c₁ (construct s₁) [.set 1 1002]).store.mem 1 = 1001 := by decide
example : (regRemove "a" exChain).map (·.name) = ["c", "b", "set"] := by decide
example : (runTest exChain { mem := fun l => l, table := [] } [.set 3 100, .set 3 200, .set 5 7, .stop, .set 6 1]).store.mem 3 = 3 := by
  decide


/-! ## the regenerated code (`Gen/PluginCode.lean`, translated from the clang AST of the current source)

`storeA`, `postA`, `constructA`, `ptrSetA` execute the statement lists regenerated from `CppUTestStore`,
`SetPointerPlugin::postTestAction`, the `SetPointerPlugin` constructor and the `UT_PTR_SET` macro on the
array-level state `Tab` (`pointerTableIndex`, `setlist[]`, an out-of-bounds flag).  The theorems below
say that this code, as the source has it at check time, refines the list-level model the theorems above
are about, never evaluates `setlist[e]` outside the array, and — composed over whole test histories —
restores every pointer. -/

open Plugins.Code Gen.PluginCode

/-- the array is at least as long as the limit the guard of `CppUTestStore` compares with -/
theorem table_holds_limit : maxSet ≤ setlistLen := by decide

/-- **`CppUTestStore` as regenerated** refuses exactly when the list-level `store` refuses (and then
    changes nothing); otherwise it records exactly the entry `store` records, stays inside the array and
    keeps the state invariant. -/
theorem code_store_refines (t : Tab) (l : Loc) (h : WF t) :
    ((storeA t l).isFailed = true → store (absT t) l = none ∧ (storeA t l).tab = t) ∧
    ((storeA t l).isFailed = false → store (absT t) l = some (absT (storeA t l).tab) ∧ WF (storeA t l).tab) := by
  obtain ⟨h0, h1, h2⟩ := h
  have hlen := absT_table_length t h0
  have hm : maxSet = 32 := rfl
  by_cases hfull : t.idx ≥ 32
  · have hs : storeA t l = .failed t := by
      simp [storeA, storeCode, exec, execT, execS, evalC, evalI, hfull]
    rw [hs]
    refine ⟨fun _ => ⟨?_, rfl⟩, fun hc => by simp [Out.isFailed] at hc⟩
    unfold store
    have : (absT t).table.length ≥ maxSet := by omega
    simp [this]
  · have hb : inB setlistLen t.idx = true := by
      have hnf : t.idx < 32 := by omega
      simp [inB, setlistLen, h0, hnf]
    have hs : storeA t l = .ok { t with origValue := fupd t.origValue t.idx.toNat (t.mem l),
                                        orig := fupd t.orig t.idx.toNat l, idx := t.idx + 1 } := by
      simp [storeA, storeCode, exec, execT, execS, evalC, evalI, evalV, evalP, envFor, hfull, hb]
    rw [hs]
    refine ⟨fun hc => by simp [Out.isFailed] at hc, fun _ => ⟨?_, ?_⟩⟩
    · unfold store
      have : ¬ (absT t).table.length ≥ maxSet := by omega
      simp only [this, if_false, Out.tab]
      have e : (t.idx + 1).toNat = t.idx.toNat + 1 := by omega
      have hE : entries { t with origValue := fupd t.origValue t.idx.toNat (t.mem l),
                                 orig := fupd t.orig t.idx.toNat l, idx := t.idx + 1 } t.idx.toNat
                = entries t t.idx.toNat :=
        entries_congr t _ t.idx.toNat (fun k hk => by
          have : k ≠ t.idx.toNat := by omega
          simp [fupd, this])
      simp only [absT, e, entries, hE, fupd, if_true]
    · simp only [Out.tab, WF]
      exact ⟨by omega, by omega, h2⟩

/-- **`SetPointerPlugin::postTestAction` as regenerated** is the list-level `postAction`: it undoes the
    recorded entries from the most recent to the oldest, resets the index, and stays inside the array. -/
theorem code_post_refines (t : Tab) (h : WF t) : absT (postA t) = postAction (absT t) ∧ WF (postA t) := by
  obtain ⟨h0, h1, h2⟩ := h
  have hn : t.idx.toNat ≤ (envFor 0).len := by simp only [envFor, setlistLen, maxSet] at *; omega
  have hloop := execDown_restore (envFor 0) t.idx.toNat t hn
  have e1 : ((t.idx.toNat : Nat) : Int) - 1 = t.idx - 1 := by omega
  have e2 : (t.idx - 1 - 0 + 1).toNat = t.idx.toNat := by omega
  rw [e1] at hloop
  have hs : postA t = { t with mem := restore (entries t t.idx.toNat) t.mem, idx := 0 } := by
    simp only [postA, postCode, exec, execT, evalI, e2, hloop, execS, Out.tab]
  rw [hs]
  exact ⟨by simp [absT, postAction, entries], by simp [WF, h2, maxSet]⟩

/-- **the constructor as regenerated** only resets the index -/
theorem code_construct_refines (t : Tab) (h : WF t) :
    absT (constructA t) = construct (absT t) ∧ WF (constructA t) := by
  have hs : constructA t = { t with idx := 0 } := by
    simp [constructA, ctorCode, exec, execT, execS, evalI, Out.tab]
  rw [hs]
  exact ⟨by simp [absT, construct, entries], by simp [WF, h.2.2, maxSet]⟩

/-- **`UT_PTR_SET` as regenerated** (record first, then assign) is the list-level `ptrSet` -/
theorem code_ptrSet_refines (t : Tab) (l : Loc) (v : Val) (h : WF t) :
    ((ptrSetA t l v).isFailed = true → ptrSet (absT t) l v = none ∧ (ptrSetA t l v).tab = t) ∧
    ((ptrSetA t l v).isFailed = false →
      ptrSet (absT t) l v = some (absT (ptrSetA t l v).tab) ∧ WF (ptrSetA t l v).tab) := by
  have hs := code_store_refines t l h
  simp only [ptrSetA, utPtrSetSteps, macroA, ptrSet]
  cases hst : storeA t l with
  | failed t' =>
    rw [hst] at hs
    have := hs.1 rfl
    simp only [Out.tab] at this
    refine ⟨fun _ => ⟨by rw [this.1], this.2⟩, fun hc => by simp [Out.isFailed] at hc⟩
  | ok t' =>
    rw [hst] at hs
    have := hs.2 rfl
    simp only [Out.tab] at this
    refine ⟨fun hc => by simp [Out.isFailed] at hc, fun _ => ⟨?_, ?_⟩⟩
    · have hE : entries { t' with mem := update t'.mem l v } t'.idx.toNat = entries t' t'.idx.toNat :=
        entries_congr t' _ _ (fun _ _ => ⟨rfl, rfl⟩)
      rw [this.1]; simp [absT, Out.tab, hE]
    · exact this.2

/-- **a whole test body on the regenerated code** is the list-level body: same verdict, same number of
    redirections carried out, same memory and table, and the invariant (in particular: no access outside
    the array) holds at its end — for every body, any length, any targets -/
theorem code_body_refines : ∀ (body : List Stmt) (t : Tab) (n : Nat), WF t →
    absT (runBodyA t n body).tab = (runBody (absT t) n body).store ∧
    (runBodyA t n body).failed = (runBody (absT t) n body).failed ∧
    (runBodyA t n body).overflow = (runBody (absT t) n body).overflow ∧
    (runBodyA t n body).done = (runBody (absT t) n body).done ∧ WF (runBodyA t n body).tab
  | [], _, _, h => ⟨rfl, rfl, rfl, rfl, h⟩
  | .stop :: _, _, _, h => ⟨rfl, rfl, rfl, rfl, h⟩
  | .set l v :: rest, t, n, h => by
    have hp := code_ptrSet_refines t l v h
    unfold runBodyA runBody
    cases hst : ptrSetA t l v with
    | failed t' =>
      rw [hst] at hp
      have := hp.1 rfl
      simp only [Out.tab] at this
      rw [this.1]
      simp [this.2, h]
    | ok t' =>
      rw [hst] at hp
      have := hp.2 rfl
      simp only [Out.tab] at this
      rw [this.1]
      simp only
      exact code_body_refines rest t' (n + 1) this.2

/-- **Restore, on the code as it is at check time.**  A test that starts with an empty table and runs
    with an enabled pointer plugin: whatever its body does, after the regenerated `postTestAction` every
    location holds the value from before the test, the index is 0 and no `setlist[e]` was evaluated
    outside the array. -/
theorem restore_all_code (t : Tab) (body : List Stmt) (h : WF t) (hempty : t.idx = 0) :
    (∀ l, (runTestA true t body).mem l = t.mem l) ∧ (runTestA true t body).idx = 0 ∧
    (runTestA true t body).oob = false := by
  obtain ⟨hb, _, _, _, hw⟩ := code_body_refines body t 0 h
  obtain ⟨hp, hw'⟩ := code_post_refines (runBodyA t 0 body).tab hw
  have hinv := runBody_restore_inv body (absT t) 0
  have hm : (absT (runTestA true t body)).mem = restore (absT t).table (absT t).mem := by
    simp only [runTestA, if_true]
    rw [hp, hb]
    simp [postAction, hinv]
  have htab : (absT t).table = [] := by simp [absT, hempty, entries]
  rw [htab] at hm
  refine ⟨fun l => ?_, ?_, hw'.2.2⟩
  · have := congrFun hm l
    simpa [absT, restore] using this
  · have hs : postA (runBodyA t 0 body).tab = runTestA true t body := by simp [runTestA]
    have := congrArg (fun s => s.table.length) hp
    simp only [absT, postAction, entries_length, List.length_nil] at this
    rw [← hs]
    have h0 := hw'.1
    omega

/-- consecutive tests on the array-level state, each with or without an active pointer plugin -/
def runTestsA (t : Tab) : List (Bool × List Stmt) → Tab
  | [] => t
  | (active, b) :: rest => runTestsA (runTestA active t b) rest

/-- **Nothing is ever written past the table**: over any history of tests — any bodies, any number of
    redirections (also more than the limit), with the pointer plugin active, inactive or absent in any
    pattern, so that entries pile up across tests — the regenerated code never evaluates `setlist[e]`
    outside the array and the index stays within `0 .. MAX_SET`. -/
theorem never_past_the_table : ∀ (tests : List (Bool × List Stmt)) (t : Tab), WF t → WF (runTestsA t tests)
  | [], _, h => h
  | (active, b) :: rest, t, h => by
    have hw := (code_body_refines b t 0 h).2.2.2.2
    have : WF (runTestA active t b) := by
      unfold runTestA
      cases active
      · simpa using hw
      · simpa using (code_post_refines _ hw).2
    exact never_past_the_table rest _ this

/-- **whole histories on the code**: with the pointer plugin active for every test, after any number of
    consecutive tests the memory is the initial one -/
theorem consecutive_tests_code : ∀ (bodies : List (List Stmt)) (t : Tab), WF t → t.idx = 0 →
    (∀ l, (runTestsA t (bodies.map (fun b => (true, b)))).mem l = t.mem l) ∧
    (runTestsA t (bodies.map (fun b => (true, b)))).idx = 0
  | [], _, _, h0 => ⟨fun _ => rfl, h0⟩
  | b :: rest, t, h, h0 => by
    obtain ⟨h1, h2, h3⟩ := restore_all_code t b h h0
    have hw : WF (runTestA true t b) := never_past_the_table [(true, b)] t h
    obtain ⟨h4, h5⟩ := consecutive_tests_code rest (runTestA true t b) hw h2
    exact ⟨fun l => by simp only [List.map_cons, runTestsA]; rw [h4 l, h1 l], by simpa [runTestsA] using h5⟩

/-- **the chain walks as regenerated** (`runAllPreTestAction`: own action then `next_`;
    `runAllPostTestAction`: `next_` then own action; both guarded by `enabled_`; the sentinel's overrides
    are empty) are the list-level `runAllPre` / `runAllPost` the order theorems are about -/
theorem code_walks_are_model (c : Chain) : runAllPreA c = runAllPre c ∧ runAllPostA c = runAllPost c := by
  induction c with
  | nil => exact ⟨rfl, rfl⟩
  | cons p rest ih =>
    simp only [runAllPreA, runAllPostA, preSteps, postSteps] at ih
    simp [runAllPreA, runAllPostA, walk, preSteps, postSteps, runAllPre, runAllPost, ih.1, ih.2]

/-- so, on the code as it is at check time: post order is the exact reverse of pre order, and after
    installing `ps` the pre actions run last-installed first over the enabled plugins -/
theorem code_order (ps : List Plugin) (c : Chain) :
    runAllPostA c = (runAllPreA c).reverse ∧
    runAllPreA (installAll ps) = ((ps.filter (·.enabled)).map (·.name)).reverse := by
  rw [(code_walks_are_model c).1, (code_walks_are_model c).2, (code_walks_are_model _).1]
  exact ⟨post_order_is_reverse_of_pre c, pre_order_is_install_reversed ps⟩

example : WF (Tab.init (fun l => l)) := by simp [WF, Tab.init, maxSet]
/-- 33 redirections of one pointer on the regenerated code: the last one is refused, nothing leaves the array,
    the pointer comes back -/
example :
    let body := (List.replicate 33 (Stmt.set 5 77)) ++ [.set 6 1]
    (runBodyA (Tab.init (fun l => l)) 0 body).overflow = true ∧ (runBodyA (Tab.init (fun l => l)) 0 body).done = 32 ∧
    (runBodyA (Tab.init (fun l => l)) 0 body).tab.oob = false ∧ (runBodyA (Tab.init (fun l => l)) 0 body).tab.mem 5 = 77 ∧
    (runTestA true (Tab.init (fun l => l)) body).mem 5 = 5 ∧ (runTestA true (Tab.init (fun l => l)) body).idx = 0 := by
  decide
example : runAllPreA exChain = ["c", "set", "a"] ∧ runAllPostA exChain = ["a", "set", "c"] := by decide


/-! ## redirections in `setup()`, the body and `teardown()` -/

theorem andThen_restore_inv (r : BodyResult) (next : List Stmt) :
    restore (r.andThen next).store.table (r.andThen next).store.mem = restore r.store.table r.store.mem :=
  runBody_restore_inv next r.store r.done

/-- the invariant of `Utest::run`: undoing the table after the three phases gives the memory from which
    the table was started — whichever phases ran, failed, threw or hit the limit -/
theorem phases_restore_inv (s : Store) (t : Phases) :
    restore (runPhases s t).store.table (runPhases s t).store.mem = restore s.table s.mem := by
  unfold runPhases
  rw [andThen_restore_inv]
  split
  · exact runBody_restore_inv t.setup s 0
  · rw [andThen_restore_inv]; exact runBody_restore_inv t.setup s 0

/-- **Restore, for redirections made anywhere in the test**: in `setup()`, in the body, in `teardown()`
    — any number in each, repeated targets, any phase ending by a failure or an exception, the table
    filling up in any phase — with an enabled pointer plugin and an empty table at the start every location
    holds its old value after the post actions, and the table is empty. -/
theorem restore_all_phases (c : Chain) (s : Store) (t : Phases) (hset : HasActiveSet c) (hempty : s.table = []) :
    (∀ l, (runTestP c s t).store.mem l = s.mem l) ∧ (runTestP c s t).store.table = [] := by
  have hb := (hasActiveSetB_iff c).mpr hset
  have hinv := phases_restore_inv s t
  simp only [runTestP, postStore_eq, hb, if_true, postAction]
  rw [hinv, hempty]
  simp [restore]

/-- … over any number of consecutive tests -/
theorem consecutive_tests_independent_phases (c : Chain) (hset : HasActiveSet c) :
    ∀ (tests : List Phases) (s : Store), s.table = [] →
      (∀ l, (runTestsP c s tests).mem l = s.mem l) ∧ (runTestsP c s tests).table = []
  | [], _, h => ⟨fun _ => rfl, h⟩
  | t :: rest, s, h => by
    obtain ⟨h1, h2⟩ := restore_all_phases c s t hset h
    obtain ⟨h3, h4⟩ := consecutive_tests_independent_phases c hset rest (runTestP c s t).store h2
    exact ⟨fun l => by rw [runTestsP, h3 l, h1 l], h4⟩

/-- the table never grows past the limit in any phase, and every redirection carried out is recorded -/
theorem phases_table_length (s : Store) (t : Phases) (h : s.table.length ≤ maxSet) :
    (runPhases s t).store.table.length = s.table.length + (runPhases s t).done ∧
    (runPhases s t).store.table.length ≤ maxSet := by
  have h1 := runBody_table_length t.setup s 0
  unfold runPhases
  split
  · have h3 := runBody_table_length t.teardown (runBody s 0 t.setup).store (runBody s 0 t.setup).done
    simp only [BodyResult.andThen]
    exact ⟨by omega, h3.2 (h1.2 h)⟩
  · have h2 := runBody_table_length t.body (runBody s 0 t.setup).store (runBody s 0 t.setup).done
    have h3 := runBody_table_length t.teardown ((runBody s 0 t.setup).andThen t.body).store
      ((runBody s 0 t.setup).andThen t.body).done
    simp only [BodyResult.andThen] at h3 ⊢
    exact ⟨by omega, h3.2 (h2.2 (h1.2 h))⟩

/-- **a failing `setup()` skips the body, never `teardown()`**: the redirections of `teardown()` are
    carried out (or refused at the limit) on what `setup()` left; a test that redirects only in its body is
    the body-only test of the theorems above -/
theorem failed_setup_skips_body_only (s : Store) (t : Phases) :
    ((runBody s 0 t.setup).failed = true → runPhases s t = (runBody s 0 t.setup).andThen t.teardown) ∧
    ((runBody s 0 t.setup).failed = false →
      runPhases s t = ((runBody s 0 t.setup).andThen t.body).andThen t.teardown) ∧
    (runPhases s ⟨[], t.body, []⟩).store = (runBody s 0 t.body).store ∧
    (runPhases s ⟨[], t.body, []⟩).done = (runBody s 0 t.body).done ∧
    (runPhases s ⟨[], t.body, []⟩).failed = (runBody s 0 t.body).failed := by
  refine ⟨fun h => by simp [runPhases, h], fun h => by simp [runPhases, h], ?_, ?_, ?_⟩ <;>
    simp [runPhases, runBody, BodyResult.andThen]

/-- a table filled in `setup()` makes the first redirection of `teardown()` fail the test without
    writing anything -/
theorem limit_reached_in_setup_refuses_teardown (s : Store) (t : Phases) (l : Loc) (v : Val) (rest : List Stmt)
    (hfull : (runBody s 0 t.setup).store.table.length = maxSet) (hfail : (runBody s 0 t.setup).failed = true)
    (ht : t.teardown = .set l v :: rest) :
    (runPhases s t).overflow = true ∧ (runPhases s t).store = (runBody s 0 t.setup).store ∧
    (runPhases s t).done = (runBody s 0 t.setup).done := by
  have hb := beyond_limit_fails_no_write (runBody s 0 t.setup).store l v rest (runBody s 0 t.setup).done (by omega)
  simp only [runPhases, hfail, if_true, BodyResult.andThen, ht]
  refine ⟨by simp [hb.2.2.1], ?_, hb.2.2.2.2.2⟩
  have h1 := hb.2.2.2.1
  have h2 := hb.2.2.2.2.1
  cases hs : (runBody (runBody s 0 t.setup).store (runBody s 0 t.setup).done (Stmt.set l v :: rest)).store
  rw [hs] at h1 h2
  simp only at h1 h2
  cases hs0 : (runBody s 0 t.setup).store
  rw [hs0] at h1 h2
  simp only at h1 h2
  rw [h1, h2]

/-- the phases on the regenerated code refine the list-level phases -/
theorem code_phases_refine (t : Tab) (p : Phases) (h : WF t) :
    absT (runPhasesA t p).tab = (runPhases (absT t) p).store ∧
    (runPhasesA t p).failed = (runPhases (absT t) p).failed ∧
    (runPhasesA t p).overflow = (runPhases (absT t) p).overflow ∧
    (runPhasesA t p).done = (runPhases (absT t) p).done ∧ WF (runPhasesA t p).tab := by
  obtain ⟨a1, a2, a3, a4, a5⟩ := code_body_refines p.setup t 0 h
  have step : ∀ (r : BodyResultA) (r' : BodyResult) (next : List Stmt), absT r.tab = r'.store → r.failed = r'.failed →
      r.overflow = r'.overflow → r.done = r'.done → WF r.tab →
      absT (r.andThen next).tab = (r'.andThen next).store ∧ (r.andThen next).failed = (r'.andThen next).failed ∧
      (r.andThen next).overflow = (r'.andThen next).overflow ∧ (r.andThen next).done = (r'.andThen next).done ∧
      WF (r.andThen next).tab := by
    intro r r' next e1 e2 e3 e4 hw
    obtain ⟨b1, b2, b3, b4, b5⟩ := code_body_refines next r.tab r.done hw
    simp only [BodyResultA.andThen, BodyResult.andThen]
    rw [← e1, ← e4]
    exact ⟨b1, by rw [e2, b2], by rw [e3, b3], b4, b5⟩
  unfold runPhasesA runPhases
  rw [a2]
  split
  · exact step _ _ p.teardown a1 a2 a3 a4 a5
  · obtain ⟨c1, c2, c3, c4, c5⟩ := step _ _ p.body a1 a2 a3 a4 a5
    exact step _ _ p.teardown c1 c2 c3 c4 c5

/-- **Restore for redirections in every phase, on the code as it is at check time** -/
theorem restore_all_phases_code (t : Tab) (p : Phases) (h : WF t) (hempty : t.idx = 0) :
    (∀ l, (runTestPA true t p).mem l = t.mem l) ∧ (runTestPA true t p).oob = false := by
  obtain ⟨hb, _, _, _, hw⟩ := code_phases_refine t p h
  obtain ⟨hp, hw'⟩ := code_post_refines (runPhasesA t p).tab hw
  have hinv := phases_restore_inv (absT t) p
  have hm : (absT (runTestPA true t p)).mem = restore (absT t).table (absT t).mem := by
    simp only [runTestPA, if_true]
    rw [hp, hb]
    simp [postAction, hinv]
  have htab : (absT t).table = [] := by simp [absT, hempty, entries]
  rw [htab] at hm
  refine ⟨fun l => ?_, ?_⟩
  · have := congrFun hm l
    simpa [absT, restore] using this
  · simpa [runTestPA] using hw'.2.2

/-- setup fills the table to the limit and fails; teardown's redirection is refused; everything comes back -/
example :
    let t : Phases := ⟨(List.replicate 33 (Stmt.set 2 9)), [.set 3 1], [.set 4 1, .set 2 8]⟩
    let s : Store := { mem := fun l => l, table := [] }
    (runPhases s t).done = 32 ∧ (runPhases s t).overflow = true ∧ (runPhases s t).store.mem 3 = 3 ∧
    (runPhases s t).store.mem 4 = 4 ∧ (runPhases s t).store.mem 2 = 9 ∧ (runTestP exChain s t).store.mem 2 = 2 := by
  decide
/-- setup redirects and throws, the body is skipped, teardown redirects the same pointer again -/
example :
    let t : Phases := ⟨[.set 2 9, .stop], [.set 3 1], [.set 2 8]⟩
    let s : Store := { mem := fun l => l, table := [] }
    (runPhases s t).done = 2 ∧ (runPhases s t).store.mem 3 = 3 ∧ (runPhases s t).store.mem 2 = 8 ∧
    (runTestP exChain s t).store.mem 2 = 2 := by decide

/-! ## the command-line runner -/

theorem cliPlugin_active (id : Nat) (c : Chain) : HasActiveSet (install c (cliPlugin id)) :=
  ⟨cliPlugin id, by simp [install], rfl, rfl⟩

theorem runRepeated_restores (c : Chain) (hset : HasActiveSet c) (bodies : List (List Stmt)) :
    ∀ (n : Nat) (s : Store), s.table = [] →
      (∀ l, (runRepeated c s n bodies).mem l = s.mem l) ∧ (runRepeated c s n bodies).table = []
  | 0, _, h => ⟨fun _ => rfl, h⟩
  | n + 1, s, h => by
    obtain ⟨h1, h2⟩ := consecutive_tests_independent c hset bodies s h
    obtain ⟨h3, h4⟩ := runRepeated_restores c hset bodies n (runTests c s bodies) h2
    exact ⟨fun l => by rw [runRepeated, h3 l, h1 l], h4⟩

/-- **A run through the command-line runner restores everything, with no hypothesis at all**: whatever
    plugins the registry holds (none, disabled ones, another pointer plugin), whatever earlier tests left
    recorded in the table, for any number of repetitions of any list of tests with any bodies and outcomes —
    the runner's own freshly constructed plugin starts with an empty table and sees every post action, so
    after the run every location holds the value it had before the run and the table is empty. -/
theorem cli_run_restores (id : Nat) (c : Chain) (s : Store) (n : Nat) (bodies : List (List Stmt)) :
    (∀ l, (runCli id c s n bodies).2.mem l = s.mem l) ∧ (runCli id c s n bodies).2.table = [] :=
  runRepeated_restores (install c (cliPlugin id)) (cliPlugin_active id c) bodies n (construct s) rfl

/-- … and every single test of every repetition is restored (not only the run as a whole): the store
    between any two tests of the run is the memory from before the run with an empty table -/
theorem cli_every_test_restored (id : Nat) (c : Chain) (s : Store) (before : List (List Stmt)) (body : List Stmt) :
    (∀ l, (runTest (install c (cliPlugin id)) (runTests (install c (cliPlugin id)) (construct s) before) body).store.mem l
        = s.mem l) ∧
    (runTest (install c (cliPlugin id)) (runTests (install c (cliPlugin id)) (construct s) before) body).store.table = [] := by
  have hset := cliPlugin_active id c
  obtain ⟨h1, h2⟩ := consecutive_tests_independent _ hset before (construct s) rfl
  obtain ⟨h3, h4⟩ := restore_all _ _ body hset h2
  exact ⟨fun l => by rw [h3 l, h1 l]; rfl, h4⟩

/-- **The runner leaves the registry's chain as it found it**: its remove-by-name removes exactly the plugin
    it installed, provided no installed plugin carries the runner's name (pairwise different names). -/
theorem cli_run_leaves_chain (id : Nat) (c : Chain) (s : Store) (n : Nat) (bodies : List (List Stmt))
    (hu : UniqueNames c) (hfree : Gen.Plugins.cliSetPointerName ∉ c.map (·.name)) :
    (runCli id c s n bodies).1 = c := by
  have hu' : UniqueNames (install c (cliPlugin id)) := by
    simp only [install, UniqueNames, List.map_cons, List.nodup_cons]
    exact ⟨hfree, hu⟩
  exact install_remove_roundtrip c (cliPlugin id) hu'

/-- stale entries and a full table before the run do not matter: 40 redirections recorded by a test that ran
    without a plugin, then a run of two tests three times over -/
example :
    let s₀ := (runTest [] { mem := fun l => l, table := [] } (setsOf ((List.range 40).map (fun i => (i % 3, 100 + i))))).store
    s₀.table.length = 32 ∧
    (runCli 98 exChain s₀ 3 [[.set 1 7, .set 1 8, .stop], [.set 2 9]]).2.table = [] ∧
    (runCli 98 exChain s₀ 3 [[.set 1 7, .set 1 8, .stop], [.set 2 9]]).2.mem 1 = s₀.mem 1 := by decide

end Plugins
