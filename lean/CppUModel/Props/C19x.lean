import CppUModel.Props.C19
import CppUModel.Model.Mock
/-!
# C19x — the abstract C++ mock of C19 instantiated with the C08 model

`Props/C19.lean` proves `C run ≡ C++ run` over ANY C++ mock that is `Lawful` (and, for the decidable class
`Aligned`, obeys `ScopeLaws`).  Here the parameter is instantiated with the C08 model of the mocking core
(`Model/Mock.lean`: `Mock.Scope` = one `MockSupport` with its expectation list, call order and the call in flight
`last`; `Scope.expectN`, `Exp.addSeg`, `Scope.actualCall`, `Scope.seg`, `Scope.checkLast`, `returnValueOf`,
`checkLasts`, `Scope.clear` are used as they are), and the hypotheses are DISCHARGED for it:

* `m08_lawful : Lawful M08` and `m08_scopeLaws : ScopeLaws M08`;
* hence `c08_c_run_eq_cpp_run`: for every scenario in the decidable class `Aligned`, the C interface over the C08
  model and the C++ program over the C08 model end in the same world (scopes, expectation lists, calls in flight,
  first failure) and return the same values;
* `m08_call_is_scope_call` / `m08_check_is_world_check`: what the instance computes for an actual-call statement and for
  `checkExpectations` on the global mock IS what C08's theorems talk about (`Scope.actualCall` + `segsLoop`,
  `World.check`), so C08's verdict theorems apply to the C run.

The world of the instance is an association list scope name ↦ `Mock.Scope` ("" = the global mock) plus the first
failure delivered to the reporter.  A handle of an actual call is the scope it is the call in flight of (`none` = the
ignored-call object); a handle of an expected call is (scope, position in the expectation list).
Members the C08 model has no counterpart for (data store, custom types, crashOnFailure, value types outside
`Mock.Val`) are no-ops of the instance.
-/
namespace MockC.X08
open MockC

/-! ## the world -/

structure W where
  scopes : List (String × Mock.Scope) := []
  fail   : Option String := none
deriving Repr, Inhabited

def glob (w : W) : Mock.Scope := (w.scopes.lookup "").getD (Mock.Scope.fresh "")

/-- `getMockSupportScope` / `clone`: a scope that does not exist yet takes strict / ignoreOtherCalls / enabled from
    the global mock -/
def get (w : W) (s : String) : Mock.Scope :=
  match w.scopes.lookup s with
  | some sc => sc
  | none => if s = "" then Mock.Scope.fresh "" else
      { Mock.Scope.fresh s with strict := (glob w).strict, ioc := (glob w).ioc, enabled := (glob w).enabled }

def set (w : W) (s : String) (sc : Mock.Scope) : W :=
  { w with scopes := (s, sc) :: w.scopes.filter (fun p => p.1 != s) }

def addFail (w : W) (f : Option String) : W :=
  { w with fail := match w.fail with | some m => some m | none => f }

/-- all scopes a call on `s` covers, by name: the global mock covers every scope -/
def coveredNames (w : W) (s : String) : List String :=
  if s = "" then "" :: (w.scopes.map (·.1)).filter (· != "") else [s]

def setMany (w : W) : List (String × Mock.Scope) → W
  | [] => w
  | (n, sc) :: rest => setMany (set w n sc) rest

/-! ## values -/

def natOf (v : Val) : Nat :=
  match v with
  | .int i => i.toNat
  | .tok t => t.toNat?.getD 0
  | .bool b => if b then 1 else 0

def strOf : Val → String
  | .tok t => t
  | .int i => toString i
  | .bool b => toString b

def bytesOf (v : Val) : List UInt8 := (strOf v).toUTF8.toList

/-- the C++ value an argument of type `ty` stands for in the C08 model -/
def valOf (ty : String) (v : Val) : Option Mock.Val :=
  if ty = "int" then (match v with | .int i => some (.int i) | _ => none)
  else if ty = "uint" then some (.uint (natOf v))
  else if ty = "bool" then (match v with | .bool b => some (.bool b) | _ => none)
  else if ty = "string" then some (.str (bytesOf v))
  else if ty = "ptr" then some (.ptr (natOf v))
  else if ty = "cptr" then some (.cptr (natOf v))
  else none

def tys : List String := ["int", "uint", "bool", "string", "ptr", "cptr"]

/-- modifier of an expected call -/
def esegOf (meth : String) (args : List Val) : Option Mock.ESeg :=
  match args with
  | [n, v] =>
    match tys.find? (fun t => meth = "withParameter(string," ++ t ++ ")") with
    | some t => (valOf t v).map (fun x => .inp (strOf n) x)
    | none => none
  | [n, b, sz] =>
    if meth = "withParameter(string,membuf,size)" then some (.inp (strOf n) (.mem ((bytesOf b).take (natOf sz))))
    else if meth = "withOutputParameterReturning(string,cptr,size)" then some (.out (strOf n) ((bytesOf b).take (natOf sz)))
    else none
  | [v] =>
    match tys.find? (fun t => meth = "andReturnValue(" ++ t ++ ")") with
    | some t => (valOf t v).map (fun x => .ret x)
    | none => none
  | [] => if meth = "ignoreOtherParameters()" then some .iop else none
  | _ => none

/-- step of an actual call -/
def segOf (meth : String) (args : List Val) : Option Mock.Seg :=
  match args with
  | [n, v] =>
    if meth = "withOutputParameter(string,ptr)" then some (.out (strOf n))
    else match tys.find? (fun t => meth = "withParameter(string," ++ t ++ ")") with
      | some t => (valOf t v).map (fun x => .inp (strOf n) x)
      | none => none
  | [n, b, sz] =>
    if meth = "withParameter(string,membuf,size)" then some (.inp (strOf n) (.mem ((bytesOf b).take (natOf sz)))) else none
  | _ => none

def payloadOf : Mock.Val → Val
  | .int v => .int v
  | .uint v => .int v
  | .bool b => .bool b
  | .str b => .tok (toString b)
  | .ptr a => .tok (toString a)
  | .cptr a => .tok (toString a)
  | .mem b => .tok (toString b)

def typeOf : Mock.Val → String
  | .int _ => "int" | .uint _ => "unsigned int" | .bool _ => "bool" | .str _ => "const char*"
  | .ptr _ => "void*" | .cptr _ => "const void*" | .mem _ => "const unsigned char*"

/-! ## the operations -/

abbrev EC := Option (String × Nat)
abbrev AC := Option String

/-- `mock(scope)`: creates the scope on first use -/
def opMock (w : W) (s : String) : W :=
  match w.scopes.lookup s with
  | some _ => w
  | none => set w s (get w s)

/-- the return-value getters of an actual call (`MockCheckedActualCall::returnValue()` finishes the call first) -/
def acGetter (w : W) (a : AC) (meth : String) : W × Res EC AC :=
  match a with
  | none => (w, if meth = signature "hasReturnValue" [] then .val (.bool false) else .val (.int 0))
  | some s =>
    match ((get w s).checkLast) with
    | (sc1, f) =>
      let w1 := addFail (set w s sc1) f
      match f with
      | some _ => (w1, .unit)
      | none =>
        let rv := Mock.returnValueOf sc1.es
        if meth = signature "hasReturnValue" [] then (w1, .val (.bool rv.isSome))
        else if meth = signature "returnValue" [] then
          (w1, .named (match rv with | some v => ⟨typeOf v, payloadOf v⟩ | none => ⟨"int", .int 0⟩))
        else (w1, .val (match rv with | some v => payloadOf v | none => .int 0))

def actSigs : List String := Req.bridgePairs.map (fun p => signature p.2 [])
def supSigs : List String := Req.bridgePairs.map (fun p => signature p.1 [])

/-- the actual-call getter a support-level getter delegates to (`MockSupport::xReturnValue()` is
    `returnValue().getX()` of `lastActualFunctionCall_`) -/
def actSigOf (sig : String) : String :=
  match Req.bridgePairs.find? (fun p => signature p.1 [] = sig) with
  | some p => signature p.2 []
  | none => sig

def last (w : W) (s : String) : Option AC :=
  match (get w s).last with
  | some _ => some (some s)
  | none => none

def checkCovered (w : W) (s : String) : W × List Mock.Scope × Option String :=
  let names := coveredNames w s
  match Mock.checkLasts (names.map (get w)) with
  | (scs, f) => (addFail (setMany w (names.zip scs)) f, scs, f)

inductive SupOp
  | getter | expectOne | expectN | expectNo | actual | strict | ignore | disable | enable | check | left | clear | other
deriving DecidableEq, Repr

def classify (meth : String) : SupOp :=
  if meth ∈ supSigs then .getter
  else if meth = "expectOneCall(string)" then .expectOne
  else if meth = "expectNCalls(uint,string)" then .expectN
  else if meth = "expectNoCall(string)" then .expectNo
  else if meth = sigActualCall then .actual
  else if meth = "strictOrder()" then .strict
  else if meth = sigIgnoreOtherCalls then .ignore
  else if meth = sigDisable then .disable
  else if meth = "enable()" then .enable
  else if meth = "checkExpectations()" then .check
  else if meth = "expectedCallsLeft()" then .left
  else if meth = sigClear then .clear
  else .other

def noLast (meth : String) : Res EC AC :=
  if meth = signature "hasReturnValue" [] then .val (.bool false)
  else if meth = signature "returnValue" [] then .named ⟨"int", .int 0⟩ else .val (.int 0)

def opActual (w : W) (s fn : String) : W × Res EC AC :=
  (addFail (set w s ((get w s).actualCall fn).sc) ((get w s).actualCall fn).fail,
   .ac (if ((get w s).actualCall fn).ignored then none else some s))

def opCheck (w : W) (s : String) : W × Res EC AC :=
  match (checkCovered w s).2.2 with
  | some _ => ((checkCovered w s).1, .unit)
  | none =>
    if (checkCovered w s).2.1.any Mock.Scope.hasUnfulfilled then (addFail (checkCovered w s).1 (some Mock.msgUnfulfilled), .unit)
    else if (checkCovered w s).2.1.any Mock.Scope.hasOutOfOrder then (addFail (checkCovered w s).1 (some Mock.msgOutOfOrder), .unit)
    else ((checkCovered w s).1, .unit)

def opLeft (w : W) (s : String) : W × Res EC AC :=
  match (checkCovered w s).2.2 with
  | some _ => ((checkCovered w s).1, .unit)
  | none => ((checkCovered w s).1, .val (.bool ((checkCovered w s).2.1.any Mock.Scope.hasUnfulfilled)))

def opClear (w : W) (s : String) : W :=
  if s = "" then { w with scopes := [("", (get w "").clear)] } else set w s (get w s).clear

def opSupC (w : W) (s : String) (meth : String) (args : List Val) : SupOp → W × Res EC AC
  | .getter =>
    match last w s with
    | some a => acGetter w a (actSigOf meth)
    | none => (w, noLast meth)
  | .expectOne =>
    (set w s ((get w s).expectN 1 (strOf (args.getD 0 (.tok ""))) []),
     .ec (if (get w s).enabled then some (s, (get w s).es.length) else none))
  | .expectN =>
    (set w s ((get w s).expectN (natOf (args.getD 0 (.int 0))) (strOf (args.getD 1 (.tok ""))) []),
     .ec (if (get w s).enabled then some (s, (get w s).es.length) else none))
  | .expectNo => (set w s ((get w s).expectN 0 (strOf (args.getD 0 (.tok ""))) []), .unit)
  | .actual => opActual w s (strOf (args.getD 0 (.tok "")))
  | .strict => (set w s { get w s with strict := true }, .unit)
  | .ignore => (setMany w ((coveredNames w s).map (fun n => (n, (fun sc : Mock.Scope => { sc with ioc := true }) (get w n)))), .unit)
  | .disable => (setMany w ((coveredNames w s).map (fun n => (n, (fun sc : Mock.Scope => { sc with enabled := false }) (get w n)))), .unit)
  | .enable => (setMany w ((coveredNames w s).map (fun n => (n, (fun sc : Mock.Scope => { sc with enabled := true }) (get w n)))), .unit)
  | .check => opCheck w s
  | .left => opLeft w s
  | .clear => (opClear w s, .unit)
  | .other => (w, .unit)

def opSup (w : W) (s : String) (meth : String) (args : List Val) : W × Res EC AC :=
  opSupC w s meth args (classify meth)

def opEc (w : W) (e : EC) (meth : String) (args : List Val) : W × Res EC AC :=
  match e with
  | none => (w, .ec none)
  | some (s, idx) =>
    match esegOf meth args with
    | some g => (set w s { get w s with es := (get w s).es.modify idx (fun x => x.addSeg g) }, .ec e)
    | none => (w, .ec e)

def opAc (w : W) (a : AC) (meth : String) (args : List Val) : W × Res EC AC :=
  if meth ∈ actSigs then acGetter w a meth
  else
    match a with
    | none => (w, .ac none)
    | some s =>
      match segOf meth args with
      | some g =>
        match (get w s).seg [] g with
        | (sc1, f) => (addFail (set w s sc1) f, .ac a)
      | none => (w, .ac a)

/-- the C08 model as the C++ mock of C19 -/
@[reducible] def M08 : CppMock where
  M := W
  EC := EC
  AC := AC
  mock := opMock
  sup := opSup
  ec := opEc
  ac := opAc
  stopped := fun w => w.fail.isSome
  last := last


/-! ## lemmas about the association list -/

theorem lookup_filter_ne (l : List (String × Mock.Scope)) (s s' : String) (h : s' ≠ s) :
    (l.filter (fun p => p.1 != s)).lookup s' = l.lookup s' := by
  induction l with
  | nil => rfl
  | cons p rest ih =>
    by_cases hp : p.1 = s
    · have : (p.1 != s) = false := by simp [hp]
      have hne : (s' == p.1) = false := by simp [hp, h]
      simp only [List.filter_cons, this, Bool.false_eq_true, if_false, ih]
      cases p with | mk k v => simp only [List.lookup_cons] at hne ⊢; simp [hne]
    · have : (p.1 != s) = true := by simp [hp]
      simp only [List.filter_cons, this, if_true]
      cases p with | mk k v => simp only [List.lookup_cons, ih]

theorem lookup_set_same (w : W) (s : String) (sc : Mock.Scope) : (set w s sc).scopes.lookup s = some sc := by
  simp [set]

theorem lookup_set_other (w : W) (s s' : String) (sc : Mock.Scope) (h : s' ≠ s) :
    (set w s sc).scopes.lookup s' = w.scopes.lookup s' := by
  have hne : (s' == s) = false := by simp [h]
  simp only [set, List.lookup_cons, hne]
  exact lookup_filter_ne w.scopes s s' h

theorem get_set_same (w : W) (s : String) (sc : Mock.Scope) : get (set w s sc) s = sc := by
  simp [get, lookup_set_same]

/-- a field that every freshly cloned scope has the same value of, and that `sc` agrees on with the scope it replaces,
    is not changed anywhere by `set` -/
theorem get_set_last (w : W) (s s' : String) (sc : Mock.Scope) (h : sc.last.isSome = (get w s).last.isSome) :
    (get (set w s sc) s').last.isSome = (get w s').last.isSome := by
  by_cases hs : s' = s
  · subst hs; rw [get_set_same]; exact h
  · simp only [get, lookup_set_other w s s' sc hs]
    cases w.scopes.lookup s' with
    | some x => rfl
    | none => by_cases he : s' = "" <;> simp [he, Mock.Scope.fresh]

theorem last_set (w : W) (s s0 : String) (sc : Mock.Scope) (h : sc.last.isSome = (get w s).last.isSome) :
    last (set w s sc) s0 = last w s0 := by
  have := get_set_last w s s0 sc h
  unfold last
  cases h1 : (get (set w s sc) s0).last <;> cases h2 : (get w s0).last <;> simp_all

theorem get_addFail (w : W) (f : Option String) (s : String) : get (addFail w f) s = get w s := rfl
theorem last_addFail (w : W) (f : Option String) (s : String) : last (addFail w f) s = last w s := rfl

/-- checking is on in every scope, existing or yet to be created -/
def plain (w : W) : Prop := ∀ s, (get w s).enabled = true ∧ (get w s).ioc = false

theorem glob_eq_get (w : W) : glob w = get w "" := by
  simp only [glob, get]
  cases w.scopes.lookup "" <;> simp

theorem plain_set (w : W) (s : String) (sc : Mock.Scope) (hp : plain w) (h1 : sc.enabled = true) (h2 : sc.ioc = false) :
    plain (set w s sc) := by
  intro s'
  by_cases hs : s' = s
  · subst hs; rw [get_set_same]; exact ⟨h1, h2⟩
  · have hg : (glob (set w s sc)).enabled = true ∧ (glob (set w s sc)).ioc = false := by
      rw [glob_eq_get]
      by_cases h0 : "" = s
      · subst h0; rw [get_set_same]; exact ⟨h1, h2⟩
      · have := hp ""
        simp only [get, lookup_set_other w s "" sc h0] at this ⊢
        exact this
    have hold := hp s'
    simp only [get, lookup_set_other w s s' sc hs] at hold ⊢
    cases hl : w.scopes.lookup s' with
    | some x => simpa [hl] using hold
    | none =>
      by_cases he : s' = ""
      · simp [he, Mock.Scope.fresh]
      · simp [he, hg.1, hg.2]

theorem plain_addFail (w : W) (f : Option String) (hp : plain w) : plain (addFail w f) := hp


/-! ## what the C08 scope functions leave alone -/

/-- same `enabled` / `ignoreOtherCalls`, and a call in flight iff there was one -/
def Same (a b : Mock.Scope) : Prop := b.enabled = a.enabled ∧ b.ioc = a.ioc ∧ b.last.isSome = a.last.isSome

theorem Same.rfl' (a : Mock.Scope) : Same a a := ⟨rfl, rfl, rfl⟩

theorem checkLast_same (sc : Mock.Scope) : Same sc sc.checkLast.1 := by
  unfold Mock.Scope.checkLast
  cases h : sc.last with
  | none => simp [Same, h]
  | some c => simp [Same, h]

theorem expectN_same (sc : Mock.Scope) (n : Nat) (fn : String) (segs : List Mock.ESeg) : Same sc (sc.expectN n fn segs) := by
  unfold Mock.Scope.expectN
  split <;> simp [Same]

theorem seg_same (sc : Mock.Scope) (buf : List UInt8) (g : Mock.Seg) : Same sc (sc.seg buf g).1 := by
  unfold Mock.Scope.seg
  cases h : sc.last with
  | none => simp [Same, h]
  | some c => simp [Same, h]

theorem startCall_flags (sc : Mock.Scope) (full : String) :
    (sc.startCall full).sc.enabled = sc.enabled ∧ (sc.startCall full).sc.ioc = sc.ioc := by
  unfold Mock.Scope.startCall
  split
  · simp
  · split <;> simp

theorem actualCall_flags (sc : Mock.Scope) (fn : String) :
    (sc.actualCall fn).sc.enabled = sc.enabled ∧ (sc.actualCall fn).sc.ioc = sc.ioc := by
  have hc := checkLast_same sc
  unfold Mock.Scope.actualCall
  split
  · rename_i sc1 f heq
    have : sc.checkLast.1 = sc1 := by rw [heq]
    rw [← this]; exact ⟨hc.1, hc.2.1⟩
  · rename_i sc1 heq
    have : sc.checkLast.1 = sc1 := by rw [heq]
    have h2 := startCall_flags { sc1 with last := none } (sc.fullName fn)
    rw [← this] at h2 ⊢
    exact ⟨h2.1.trans hc.1, h2.2.trans hc.2.1⟩

/-- with checking on, an `actualCall` that does not fail creates the call in flight and is not ignored -/
theorem actualCall_creates (sc : Mock.Scope) (fn : String) (he : sc.enabled = true) (hi : sc.ioc = false)
    (hf : (sc.actualCall fn).fail = none) :
    (sc.actualCall fn).ignored = false ∧ (sc.actualCall fn).sc.last.isSome = true := by
  have hc := checkLast_same sc
  unfold Mock.Scope.actualCall at hf ⊢
  split at hf
  · simp at hf
  · rename_i sc1 heq
    have h1 : sc.checkLast.1 = sc1 := by rw [heq]
    have e1 : sc1.enabled = true := by rw [← h1, hc.1, he]
    have i1 : sc1.ioc = false := by rw [← h1, hc.2.1, hi]
    simp [Mock.Scope.startCall, e1, i1]

inductive All2 {α β : Type} (R : α → β → Prop) : List α → List β → Prop
  | nil : All2 R [] []
  | cons {a b l r} : R a b → All2 R l r → All2 R (a :: l) (b :: r)

theorem checkLasts_same : ∀ (l : List Mock.Scope), All2 Same l (Mock.checkLasts l).1
  | [] => by simp only [Mock.checkLasts]; exact All2.nil
  | sc :: rest => by
    have hc := checkLast_same sc
    have ih := checkLasts_same rest
    unfold Mock.checkLasts
    split
    · rename_i s1 f heq
      have : sc.checkLast.1 = s1 := by rw [heq]
      rw [← this]
      exact All2.cons hc (by
        clear ih
        induction rest with
        | nil => exact All2.nil
        | cons a r ih2 => exact All2.cons (Same.rfl' a) ih2)
    · rename_i s1 heq
      have : sc.checkLast.1 = s1 := by rw [heq]
      rw [← this]
      split
      rename_i rest1 f heq2
      have h2 : (Mock.checkLasts rest).1 = rest1 := by rw [heq2]
      rw [← h2]
      exact All2.cons hc ih

theorem forall₂_zip {α β γ : Type} (R : β → γ → Prop) (f : α → β) :
    ∀ (l : List α) (r : List γ), All2 R (l.map f) r → ∀ p ∈ l.zip r, R (f p.1) p.2
  | [], _, _, p, hp => by simp at hp
  | a :: l, [], h, p, hp => by simp at hp
  | a :: l, c :: r, h, p, hp => by
    simp only [List.map_cons] at h
    cases h with
    | cons h1 h2 =>
      simp only [List.zip_cons_cons, List.mem_cons] at hp
      rcases hp with rfl | hp
      · exact h1
      · exact forall₂_zip R f l r h2 p hp

theorem setMany_last : ∀ (l : List (String × Mock.Scope)) (w : W),
    (∀ p ∈ l, p.2.last.isSome = (get w p.1).last.isSome) →
    ∀ s0, (get (setMany w l) s0).last.isSome = (get w s0).last.isSome
  | [], _, _, _ => rfl
  | (n, sc) :: rest, w, h, s0 => by
    have h0 := h (n, sc) (by simp)
    simp only [setMany]
    rw [setMany_last rest (set w n sc) (fun p hp => by
      rw [get_set_last w n p.1 sc h0]; exact h p (by simp [hp])) s0]
    exact get_set_last w n s0 sc h0

theorem setMany_plain : ∀ (l : List (String × Mock.Scope)) (w : W),
    (∀ p ∈ l, p.2.enabled = true ∧ p.2.ioc = false) → plain w → plain (setMany w l)
  | [], _, _, hp => hp
  | (n, sc) :: rest, w, h, hp => by
    have h0 := h (n, sc) (by simp)
    exact setMany_plain rest (set w n sc) (fun p hp' => h p (by simp [hp'])) (plain_set w n sc hp h0.1 h0.2)

theorem last_of_isSome (w w' : W) (h : ∀ s0, (get w' s0).last.isSome = (get w s0).last.isSome) (s0 : String) :
    last w' s0 = last w s0 := by
  have := h s0
  unfold last
  cases h1 : (get w' s0).last <;> cases h2 : (get w s0).last <;> simp_all


/-! ## every operation of the instance: which call is a scope's last one, and whether checking stays on -/

/-- no scope gains or loses its call in flight -/
def KeepsLast (w w' : W) : Prop := ∀ s0, (get w' s0).last.isSome = (get w s0).last.isSome

theorem KeepsLast.refl (w : W) : KeepsLast w w := fun _ => rfl
theorem KeepsLast.trans {a b c : W} (h1 : KeepsLast a b) (h2 : KeepsLast b c) : KeepsLast a c :=
  fun s0 => (h2 s0).trans (h1 s0)

theorem keepsLast_set (w : W) (s : String) (sc : Mock.Scope) (h : Same (get w s) sc) : KeepsLast w (set w s sc) :=
  fun s0 => get_set_last w s s0 sc h.2.2

theorem plain_set_same (w : W) (s : String) (sc : Mock.Scope) (h : Same (get w s) sc) (hp : plain w) : plain (set w s sc) :=
  plain_set w s sc hp (h.1.trans (hp s).1) (h.2.1.trans (hp s).2)

theorem keepsLast_addFail (w : W) (f : Option String) : KeepsLast w (addFail w f) := fun _ => rfl

theorem acGetter_keeps (w : W) (a : AC) (meth : String) :
    KeepsLast w (acGetter w a meth).1 ∧ (plain w → plain (acGetter w a meth).1) := by
  unfold acGetter
  cases a with
  | none => exact ⟨KeepsLast.refl w, id⟩
  | some s =>
    have hs := checkLast_same (get w s)
    have hk := keepsLast_set w s (get w s).checkLast.1 hs
    have hpl := plain_set_same w s (get w s).checkLast.1 hs
    simp only []
    cases hf : (get w s).checkLast.2 with
    | some f => exact ⟨hk, hpl⟩
    | none =>
      simp only []
      split
      · exact ⟨hk, hpl⟩
      · split <;> exact ⟨hk, hpl⟩

theorem checkCovered_keeps (w : W) (s : String) :
    KeepsLast w (checkCovered w s).1 ∧ (plain w → plain (checkCovered w s).1) := by
  unfold checkCovered
  have hall := checkLasts_same ((coveredNames w s).map (get w))
  have hz := forall₂_zip Same (get w) (coveredNames w s) _ hall
  simp only []
  constructor
  · exact setMany_last _ w (fun p hp => (hz p hp).2.2)
  · intro hpl
    exact setMany_plain _ w (fun p hp => ⟨(hz p hp).1.trans (hpl p.1).1, (hz p hp).2.1.trans (hpl p.1).2⟩) hpl

theorem opEc_keeps (w : W) (e : EC) (meth : String) (args : List Val) :
    KeepsLast w (opEc w e meth args).1 ∧ (plain w → plain (opEc w e meth args).1) := by
  unfold opEc
  cases e with
  | none => exact ⟨KeepsLast.refl w, id⟩
  | some p =>
    obtain ⟨s, idx⟩ := p
    simp only []
    cases esegOf meth args with
    | none => exact ⟨KeepsLast.refl w, id⟩
    | some g =>
      have hs : Same (get w s) { get w s with es := (get w s).es.modify idx (fun x => x.addSeg g) } := ⟨rfl, rfl, rfl⟩
      exact ⟨keepsLast_set w s _ hs, plain_set_same w s _ hs⟩

theorem opAc_keeps (w : W) (a : AC) (meth : String) (args : List Val) :
    KeepsLast w (opAc w a meth args).1 ∧ (plain w → plain (opAc w a meth args).1) := by
  unfold opAc
  split
  · exact acGetter_keeps w a meth
  · cases a with
    | none => exact ⟨KeepsLast.refl w, id⟩
    | some s =>
      simp only []
      cases segOf meth args with
      | none => exact ⟨KeepsLast.refl w, id⟩
      | some g =>
        have hs := seg_same (get w s) [] g
        exact ⟨keepsLast_set w s _ hs, plain_set_same w s _ hs⟩

theorem opAc_self (w : W) (a : AC) (meth : String) (args : List Val) (a' : AC)
    (h : (opAc w a meth args).2 = .ac a') : a' = a := by
  unfold opAc at h
  split at h
  · unfold acGetter at h
    cases a with
    | none => simp only [] at h; split at h <;> cases h
    | some s =>
      simp only [] at h
      cases hf : (get w s).checkLast.2 with
      | some f => simp [hf] at h
      | none =>
        simp only [hf] at h
        split at h
        · cases h
        · split at h <;> cases h
  · cases a with
    | none => simp only [] at h; cases h; rfl
    | some s =>
      cases hg : segOf meth args with
      | none => simp only [hg] at h; cases h; rfl
      | some g => simp only [hg] at h; cases h; rfl


theorem setMany_flags_last (w : W) (names : List String) (f : Mock.Scope → Mock.Scope)
    (hf : ∀ sc, (f sc).last = sc.last) : KeepsLast w (setMany w (names.map (fun n => (n, f (get w n))))) := by
  apply setMany_last
  intro p hp
  obtain ⟨n, _, rfl⟩ := List.mem_map.mp hp
  simp only [hf]

theorem classify_actual (meth : String) (h : classify meth = .actual) : meth = sigActualCall := by
  unfold classify at h
  repeat' split at h
  all_goals first | (cases h; done) | assumption

theorem classify_clear (meth : String) (h : classify meth = .clear) : meth = sigClear := by
  unfold classify at h
  repeat' split at h
  all_goals first | (cases h; done) | assumption

theorem classify_disable (meth : String) (h : classify meth = .disable) : meth = sigDisable := by
  unfold classify at h
  repeat' split at h
  all_goals first | (cases h; done) | assumption

theorem classify_ignore (meth : String) (h : classify meth = .ignore) : meth = sigIgnoreOtherCalls := by
  unfold classify at h
  repeat' split at h
  all_goals first | (cases h; done) | assumption

theorem classify_sigActual : classify sigActualCall = .actual := by decide

theorem opCheck_keeps (w : W) (s : String) : KeepsLast w (opCheck w s).1 ∧ (plain w → plain (opCheck w s).1) := by
  have hk := checkCovered_keeps w s
  unfold opCheck
  split
  · exact hk
  · split
    · exact hk
    · split <;> exact hk

theorem opLeft_keeps (w : W) (s : String) : KeepsLast w (opLeft w s).1 ∧ (plain w → plain (opLeft w s).1) := by
  have hk := checkCovered_keeps w s
  unfold opLeft
  split <;> exact hk

theorem opSup_last (w : W) (s meth : String) (args : List Val) (h1 : meth ≠ sigActualCall) (h2 : meth ≠ sigClear) :
    KeepsLast w (opSup w s meth args).1 := by
  unfold opSup
  cases hc : classify meth with
  | getter =>
    simp only [opSupC]
    cases last w s with
    | some a => exact (acGetter_keeps w a _).1
    | none => exact KeepsLast.refl w
  | expectOne => exact keepsLast_set w s _ (expectN_same _ _ _ _)
  | expectN => exact keepsLast_set w s _ (expectN_same _ _ _ _)
  | expectNo => exact keepsLast_set w s _ (expectN_same _ _ _ _)
  | actual => exact absurd (classify_actual meth hc) h1
  | strict => exact keepsLast_set w s _ ⟨rfl, rfl, rfl⟩
  | ignore => exact setMany_flags_last w _ (fun sc => { sc with ioc := true }) (fun _ => rfl)
  | disable => exact setMany_flags_last w _ (fun sc => { sc with enabled := false }) (fun _ => rfl)
  | enable => exact setMany_flags_last w _ (fun sc => { sc with enabled := true }) (fun _ => rfl)
  | check => exact (opCheck_keeps w s).1
  | left => exact (opLeft_keeps w s).1
  | clear => exact absurd (classify_clear meth hc) h2
  | other => exact KeepsLast.refl w

theorem plain_clear (w : W) (s : String) (hp : plain w) : plain (opClear w s) := by
  unfold opClear
  split
  · intro s'
    simp only [get, glob, List.lookup_cons, List.lookup_nil]
    by_cases h : s' = ""
    · subst h; simp [Mock.Scope.clear, Mock.Scope.fresh]
    · have : (s' == "") = false := by simp [h]
      simp [this, h, Mock.Scope.clear, Mock.Scope.fresh]
  · exact plain_set w s _ hp rfl rfl

theorem opSup_plain (w : W) (s meth : String) (args : List Val) (h1 : meth ≠ sigDisable) (h2 : meth ≠ sigIgnoreOtherCalls)
    (hp : plain w) : plain (opSup w s meth args).1 := by
  unfold opSup
  cases hc : classify meth with
  | getter =>
    simp only [opSupC]
    cases last w s with
    | some a => exact (acGetter_keeps w a _).2 hp
    | none => exact hp
  | expectOne => exact plain_set_same w s _ (expectN_same _ _ _ _) hp
  | expectN => exact plain_set_same w s _ (expectN_same _ _ _ _) hp
  | expectNo => exact plain_set_same w s _ (expectN_same _ _ _ _) hp
  | actual =>
    have hfl := actualCall_flags (get w s) (strOf (args.getD 0 (.tok "")))
    exact plain_set w s _ hp (hfl.1.trans (hp s).1) (hfl.2.trans (hp s).2)
  | strict => exact plain_set w s _ hp (hp s).1 (hp s).2
  | ignore => exact absurd (classify_ignore meth hc) h2
  | disable => exact absurd (classify_disable meth hc) h1
  | enable =>
    apply setMany_plain _ w _ hp
    intro p hpm
    obtain ⟨n, _, rfl⟩ := List.mem_map.mp hpm
    exact ⟨rfl, (hp n).2⟩
  | check => exact (opCheck_keeps w s).2 hp
  | left => exact (opLeft_keeps w s).2 hp
  | clear => exact plain_clear w s hp
  | other => exact hp

theorem opActual_creates (w : W) (s fn : String) (hp : plain w) (hns : (opActual w s fn).1.fail.isSome = false) :
    ∃ a, (opActual w s fn).2 = .ac a ∧ last (opActual w s fn).1 s = some a := by
  have hcr := actualCall_creates (get w s) fn (hp s).1 (hp s).2
  unfold opActual at hns ⊢
  cases hf : ((get w s).actualCall fn).fail with
  | some f =>
    simp only [hf, addFail] at hns
    cases hw : (set w s ((get w s).actualCall fn).sc).fail <;> simp [hw] at hns
  | none =>
    obtain ⟨hi, hl⟩ := hcr hf
    refine ⟨some s, by simp [hi], ?_⟩
    simp only [last, get_addFail, get_set_same]
    cases hlast : ((get w s).actualCall fn).sc.last with
    | none => rw [hlast] at hl; cases hl
    | some c => rfl

theorem opSup_actual (w : W) (s : String) (args : List Val) (hp : plain w)
    (hns : (opSup w s sigActualCall args).1.fail.isSome = false) :
    ∃ a, (opSup w s sigActualCall args).2 = .ac a ∧ last (opSup w s sigActualCall args).1 s = some a := by
  unfold opSup at hns ⊢
  rw [classify_sigActual] at hns ⊢
  exact opActual_creates w s _ hp hns


/-! ## the hypotheses of C19, discharged for the C08 model -/

theorem actSigOf_pairs : Req.bridgePairs.all (fun p => actSigOf (signature p.1 []) == signature p.2 []) = true := by
  decide +kernel

theorem classify_getter (sig : String) (h : sig ∈ supSigs) : classify sig = .getter := by
  unfold classify; simp [h]

theorem opMock_keeps (w : W) (s : String) : KeepsLast w (opMock w s) ∧ (plain w → plain (opMock w s)) := by
  unfold opMock
  cases w.scopes.lookup s with
  | some x => exact ⟨KeepsLast.refl w, id⟩
  | none => exact ⟨keepsLast_set w s _ (Same.rfl' _), plain_set_same w s _ (Same.rfl' _)⟩

/-- **The C08 model is a lawful C++ mock** in the sense of C19: a support-level getter is the getter of the scope's
    call in flight, and asking `hasReturnValue` does not change which call that is. -/
theorem m08_lawful : Lawful M08 where
  bridge := by
    intro m s a p hp hl
    have hmemS : signature p.1 [] ∈ supSigs := List.mem_map.mpr ⟨p, hp, rfl⟩
    have hmemA : signature p.2 [] ∈ actSigs := List.mem_map.mpr ⟨p, hp, rfl⟩
    have hpair : actSigOf (signature p.1 []) = signature p.2 [] := by
      have := List.all_eq_true.mp actSigOf_pairs p hp
      simpa using this
    show opSup m s (signature p.1 []) [] = opAc m a (signature p.2 []) []
    have hl' : last m s = some a := hl
    simp only [opSup, classify_getter _ hmemS, opSupC, hl', hpair, opAc, hmemA, if_true]
  has_keeps_last := by
    intro m s _
    obtain ⟨_, _, _, _, f5, f6, _, _⟩ := sig_facts
    exact last_of_isSome m _ (opSup_last m s _ [] f5 f6) s

/-- **... and it obeys the scope laws** the syntactic class `Aligned` relies on. -/
def m08_scopeLaws : ScopeLaws M08 where
  plain := plain
  plain_mock := fun m s hp => (opMock_keeps m s).2 hp
  plain_sup := fun m s sig args h1 h2 hp => opSup_plain m s sig args h1 h2 hp
  plain_ec := fun m e sig args hp => (opEc_keeps m e sig args).2 hp
  plain_ac := fun m a sig args hp => (opAc_keeps m a sig args).2 hp
  last_mock := fun m s s0 => last_of_isSome m _ (opMock_keeps m s).1 s0
  actual_sets_last := fun m s args hp hns => opSup_actual m s args hp hns
  last_sup := fun m s sig args s0 h1 h2 _ => last_of_isSome m _ (opSup_last m s sig args h1 h2) s0
  last_ec := fun m e sig args s0 _ => last_of_isSome m _ (opEc_keeps m e sig args).1 s0
  last_ac := fun m a sig args s0 _ => last_of_isSome m _ (opAc_keeps m a sig args).1 s0
  ac_self := fun m a sig args a' h => opAc_self m a sig args a' h

theorem plain_init : plain {} := by
  intro s
  simp only [get, glob, List.lookup_nil]
  by_cases h : s = "" <;> simp [h, Mock.Scope.fresh]

/-- **C run ≡ C++ run over the C08 model**, for every scenario of the decidable class `Aligned`, from any world in
    which checking is on (in particular the initial one): same scopes, expectation lists, calls in flight and first
    failure at the end, same returned values. -/
theorem c08_c_run_eq_cpp_run (ss : List CStmt) (w : W) (hp : plain w) (h : Aligned ss = true) :
    observeC (runC M08 ⟨⟨w, none, none, none⟩, []⟩ ss) = observeX (runX M08 ⟨⟨w, none, none, none⟩, []⟩ (ss.map Req.toCpp)) :=
  c_run_eq_cpp_run_aligned M08 m08_lawful m08_scopeLaws ss w hp h

/-! ## the instance computes what C08's theorems talk about -/

/-- `actualCall(fn)` of the instance is `Scope.actualCall` of the scope, and every `with...` member is one
    `Scope.seg` step: a whole call statement is `Scope.actualCall` followed by `segsLoop` — the run
    `Scope.lazyRun` / `Scope.callNow` of C08's verdict theorems performs. -/
theorem m08_actualCall_is_scope_actualCall (w : W) (s : String) (fn : String) :
    get (M08.sup w s sigActualCall [.tok fn]).1 s = ((get w s).actualCall fn).sc ∧
    ((M08.sup w s sigActualCall [.tok fn]).1.fail = match w.fail with
                                                    | some m => some m
                                                    | none => ((get w s).actualCall fn).fail) := by
  show get (opSup w s sigActualCall [.tok fn]).1 s = _ ∧ (opSup w s sigActualCall [.tok fn]).1.fail = _
  simp only [opSup, classify_sigActual, opSupC, opActual]
  have hfn : strOf ([Val.tok fn].getD 0 (Val.tok "")) = fn := rfl
  rw [hfn]
  exact ⟨by rw [get_addFail, get_set_same], rfl⟩

theorem m08_with_is_scope_seg (w : W) (s meth : String) (args : List Val) (g : Mock.Seg)
    (hm : meth ∉ actSigs) (hg : segOf meth args = some g) :
    get (M08.ac w (some s) meth args).1 s = ((get w s).seg [] g).1 := by
  show get (opAc w (some s) meth args).1 s = _
  simp only [opAc, hm, if_false, hg, get_addFail, get_set_same]

/-- `returnValue()` / `hasReturnValue()` of the call in flight is C08's `returnValueOf` after `checkLast`
    (= `World.returnValue`) -/
theorem m08_has_is_returnValueOf (w : W) (s : String) (hf : (get w s).checkLast.2 = none) :
    (M08.ac w (some s) (signature "hasReturnValue" []) []).2 =
      .val (.bool (Mock.returnValueOf (get w s).checkLast.1.es).isSome) := by
  have hm : signature "hasReturnValue" [] ∈ actSigs := by decide
  show (opAc w (some s) (signature "hasReturnValue" []) []).2 = _
  simp only [opAc, hm, if_true, acGetter, hf]

/-! ## non-vacuity: a scenario through the C interface over the C08 model -/

/-- `mock_c()->expectOneCall("f")->withIntParameters("a", 5)->andReturnIntValue(7);
     mock_c()->actualCall("f")->withIntParameters("a", 5)->returnIntValueOrDefault(3); mock_c()->intReturnValue();
     mock_c()->checkExpectations()` -/
def sample : List CStmt :=
  [.mockC, .call .sup "expectOneCall" [.tok "f"], .call .exp "withIntParameters" [.tok "a", .int 5],
   .call .exp "andReturnIntValue" [.int 7], .call .sup "actualCall" [.tok "f"],
   .call .act "withIntParameters" [.tok "a", .int 5], .call .act "returnIntValueOrDefault" [.int 3],
   .call .sup "intReturnValue" [], .call .sup "checkExpectations" []]

/-- the same with a wrong actual value -/
def sampleBad : List CStmt :=
  [.mockC, .call .sup "expectOneCall" [.tok "f"], .call .exp "withIntParameters" [.tok "a", .int 5],
   .call .sup "actualCall" [.tok "f"], .call .act "withIntParameters" [.tok "a", .int 6],
   .call .sup "checkExpectations" []]

example : Aligned sample = true ∧ Aligned sampleBad = true := by decide +kernel

/-- through the C interface the C08 model delivers 7 twice and no failure ... -/
example : (runC M08 ⟨⟨{}, none, none, none⟩, []⟩ sample).obs.map canonC =
    [.none, .none, .none, .none, .none, .none, .val (.int 7), .val (.int 7), .none] ∧
    (runC M08 ⟨⟨{}, none, none, none⟩, []⟩ sample).core.m.fail = none := by decide +kernel

/-- ... and the wrong value fails the test with C08's diagnosis, at the `with...` member (the run stops there) -/
example : ((runC M08 ⟨⟨{}, none, none, none⟩, []⟩ sampleBad).core.m.fail).isSome = true ∧
    (runC M08 ⟨⟨{}, none, none, none⟩, []⟩ sampleBad).obs.length = 5 := by decide +kernel

end MockC.X08
