import CppUModel.Proofs.LeakDetector
import CppUModel.Model.Misuse
/-!
# C06 — memory misuse is reported exactly

Property theorems only.  Model: `CppUModel/Model/LeakDetector.lean` (`dealloc`, `checkForCorruption`,
`matching` = the regenerated `matchingAllocation`, `validGuard`, `invalidateMemory`, `release`);
vocabulary: `CppUModel/Spec/LeakDetector.lean` (`family`, `GuardIntact`, `firstFail`, `freedBytes`,
`ConsistentIds`).  `(abs s).map addr` is the record of the outstanding block at `addr`, if any.
`ConsistentIds a b`: two allocator descriptors with one identity are one object (a fact about C++ objects).
-/
namespace LeakDetector
open Gen.LeakDetector (Period)

/-- the guard loop checks exactly: every guard byte holds its pattern byte -/
theorem guard_check_exact (n : Node) : validGuard n = true ↔ GuardIntact n := validGuard_iff n

/-- the regenerated `matchingAllocation` accepts a release iff type checking is off or the families agree -/
theorem matching_exact (tc : Bool) (a b : Allocator) (hc : ConsistentIds a b) :
    matching tc a b = true ↔ tc = false ∨ family a = family b := matching_iff tc a b hc

/-- The report of a release, four disjoint cases, each an iff:
    silent ⇔ NULL, or outstanding ∧ (checking off ∨ same family) ∧ all guard bytes intact;
    non-allocated ⇔ not NULL and not outstanding (foreign, interior, stale);
    mismatch ⇔ outstanding ∧ checking on ∧ families differ;
    corruption ⇔ outstanding ∧ no mismatch ∧ some guard byte changed. -/
theorem dealloc_classification (s : State) (a : Allocator) (addr : Nat) (file : String) (line : Nat) (sep : Bool)
    (hc : ∀ n, (abs s).map addr = some n → ConsistentIds n.allocator a) :
    (firstFail (dealloc s a addr file line sep).2 = none ↔
      addr = 0 ∨ ∃ n, (abs s).map addr = some n ∧ (s.typeChecking = false ∨ family n.allocator = family a) ∧ GuardIntact n) ∧
    (firstFail (dealloc s a addr file line sep).2 = some .nonAllocated ↔ addr ≠ 0 ∧ (abs s).map addr = none) ∧
    (firstFail (dealloc s a addr file line sep).2 = some .mismatch ↔
      addr ≠ 0 ∧ ∃ n, (abs s).map addr = some n ∧ s.typeChecking = true ∧ family n.allocator ≠ family a) ∧
    (firstFail (dealloc s a addr file line sep).2 = some .corruption ↔
      addr ≠ 0 ∧ ∃ n, (abs s).map addr = some n ∧ (s.typeChecking = false ∨ family n.allocator = family a) ∧ ¬ GuardIntact n) := by
  rw [firstFail_dealloc]
  unfold verdict
  by_cases hz : addr = 0
  · simp [hz]
  · simp only [hz, if_false, false_or, ne_eq, not_false_eq_true, true_and]
    show _ ∧ (_ ↔ s.table.retrieveNode addr = none) ∧ _
    cases hr : s.table.retrieveNode addr with
    | none =>
      have hm : (abs s).map addr = none := hr
      simp [hm]
    | some n =>
      have hm : (abs s).map addr = some n := hr
      have hmi := matching_iff s.typeChecking n.allocator a (hc n hm)
      have hgi := validGuard_iff n
      simp only [hm, Option.some.injEq, exists_eq_left']
      by_cases h1 : matching s.typeChecking n.allocator a = true
      · have h1' := hmi.mp h1
        by_cases h2 : validGuard n = true
        · have h2' := hgi.mp h2
          simp [h1, h2, h1', h2']
          rcases h1' with h | h
          · simp [h]
          · simp [h]
        · have h2' : ¬ GuardIntact n := fun h => h2 (hgi.mpr h)
          simp [h1, h2, h1', h2']
          rcases h1' with h | h
          · simp [h]
          · simp [h]
      · have h1' : ¬ (s.typeChecking = false ∨ family n.allocator = family a) := fun h => h1 (hmi.mpr h)
        have h1f : matching s.typeChecking n.allocator a = false := by simpa using h1
        simp only [not_or] at h1'
        have htc : s.typeChecking = true := by simpa using h1'.1
        have h1t : matching true n.allocator a = false := htc ▸ h1f
        simp [h1t, h1']

/-- a release produces at most one report -/
theorem at_most_one_report (s : State) (a : Allocator) (addr : Nat) (file : String) (line : Nat) (sep : Bool) :
    ((dealloc s a addr file line sep).2.filter (fun e => match e with | .fail .. => true | _ => false)).length ≤ 1 := by
  unfold dealloc
  split
  · simp
  · split
    · simp [nonAllocatedEv]
    · unfold checkForCorruption
      split
      · simp [failEv]
      · split
        · simp [failEv]
        · split <;> simp

/-- "Deallocating non-allocated memory" ⇔ the address is not NULL and no outstanding block starts there
    (`isLive` on a state that satisfies the invariant: stale, interior and foreign addresses) -/
theorem non_allocated_iff (s : State) (inv : s.Inv) (a : Allocator) (addr : Nat) (file : String) (line : Nat)
    (sep : Bool) :
    firstFail (dealloc s a addr file line sep).2 = some .nonAllocated ↔ addr ≠ 0 ∧ isLive s addr = false := by
  rw [firstFail_dealloc]
  unfold verdict
  by_cases hz : addr = 0
  · simp [hz]
  · simp only [hz, if_false, ne_eq, not_false_eq_true, true_and]
    cases hr : s.table.retrieveNode addr with
    | none =>
      have : isLive s addr = false := by rw [isLive_false_iff]; exact (retrieve_none_iff inv).mp hr
      simp [this]
    | some n =>
      have hl : isLive s addr = true := (isLive_iff inv addr).mpr ⟨n, hr⟩
      simp only [hl]
      split
      · simp
      · split <;> simp

/-- "Allocation/deallocation type mismatch" ⇔ outstanding ∧ type checking on ∧ the releasing family differs -/
theorem mismatch_iff (s : State) (a : Allocator) (addr : Nat) (file : String) (line : Nat) (sep : Bool) (n : Node)
    (hn : (abs s).map addr = some n) (hz : addr ≠ 0) (hc : ConsistentIds n.allocator a) :
    firstFail (dealloc s a addr file line sep).2 = some .mismatch ↔
      s.typeChecking = true ∧ family n.allocator ≠ family a := by
  have h := (dealloc_classification s a addr file line sep (by intro m hm; rw [hn] at hm; cases hm; exact hc)).2.2.1
  rw [h]
  simp [hz, hn]

/-- "Memory corruption" ⇔ outstanding ∧ no mismatch ∧ one of the guard bytes differs from its pattern byte -/
theorem corruption_iff (s : State) (a : Allocator) (addr : Nat) (file : String) (line : Nat) (sep : Bool) (n : Node)
    (hn : (abs s).map addr = some n) (hz : addr ≠ 0) (hc : ConsistentIds n.allocator a)
    (hmatch : s.typeChecking = false ∨ family n.allocator = family a) :
    firstFail (dealloc s a addr file line sep).2 = some .corruption ↔
      ∃ i, i < Gen.LeakDetector.guardSize ∧
        n.guardAt i ≠ Gen.LeakDetector.guardBytes.getD (i % Gen.LeakDetector.guardBytes.length) 0 := by
  have h := (dealloc_classification s a addr file line sep (by intro m hm; rw [hn] at hm; cases hm; exact hc)).2.2.2
  rw [h]
  simp only [hz, ne_eq, not_false_eq_true, hn, Option.some.injEq, exists_eq_left', hmatch, true_and, GuardIntact]
  constructor
  · intro hni
    exact Classical.byContradiction (fun hall => hni (fun i hi =>
      Classical.byContradiction (fun hne => hall ⟨i, hi, hne⟩)))
  · rintro ⟨i, hi, hne⟩ hall
    exact hne (hall i hi)

/-- releasing NULL does nothing and reports nothing -/
theorem null_release_silent (s : State) (a : Allocator) (file : String) (line : Nat) (sep : Bool) :
    dealloc s a 0 file line sep = (s, []) := by simp [dealloc]

/-- a correctly paired release (same family, guard bytes untouched) never produces a report -/
theorem paired_release_silent (s : State) (a : Allocator) (addr : Nat) (file : String) (line : Nat) (sep : Bool)
    (n : Node) (hn : (abs s).map addr = some n) (hc : ConsistentIds n.allocator a)
    (hfam : family n.allocator = family a) (hg : GuardIntact n) :
    firstFail (dealloc s a addr file line sep).2 = none := by
  have h := (dealloc_classification s a addr file line sep (by intro m hm; rw [hn] at hm; cases hm; exact hc)).1
  rw [h]
  exact Or.inr ⟨n, hn, Or.inr hfam, hg⟩

/-- a freshly (re)allocated block has its guard bytes intact, whatever the size and the fill byte -/
theorem fresh_block_guard_intact (size : Nat) (fill : UInt8) (n : Node) (hs : n.size = size)
    (hb : n.bytes = freshBytes size fill) : GuardIntact n := by
  intro i hi
  unfold Node.guardAt
  rw [hb, hs, freshBytes, List.getD_eq_getElem?_getD, List.getElem?_append_right (by simp)]
  simp only [List.length_replicate, Nat.add_sub_cancel_left, guardPattern]
  rw [List.getElem?_map, List.getElem?_range hi]
  rfl

/-- Writing any byte anywhere inside the user bytes of an outstanding block changes the report of no release
    (of that block or of any other address, through any allocator). -/
theorem user_write_never_reports (s : State) (inv : s.Inv) (addr off : Nat) (b : UInt8)
    (hoff : ∀ n, (abs s).map addr = some n → off < n.size)
    (a : Allocator) (addr' : Nat) (file : String) (line : Nat) (sep : Bool) :
    firstFail (dealloc (writeByte s addr off b) a addr' file line sep).2 =
      firstFail (dealloc s a addr' file line sep).2 := by
  rw [firstFail_dealloc, firstFail_dealloc]
  unfold verdict writeByte
  by_cases hz : addr' = 0
  · simp [hz]
  · simp only [hz, if_false]
    rw [retrieve_modify inv _ (setByte_addr off b) addr addr']
    by_cases hx : addr' = addr
    · subst hx
      cases hr : s.table.retrieveNode addr' with
      | none => simp
      | some n =>
        have ho : off < n.size := hoff n hr
        simp only [if_true, Option.map]
        rw [validGuard_congr (guardAt_user_write n off b ho)]
    · simp [hx]

/-- Writing the byte `b` over guard byte `i` of an intact block is reported as corruption at release iff `b` is
    not the pattern byte (every guard position, every byte value). -/
theorem guard_write_reported_iff (s : State) (inv : s.Inv) (addr i : Nat) (b : UInt8) (n : Node)
    (hn : (abs s).map addr = some n) (hz : addr ≠ 0) (hi : i < Gen.LeakDetector.guardSize)
    (hlen : n.size + i < n.bytes.length) (hg : GuardIntact n)
    (a : Allocator) (hm : matching s.typeChecking n.allocator a = true) (file : String) (line : Nat) (sep : Bool) :
    firstFail (dealloc (writeByte s addr (n.size + i) b) a addr file line sep).2 =
      if b = Gen.LeakDetector.guardBytes.getD (i % Gen.LeakDetector.guardBytes.length) 0 then none else some .corruption := by
  rw [firstFail_dealloc]
  unfold verdict writeByte
  simp only [hz, if_false]
  rw [retrieve_modify inv _ (setByte_addr (n.size + i) b) addr addr]
  have hr : s.table.retrieveNode addr = some n := hn
  simp only [if_true, hr, Option.map, hm, Bool.not_true, Bool.false_eq_true, if_false]
  have hat : ∀ j, ({ n with bytes := setByte n.bytes (n.size + i) b } : Node).guardAt j = if j = i then b else n.guardAt j := by
    intro j
    unfold Node.guardAt setByte
    simp only [List.getD_eq_getElem?_getD]
    by_cases hj : j = i
    · subst hj; simp [List.getElem?_set_self hlen]
    · rw [List.getElem?_set_ne (by omega)]; simp [hj]
  by_cases hb : b = Gen.LeakDetector.guardBytes.getD (i % Gen.LeakDetector.guardBytes.length) 0
  · have : validGuard ({ n with bytes := setByte n.bytes (n.size + i) b } : Node) = true := by
      rw [validGuard_iff]
      intro j hj
      rw [hat j]
      by_cases hji : j = i
      · subst hji; simp [hb]
      · simp only [hji, if_false]; exact hg j hj
    rw [this, if_pos hb]
    rfl
  · have : validGuard ({ n with bytes := setByte n.bytes (n.size + i) b } : Node) = false := by
      cases hv : validGuard ({ n with bytes := setByte n.bytes (n.size + i) b } : Node) with
      | false => rfl
      | true =>
        rw [validGuard_iff] at hv
        have := hv i hi
        rw [hat i] at this
        simp only [if_true] at this
        exact absurd this hb
    rw [this, if_neg hb]
    rfl

/-- `invalidateMemory` changes the report of no release (the guard bytes and the records' allocators are untouched) -/
theorem invalidate_keeps_verdict (s : State) (inv : s.Inv) (addr : Nat) (a : Allocator) (addr' : Nat) (file : String)
    (line : Nat) (sep : Bool) :
    firstFail (dealloc (invalidateMemory s addr) a addr' file line sep).2 =
      firstFail (dealloc s a addr' file line sep).2 := by
  rw [firstFail_dealloc, firstFail_dealloc]
  unfold invalidateMemory
  split
  · exact verdict_modify inv poison poison_addr (fun _ => rfl) guardAt_poison addr a addr'
  · rfl

/-- Release through `operator delete`, `operator delete[]` or `free`: the user bytes handed back to the underlying
    allocator are all the poison byte (and it is that block, once), whatever the verdict of the release. -/
theorem poisoned_before_release (c : Current) (f : Family) (s : State) (inv : s.Inv) (n : Node) (hn : n ∈ s.nodes)
    (file : String) (line : Nat) :
    freedBytes (release c f s n.addr file line).2 = [(n.addr, List.replicate n.size Gen.LeakDetector.poisonByte)] := by
  have hr : s.table.retrieveNode n.addr = some n := (retrieve_some_iff inv).mpr ⟨hn, rfl⟩
  have inv' : (invalidateMemory s n.addr).Inv := invalidate_inv inv n.addr
  have hmem : poison n ∈ (invalidateMemory s n.addr).nodes := by
    have h2 : (invalidateMemory s n.addr).table.retrieveNode n.addr = some (poison n) := by
      unfold invalidateMemory
      simp only [hr]
      rw [retrieve_modify inv poison poison_addr n.addr n.addr]
      simp [hr]
    exact ((retrieve_some_iff inv').mp h2).1
  have key : ∀ (a : Allocator) (fl : String) (ln : Nat) (sp : Bool),
      freedBytes (dealloc (invalidateMemory s n.addr) a n.addr fl ln sp).2 =
        [(n.addr, List.replicate n.size Gen.LeakDetector.poisonByte)] := by
    intro a fl ln sp
    have := dealloc_live inv' hmem a fl ln sp
    rw [poison_addr] at this
    rw [this]
    have hu : (poison n).user = List.replicate n.size Gen.LeakDetector.poisonByte := user_poison n
    have hs : (poison n).size = n.size := rfl
    unfold checkForCorruption
    split
    · simp [freedBytes, failEv, hu, hs]
    · split
      · simp [freedBytes, failEv, hu, hs]
      · split <;> simp [freedBytes, hu, hs]
  cases f <;> exact key _ _ _ _

/-- the release wrappers report exactly what a plain release with the family's current allocator reports -/
theorem release_reports_like_dealloc (c : Current) (f : Family) (s : State) (inv : s.Inv) (addr : Nat) (file : String)
    (line : Nat) :
    firstFail (release c f s addr file line).2 = firstFail (dealloc s (c.of f) addr file line false).2 := by
  cases f <;>
    simp only [release, Current.of, firstFail_dealloc] <;>
    rw [← firstFail_dealloc _ _ _ file line false, invalidate_keeps_verdict s inv addr, firstFail_dealloc]

/-- in the source every release wrapper calls `invalidateMemory` on the released pointer before `deallocMemory`
    (regenerated from MemoryLeakWarningPlugin.cpp) -/
theorem release_wrappers_poison_first :
    ∀ w ∈ Gen.LeakDetector.releaseWrappers, w.invalidateThenDealloc = true := by decide

/-- Every release wrapper of the source, plain AND thread-safe, executed as regenerated (its own statement order,
    current allocator, location arguments, layout flag) is the modelled `release` of its family — so everything proved
    about `release` (`poisoned_before_release`, `release_reports_like_dealloc`) holds for all six wrappers. -/
theorem release_wrappers_are_release :
    ∀ w ∈ Gen.LeakDetector.releaseWrappers, ∀ (c : Current) (s : State) (addr : Nat) (file : String) (line : Nat),
      releaseBy w c s addr file line = release c (familyOfGetter w.getter) s addr file line := by
  intro w hw c s addr file line
  simp only [Gen.LeakDetector.releaseWrappers, List.mem_cons, List.mem_nil_iff, or_false] at hw
  rcases hw with rfl | rfl | rfl | rfl | rfl | rfl <;> rfl

/-- both variants of every family are in the table: `free`, `delete`, `delete[]`, each plain and thread-safe -/
theorem release_wrappers_complete :
    (Gen.LeakDetector.releaseWrappers.map (·.name)) =
      ["threadsafe_mem_leak_free", "mem_leak_free", "threadsafe_mem_leak_operator_delete",
       "threadsafe_mem_leak_operator_delete_array", "mem_leak_operator_delete", "mem_leak_operator_delete_array"] := by decide

/-- hence: through every wrapper, plain or thread-safe, the block comes back with all user bytes poisoned -/
theorem poisoned_before_release_all_wrappers (w : Gen.LeakDetector.ReleaseWrapper) (hw : w ∈ Gen.LeakDetector.releaseWrappers)
    (c : Current) (s : State) (inv : s.Inv) (n : Node) (hn : n ∈ s.nodes) (file : String) (line : Nat) :
    freedBytes (releaseBy w c s n.addr file line).2 = [(n.addr, List.replicate n.size Gen.LeakDetector.poisonByte)] := by
  rw [release_wrappers_are_release w hw]
  exact poisoned_before_release c _ s inv n hn file line

set_option maxRecDepth 100000 in
/-- Every releasing overload — `operator delete` / `delete[]` plain, debug placement `(p, file, line)`, sized `(p, size_t)`,
    nothrow placement `(p, std::nothrow)`, and `cpputest_free_location` — with the plain and with the thread-safe overloads
    on, ends in the release wrapper of ITS family, and every acquiring overload in `allocMemory` with the current allocator
    of its family: a `new[]` block released by any `delete[]` form is a correctly paired release (regenerated forwarding of
    every operator, both function-pointer tables, every function's allocator). -/
theorem overloads_release_with_their_family : overloadsWiredCorrectly = true := by decide

/-! ## the memory-report plugin's allocators (CppUTestExt) -/

/-- `setGlobalMemoryReportAllocators` / `removeGlobalMemoryReportAllocators` as regenerated: each statement stays inside one
    family (member, getter, setter, restored member) and each family is handled once -/
theorem report_allocators_wired_correctly : reportWiringOk = true := by decide

/-- identity: after the post-test action the three current allocators are exactly the ones that were current before the
    pre-test action, whatever they were -/
theorem report_post_restores_current (r : ReportAllocs) (c : Current) :
    reportPost (reportPre r c).1 (reportPre r c).2 = c := by
  cases c; cases r
  simp [reportPost, reportPre, Gen.LeakDetector.reportInstall, Gen.LeakDetector.reportRemove, installStep, removeStep,
    ReportAllocs.get, ReportAllocs.set, Current.byGetter, Current.bySetter, Allocator.rewrap, Allocator.real, Allocator.id]

/-- while installed, a report allocator stands for the family of the allocator it took over from (it is compared as its
    actual allocator: `wrapper_transparent`) -/
theorem report_allocators_keep_the_family (r : ReportAllocs) (c : Current) :
    family (reportPre r c).2.newA = family c.newA ∧ family (reportPre r c).2.newArrayA = family c.newArrayA ∧
    family (reportPre r c).2.mallocA = family c.mallocA := by
  cases c; cases r
  simp [reportPre, Gen.LeakDetector.reportInstall, installStep, ReportAllocs.get, ReportAllocs.set, Current.byGetter,
    Current.bySetter, Allocator.rewrap, family, Allocator.actual]

/-- the constants the proofs rely on: three guard bytes `B A S`, poison `0xCD` -/
theorem guard_constants :
    Gen.LeakDetector.guardSize = 3 ∧ guardPattern = [0x42, 0x41, 0x53] ∧ Gen.LeakDetector.poisonByte = 0xCD ∧
    ∀ b ∈ guardPattern, b ≠ Gen.LeakDetector.poisonByte := by decide

/-- A wrapper allocator (`MemoryLeakAllocator`, accounting, cache, report wrapper) is compared as its actual
    allocator, on either side of the comparison, at any nesting depth. -/
theorem wrapper_transparent (s : State) (i : Nat) (a : Allocator) (addr : Nat) (file : String) (line : Nat) (sep : Bool) :
    family (.wrap i a) = family a ∧
    (∀ tc b, matching tc (.wrap i a) b = matching tc a b ∧ matching tc b (.wrap i a) = matching tc b a) ∧
    (∀ tc b, matching tc a.actual b.actual = matching tc a b) ∧
    firstFail (dealloc s (.wrap i a) addr file line sep).2 = firstFail (dealloc s a addr file line sep).2 := by
  refine ⟨rfl, fun tc b => ⟨rfl, rfl⟩, fun tc b => matching_actual tc a b, ?_⟩
  rw [firstFail_dealloc, firstFail_dealloc]
  rfl

/-! ## a defect next to the property: the inline record handed to `freeMemoryLeakNode`

The property speaks about what is REPORTED.  What the silent release then does to the bookkeeping record is
outside its statement; the model shows it (event `nfree false` = `allocator->freeMemoryLeakNode(node)` with a
`node` that was not obtained from `allocMemoryLeakNode`, i.e. a pointer into the block being released). -/

/-- A release passes the inline record of the block (a pointer INTO the block) to `freeMemoryLeakNode` exactly when
    the release is silent, asks for the separate layout, and the record was allocated inline. -/
theorem inline_record_freed_iff (s : State) (a : Allocator) (addr : Nat) (file : String) (line : Nat) (sep : Bool)
    (n : Node) (hn : (abs s).map addr = some n) (hz : addr ≠ 0) :
    Ev.nfree false ∈ (dealloc s a addr file line sep).2 ↔
      sep = true ∧ n.sepNode = false ∧ matching s.typeChecking n.allocator a = true ∧ validGuard n = true := by
  have hr : s.table.retrieveNode addr = some n := hn
  simp only [dealloc, hz, if_false, hr, List.mem_append, List.mem_singleton, reduceCtorEq, or_false]
  unfold checkForCorruption
  by_cases h1 : matching s.typeChecking n.allocator a = true
  · by_cases h2 : validGuard n = true
    · by_cases h3 : sep = true
      · cases h4 : n.sepNode <;> simp [h1, h2, h3, h4]
      · simp [h1, h2, h3]
    · simp [h1, h2, failEv]
  · simp [h1, failEv]

/-- with one layout per block (the release uses the layout the block was allocated with) it never happens -/
theorem consistent_layout_never_frees_inline_record (s : State) (a : Allocator) (addr : Nat) (file : String) (line : Nat)
    (n : Node) (hn : (abs s).map addr = some n) (hz : addr ≠ 0) :
    Ev.nfree false ∉ (dealloc s a addr file line n.sepNode).2 := by
  rw [inline_record_freed_iff s a addr file line n.sepNode n hn hz]
  intro h
  rw [h.1] at h
  exact absurd h.2.1 (by decide)

/-- the full statement one would like for the real overloads: whatever family acquired a block and whatever family
    releases it, no release hands a pointer into the block to `freeMemoryLeakNode` -/
def overloads_never_free_inline_record_full : Prop :=
  ∀ (c : Current) (s : State) (f g : Family) (size : Nat) (file : String) (line result : Nat) (fill : UInt8),
    s.Inv → result ≠ 0 → isLive s result = false →
    Ev.nfree false ∉ (release c g (acquire c f s size file line result true fill).1 result file line).2

/-- It is false: type checking off, `operator new` then `free()` (the `free` overload asks for the separate layout,
    the block of `operator new` has its record inline).  With the default allocators this is `free()` of a pointer into
    the block (confirmed on the real code under ASan: "attempting free on address which was not malloc()-ed"). -/
theorem overloads_never_free_inline_record_fails_known : ¬ overloads_never_free_inline_record_full := by
  intro h
  have := h { newA := .plain 0 "Standard New Allocator" "new" "delete",
              newArrayA := .plain 1 "Standard New [] Allocator" "new []" "delete []",
              mallocA := .plain 2 "Standard Malloc Allocator" "malloc" "free" }
    (disableTypeChecking (State.init 73)) .new .malloc 10 "a.cpp" 1 1168 0xA5
    (Table.inv_empty 73 (by decide)) (by decide) (by decide)
  exact this (by decide)

/-- what is true: through the overloads it happens exactly for a silent `free()` of a block whose record is inline -/
theorem overloads_free_inline_record_iff (c : Current) (g : Family) (s : State) (inv : s.Inv) (n : Node)
    (hn : n ∈ s.nodes) (file : String) (line : Nat) :
    Ev.nfree false ∈ (release c g s n.addr file line).2 ↔
      g = .malloc ∧ n.sepNode = false ∧ matching s.typeChecking n.allocator c.mallocA = true ∧ validGuard n = true := by
  have hr : s.table.retrieveNode n.addr = some n := (retrieve_some_iff inv).mpr ⟨hn, rfl⟩
  have hz : n.addr ≠ 0 := inv.nonnull n hn
  have hp : (abs (invalidateMemory s n.addr)).map n.addr = some (poison n) := by
    show (invalidateMemory s n.addr).table.retrieveNode n.addr = some (poison n)
    unfold invalidateMemory
    simp only [hr]
    rw [retrieve_modify inv poison poison_addr n.addr n.addr]
    simp [hr]
  have htc : (invalidateMemory s n.addr).typeChecking = s.typeChecking := by
    unfold invalidateMemory; split <;> rfl
  have hv : validGuard (poison n) = validGuard n := validGuard_congr (guardAt_poison n)
  cases g with
  | malloc =>
    simp only [release]
    rw [inline_record_freed_iff _ _ _ _ _ _ (poison n) hp hz, htc, hv]
    simp [poison]
  | new =>
    simp only [release]
    rw [inline_record_freed_iff _ _ _ _ _ _ (poison n) hp hz]
    simp
  | newArray =>
    simp only [release]
    rw [inline_record_freed_iff _ _ _ _ _ _ (poison n) hp hz]
    simp

/-- … so with type checking on and the `new` / `new[]` families different from the `malloc` family, never -/
theorem overloads_never_free_inline_record_partial (c : Current) (g : Family) (s : State) (inv : s.Inv) (n : Node)
    (hn : n ∈ s.nodes) (file : String) (line : Nat) (htc : s.typeChecking = true)
    (hlay : n.sepNode = false → family n.allocator ≠ family c.mallocA)
    (hc : ConsistentIds n.allocator c.mallocA) :
    Ev.nfree false ∉ (release c g s n.addr file line).2 := by
  rw [overloads_free_inline_record_iff c g s inv n hn]
  rintro ⟨_, h2, h3, _⟩
  have := (matching_iff s.typeChecking n.allocator c.mallocA hc).mp h3
  rcases this with h | h
  · rw [htc] at h; exact absurd h (by decide)
  · exact hlay h2 h

/-! ## the misuse path as REGENERATED from the source (`Gen/MisuseCode.lean`, interpreted by `Model/Misuse.lean`)

Everything above is stated about the hand model (`dealloc`, `checkForCorruption`, `invalidateMemory`).  The theorems of this
section say that the statement lists, tables and strings extracted from the source at check time, executed by the
interpreters of `Model/Misuse.lean`, ARE that hand model — so the classification, poisoning and transparency theorems speak
about what `MemoryLeakDetector.cpp` / `TestMemoryAllocator.cpp` say today. -/

section Regenerated
open Misuse

/-- the three category lines are pairwise different and each is decoded to its own category -/
theorem category_lines_decodable (k : FailKind) : kindOfMessage (categoryLine k) = some k := by
  cases k <;> decide

/-- the three report functions of the source carry exactly the three categories the property names; only the non-allocated
    report takes its allocation side from `"<unknown>", 0, 0, NullUnknownAllocator` -/
theorem report_messages_are_the_categories :
    Gen.Misuse.reportFns.map (fun r => (r.name, kindOfMessage r.message, r.allocFromNode)) =
      [("reportDeallocateNonAllocatedMemoryFailure", some FailKind.nonAllocated, false),
       ("reportAllocationDeallocationMismatchFailure", some FailKind.mismatch, true),
       ("reportMemoryCorruptionFailure", some FailKind.corruption, true)] := by decide

/-- `NullUnknownAllocator` with the regenerated name strings is the allocator the model prints in the non-allocated report -/
theorem null_unknown_regenerated : nullUnknownGen = Allocator.nullUnknown := by decide

/-- `checkForCorruption` as regenerated (order `mismatch first, then the guard bytes, then the separate record`, the `else if`s,
    `allocator->actualAllocator()` on the releasing side) is the modelled one, for every record, allocator and flag -/
theorem checkForCorruption_regenerated (tc : Bool) (n : Node) (file : String) (line : Nat) (a : Allocator) (sep : Bool) :
    checkGen tc n file line a sep = checkForCorruption tc n file line a sep := by
  unfold checkGen checkForCorruption
  simp only [Gen.Misuse.checkChain, runChain, condHolds, actEvs]
  cases h1 : matching tc n.allocator a <;> cases h2 : validGuard n <;> cases sep <;>
    simp [reportEv, reportFn, Gen.Misuse.reportFns, kindOfMessage, categoryLine, failEv]

/-- `deallocMemory` as regenerated (NULL first, `removeNode`, non-allocated report and return, then — for an allocator object
    that is alive — size read, `checkForCorruption`, `free_memory`, in this order) is the modelled `dealloc` -/
theorem deallocMemory_regenerated (s : State) (a : Allocator) (addr : Nat) (file : String) (line : Nat) (sep : Bool) :
    deallocGen false s a addr file line sep = dealloc s a addr file line sep := by
  unfold deallocGen dealloc
  simp only [Gen.Misuse.deallocStmts, List.foldl, stmtStep]
  by_cases hz : addr = 0
  · simp [hz]
  · cases hr : s.table.retrieveNode addr with
    | none =>
      simp [hz, hr, reportEv, reportFn, Gen.Misuse.reportFns, kindOfMessage, categoryLine, nonAllocatedEv,
        null_unknown_regenerated]
    | some n =>
      simp [hz, hr, bodyStep, checkForCorruption_regenerated]

/-- the branch the hand model does not have: when `allocator->hasBeenDestroyed()` answers true the record of an outstanding
    block is dropped, nothing is checked, reported or handed back (outside the property's quantifier: the releasing
    allocator object is dead) -/
theorem destroyed_allocator_release (s : State) (a : Allocator) (addr : Nat) (file : String) (line : Nat) (sep : Bool) :
    deallocGen true s a addr file line sep =
      if addr = 0 then (s, [])
      else match s.table.retrieveNode addr with
        | none => (s, [nonAllocatedEv file line a])
        | some _ => ({ s with table := s.table.unlinkNode addr }, []) := by
  unfold deallocGen
  simp only [Gen.Misuse.deallocStmts, List.foldl, stmtStep]
  by_cases hz : addr = 0
  · simp [hz]
  · cases hr : s.table.retrieveNode addr with
    | none =>
      simp [hz, hr, reportEv, reportFn, Gen.Misuse.reportFns, kindOfMessage, categoryLine, nonAllocatedEv,
        null_unknown_regenerated]
    | some n => simp [hz, hr]

/-- `invalidateMemory` as regenerated (lookup without unlinking, fill byte, exactly `node->size_` bytes) is the modelled one -/
theorem invalidateMemory_regenerated (s : State) (addr : Nat) : invalidateGen s addr = invalidateMemory s addr := by
  have hp : poisonGen = poison := by
    funext n
    simp [poisonGen, poison, poisonLen, Gen.Misuse.invalidateLenDelta, Gen.Misuse.invalidateFill, Gen.LeakDetector.poisonByte]
  unfold invalidateGen invalidateMemory
  rw [hp]
  rfl

/-- the type-checking switch: `enable…` sets the flag, `disable…` clears it, a new detector has it set -/
theorem type_checking_switch_regenerated (s : State) (hp : Nat) :
    enableTypeCheckingGen s = enableTypeChecking s ∧ disableTypeCheckingGen s = disableTypeChecking s ∧
    (State.init hp).typeChecking = Gen.Misuse.typeCheckingInitial := ⟨rfl, rfl, rfl⟩

/-- `isOfEqualType` as regenerated is equality of the `name()` strings, which is what `matching` hands to `matchingAllocation` -/
theorem equal_type_is_name_equality (tc : Bool) (a b : Allocator) :
    matching tc a b =
      Gen.LeakDetector.matchingAllocation (a.actual.id == b.actual.id) tc (Gen.Misuse.isOfEqualType b.actual.name a.actual.name) := rfl

/-- The classification of a release (four disjoint iff-cases) for `deallocMemory` AS THE SOURCE HAS IT at check time. -/
theorem dealloc_classification_regenerated (s : State) (a : Allocator) (addr : Nat) (file : String) (line : Nat) (sep : Bool)
    (hc : ∀ n, (abs s).map addr = some n → ConsistentIds n.allocator a) :
    (firstFail (deallocGen false s a addr file line sep).2 = none ↔
      addr = 0 ∨ ∃ n, (abs s).map addr = some n ∧ (s.typeChecking = false ∨ family n.allocator = family a) ∧ GuardIntact n) ∧
    (firstFail (deallocGen false s a addr file line sep).2 = some .nonAllocated ↔ addr ≠ 0 ∧ (abs s).map addr = none) ∧
    (firstFail (deallocGen false s a addr file line sep).2 = some .mismatch ↔
      addr ≠ 0 ∧ ∃ n, (abs s).map addr = some n ∧ s.typeChecking = true ∧ family n.allocator ≠ family a) ∧
    (firstFail (deallocGen false s a addr file line sep).2 = some .corruption ↔
      addr ≠ 0 ∧ ∃ n, (abs s).map addr = some n ∧ (s.typeChecking = false ∨ family n.allocator = family a) ∧ ¬ GuardIntact n) := by
  rw [deallocMemory_regenerated]
  exact dealloc_classification s a addr file line sep hc

/-- release through a wrapper of the source with `invalidateMemory` and `deallocMemory` both taken from the regenerated lists:
    the block comes back once, all user bytes poisoned -/
theorem poisoned_before_release_regenerated (w : Gen.LeakDetector.ReleaseWrapper) (hw : w ∈ Gen.LeakDetector.releaseWrappers)
    (c : Current) (s : State) (inv : s.Inv) (n : Node) (hn : n ∈ s.nodes) (file : String) (line : Nat) :
    freedBytes (deallocGen false (invalidateGen s n.addr) (c.byGetter w.getter) n.addr
        (if w.withLocation then file else "<unknown>") (if w.withLocation then line else 0) w.separateNode).2 =
      [(n.addr, List.replicate n.size Gen.Misuse.invalidateFill)] := by
  rw [deallocMemory_regenerated, invalidateMemory_regenerated]
  have h := poisoned_before_release_all_wrappers w hw c s inv n hn file line
  have hi : w.invalidateThenDealloc = true := release_wrappers_poison_first w hw
  simp only [releaseBy, hi, if_true] at h
  exact h

/-! ### the allocator objects the library creates itself -/

/-- the three default allocators are three different families, none of them is the `NullUnknownAllocator`'s or the base
    class default (`CrashOnAllocationAllocator`): `new`/`delete[]`, `new[]`/`free`, … ARE mismatches -/
theorem default_families_distinct :
    [family defaultNew, family defaultNewArray, family defaultMalloc, family nullUnknownGen, family (crashAllocator 0)].Nodup := by
  decide

/-- concretely: with type checking on, a block of one default allocator released through another one is a mismatch, through
    the same one (or a second object with its name) it is not -/
theorem default_allocators_mismatch_iff (tc : Bool) :
    matching tc defaultNew defaultNewArray = !tc ∧ matching tc defaultNewArray defaultNew = !tc ∧
    matching tc defaultNew defaultMalloc = !tc ∧ matching tc defaultMalloc defaultNew = !tc ∧
    matching tc defaultNewArray defaultMalloc = !tc ∧ matching tc defaultMalloc defaultNewArray = !tc ∧
    matching tc defaultNew defaultNew = true ∧ matching tc defaultNewArray defaultNewArray = true ∧
    matching tc defaultMalloc defaultMalloc = true := by
  cases tc <;> decide

/-- `MemoryLeakAllocator(orig).free_memory` as regenerated is a plain release through `orig` with the inline layout … -/
theorem mla_free_is_release_through_original (i : Nat) (o : Allocator) (s : State) (addr : Nat) (file : String) (line : Nat) :
    mlaFree (.wrap i o) o s addr file line = dealloc s o addr file line false := rfl

/-- … `alloc_memory` an allocation for `orig` … -/
theorem mla_alloc_is_alloc_for_original (i : Nat) (o : Allocator) (s : State) (size : Nat) (file : String) (line result : Nat)
    (fill : UInt8) :
    mlaAlloc (.wrap i o) o s size file line result fill = alloc s o size file line false result true fill := rfl

/-- … hence its report is the one of a release through the wrapper object itself (`wrapper_transparent`) -/
theorem mla_free_reports_like_the_wrapper (i : Nat) (o : Allocator) (s : State) (addr : Nat) (file : String) (line : Nat) :
    firstFail (mlaFree (.wrap i o) o s addr file line).2 = firstFail (dealloc s (.wrap i o) addr file line false).2 := by
  rw [mla_free_is_release_through_original]
  exact ((wrapper_transparent s i o addr file line false).2.2.2).symm

theorem firstFail_filter_not_ufree (l : List Ev) : firstFail (l.filter (fun e => !isUfree e)) = firstFail l := by
  induction l with
  | nil => rfl
  | cons e rest ih =>
    cases e with
    | ufree a ad sz u => rw [List.filter_cons_of_neg (by simp [isUfree])]; exact ih
    | ufreeRaw a ad sz => rw [List.filter_cons_of_neg (by simp [isUfree])]; exact ih
    | nfree g => rw [List.filter_cons_of_neg (by simp [isUfree])]; exact ih
    | fail k af al asz aty ff fl fty => rw [List.filter_cons_of_pos (by simp [isUfree])]; rfl
    | _ => rw [List.filter_cons_of_pos (by simp [isUfree])]; exact ih

theorem freedBytes_filter_not_ufree (l : List Ev) : freedBytes (l.filter (fun e => !isUfree e)) = [] := by
  induction l with
  | nil => rfl
  | cons e rest ih =>
    cases e with
    | ufree a ad sz u => rw [List.filter_cons_of_neg (by simp [isUfree])]; exact ih
    | ufreeRaw a ad sz => rw [List.filter_cons_of_neg (by simp [isUfree])]; exact ih
    | nfree g => rw [List.filter_cons_of_neg (by simp [isUfree])]; exact ih
    | fail k af al asz aty ff fl fty => rw [List.filter_cons_of_pos (by simp [isUfree])]; exact ih
    | _ => rw [List.filter_cons_of_pos (by simp [isUfree])]; exact ih

/-- a release THROUGH the `NullUnknownAllocator` is classified like any other release (its family is its own), and nothing is
    handed back to the underlying allocator -/
theorem null_allocator_release (s : State) (addr : Nat) (file : String) (line : Nat) (sep : Bool) :
    firstFail (nullRelease s addr file line sep).2 = firstFail (dealloc s nullUnknownGen addr file line sep).2 ∧
    freedBytes (nullRelease s addr file line sep).2 = [] :=
  ⟨firstFail_filter_not_ufree _, freedBytes_filter_not_ufree _⟩

/-- an acquisition through it tracks nothing and returns NULL -/
theorem null_allocator_acquire (s : State) (size : Nat) (file : String) (line : Nat) (sep : Bool) :
    (nullAcquire s size file line sep).1 = s ∧ Ev.ret 0 ∈ (nullAcquire s size file line sep).2 := by
  unfold nullAcquire alloc
  by_cases h : sizeOverflows size = true <;> simp [h, isUalloc]

/-- `CrashOnAllocationAllocator`: `UT_CRASH()` runs exactly when the global detector's allocation number is the chosen one
    (both `unsigned`) -/
theorem crash_allocator_crashes_iff (seq n : Nat) : crashes seq n = true ↔ seq % 2 ^ 32 = n % 2 ^ 32 := by
  simp [crashes, Gen.Misuse.crashCompare]

/-! ### the text handed to `MemoryLeakFailure::fail` -/

/-- The text of a report, for every category and every value of its fields: the category line the property names, then the
    allocation line and the deallocation line built with the regenerated formats (statement order of `reportFailure`; the
    reporter is called last, so it sees all three). -/
theorem fail_text_lines (k : FailKind) (af : String) (al asz : Nat) (aty ff : String) (fl : Nat) (fty : String) :
    failLines (.fail k af al asz aty ff fl fty) =
      [categoryLine k,
       format Gen.Misuse.allocLocationFormat [af, toString (toInt32 al), toString (asz % 2 ^ 64), aty],
       format Gen.Misuse.freeLocationFormat [ff, toString (toInt32 fl), fty]] := by
  cases k <;> rfl

/-- hence the first line of the text of every report of a release decodes to the category of the event -/
theorem fail_text_first_line_is_category (e : Ev) (k : FailKind) (h : firstFail [e] = some k) :
    ((failLines e).head?).bind kindOfMessage = some k := by
  cases e with
  | fail k' af al asz aty ff fl fty =>
    simp only [firstFail, Option.some.injEq] at h
    subst h
    rw [fail_text_lines]
    exact category_lines_decodable k'
  | _ => simp [firstFail] at h

end Regenerated

/-! ## non-vacuity -/

def c6New : Allocator := .plain 0 "Standard New Allocator" "new" "delete"
def c6New' : Allocator := .plain 3 "Standard New Allocator" "new" "delete"
def c6Malloc : Allocator := .plain 2 "Standard Malloc Allocator" "malloc" "free"
def c6Wrapped : Allocator := .wrap 9 (.wrap 10 c6New)

def c6State : State :=
  (run (State.init 73) [.enable, .alloc c6New 4 "a.c" 1 false 1168 true 0xA5, .alloc c6Malloc 2 "b.c" 2 true 1241 true 0xA5]).1

example : firstFail (dealloc c6State c6New' 1168 "x" 1 false).2 = none := by decide
example : firstFail (dealloc c6State c6Wrapped 1168 "x" 1 false).2 = none := by decide
example : firstFail (dealloc c6State c6Malloc 1168 "x" 1 true).2 = some .mismatch := by decide
example : firstFail (dealloc (disableTypeChecking c6State) c6Malloc 1168 "x" 1 false).2 = none := by decide
example : firstFail (dealloc c6State c6New 1169 "x" 1 false).2 = some .nonAllocated := by decide
example : firstFail (dealloc (writeByte c6State 1168 5 0x00) c6New 1168 "x" 1 false).2 = some .corruption := by decide
example : firstFail (dealloc (writeByte c6State 1168 6 0x42) c6New 1168 "x" 1 false).2 = some .corruption := by decide
example : firstFail (dealloc (writeByte c6State 1168 5 0x41) c6New 1168 "x" 1 false).2 = none := by decide
example : firstFail (dealloc (writeByte c6State 1168 3 0x00) c6New 1168 "x" 1 false).2 = none := by decide
example : freedBytes (release { newA := c6New, newArrayA := c6New, mallocA := c6Malloc } .malloc c6State 1241 "x" 1).2
    = [(1241, [0xCD, 0xCD])] := by decide
example : ConsistentIds c6New c6New' := by intro h; exact absurd h (by decide)

-- regenerated misuse path: concrete runs
open Misuse in
example : (deallocGen false c6State c6Malloc 1168 "x.c" 7 true).2 =
    [.fail .mismatch "a.c" 1 4 "new" "x.c" 7 "free", .ufree c6Malloc 1168 4 [0xA5, 0xA5, 0xA5, 0xA5]] := by decide
open Misuse in
example : (deallocGen true c6State c6Malloc 1168 "x.c" 7 true).2 = [] := by decide
open Misuse in
example : failText (.fail .mismatch "a.c" 1 4 "new" "x.c" 7 "free") =
    "Allocation/deallocation type mismatch\n   allocated at file: a.c line: 1 size: 4 type: new\n   deallocated at file: x.c line: 7 type: free\n" := by decide
set_option maxRecDepth 100000 in
open Misuse in
example : failText (nonAllocatedEv "x.c" 9 c6New) =
    "Deallocating non-allocated memory\n   allocated at file: <unknown> line: 0 size: 0 type: unknown\n   deallocated at file: x.c line: 9 type: delete\n" := by decide
open Misuse in
example : toInt32 4294967295 = -1 ∧ toInt32 2147483647 = 2147483647 := by decide
open Misuse in
example : firstFail (nullRelease c6State 1241 "x" 1 true).2 = some .mismatch ∧
    firstFail (nullRelease (disableTypeChecking c6State) 1241 "x" 1 true).2 = none ∧
    freedBytes (dealloc (disableTypeChecking c6State) c6Malloc 1241 "x" 1 true).2 ≠ [] := by decide
open Misuse in
example : (invalidateGen c6State 1168).table.retrieveNode 1168 = (invalidateMemory c6State 1168).table.retrieveNode 1168 ∧
    ((invalidateGen c6State 1168).table.retrieveNode 1168).map (·.user) = some [0xCD, 0xCD, 0xCD, 0xCD] := by decide
open Misuse in
example : crashes 5 5 = true ∧ crashes 5 6 = false ∧ crashes (2 ^ 32 + 5) 5 = true := by decide

end LeakDetector
