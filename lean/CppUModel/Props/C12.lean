import CppUModel.Proofs.CommandLine
import CppUModel.Proofs.CommandLineGen
import CppUModel.Gen.ParseDispatch
/-!
# C12 — command line: every argv is parsed safely and means what the help text says

Property theorems only.  Model: `CppUModel/Model/CommandLine.lean` (from
`src/CppUTest/CommandLineArguments.cpp` and `CommandLineTestRunner.cpp`); vocabulary
(`Config`, `Opt`, `render`, `meaning`, `AtoI/AtoU`): `CppUModel/Spec/CommandLine.lean`; the dispatch
chain regenerated from the source: `CppUModel/Gen/ParseDispatch.lean`.

What is proved here is about the MODEL, for all argument vectors / all option lists (no bound);
that the model is the code is checked on every run by the `h_c12` correspondence and by the
regenerated table.  Memory safety of the *compiled* parser is observed under ASan/UBSan, not
proved; for the model it holds by construction (see `parse_total`).
-/
namespace CommandLine
open Text

/-! ## the model's dispatch table is the source's `if / else if` chain -/

def handlerText : Handler → String
  | .help => "needHelp_=true;correctParameters=false;"
  | .verbose => "verbose_=true;"
  | .veryVerbose => "veryVerbose_=true;"
  | .color => "color_=true;"
  | .separateProcess => "runTestsAsSeperateProcess_=true;"
  | .reversing => "reversing_=true;"
  | .listGroups => "listTestGroupNames_=true;"
  | .listNames => "listTestGroupAndCaseNames_=true;"
  | .listLocations => "listTestLocations_=true;"
  | .runIgnored => "runIgnored_=true;"
  | .crashOnFail => "crashOnFail_=true;"
  | .noRethrow => "rethrowExceptions_=false;"
  | .repeatCount => "setRepeatCount(ac_,av_,i);"
  | .groupFilter => "addGroupFilter(ac_,av_,i);"
  | .dotName [45, 116] false false => "correctParameters=addGroupDotNameFilter(ac_,av_,i,\"-t\",false,false);"
  | .dotName [45, 115, 116] true false => "correctParameters=addGroupDotNameFilter(ac_,av_,i,\"-st\",true,false);"
  | .dotName [45, 120, 116] false true => "correctParameters=addGroupDotNameFilter(ac_,av_,i,\"-xt\",false,true);"
  | .dotName [45, 120, 115, 116] true true => "correctParameters=addGroupDotNameFilter(ac_,av_,i,\"-xst\",true,true);"
  | .dotName _ _ _ => "?"
  | .strictGroup => "addStrictGroupFilter(ac_,av_,i);"
  | .exclGroup => "addExcludeGroupFilter(ac_,av_,i);"
  | .exclStrictGroup => "addExcludeStrictGroupFilter(ac_,av_,i);"
  | .nameFilter => "addNameFilter(ac_,av_,i);"
  | .strictName => "addStrictNameFilter(ac_,av_,i);"
  | .exclName => "addExcludeNameFilter(ac_,av_,i);"
  | .exclStrictName => "addExcludeStrictNameFilter(ac_,av_,i);"
  | .shuffle => "correctParameters=setShuffle(ac_,av_,i);"
  | .testForm [84, 69, 83, 84, 40] => "addTestToRunBasedOnVerboseOutput(ac_,av_,i,\"TEST(\");"
  | .testForm [73, 71, 78, 79, 82, 69, 95, 84, 69, 83, 84, 40] => "addTestToRunBasedOnVerboseOutput(ac_,av_,i,\"IGNORE_TEST(\");"
  | .testForm _ => "?"
  | .outputType => "correctParameters=setOutputType(ac_,av_,i);"
  | .plugin => "correctParameters=plugin->parseAllArguments(ac_,av_,i);"
  | .packageName => "setPackageName(ac_,av_,i);"

/-- The regenerated chain of `CommandLineArguments::parse` (literal, exact-vs-`startsWith`,
    statement), in source order, is the table the model's `dispatch` runs on. -/
theorem dispatch_table_eq_source :
    Gen.ParseDispatch.table = table.map (fun e => ⟨e.lit, e.exact, handlerText e.h⟩) := by decide

/-- the final `else` of the chain rejects -/
theorem dispatch_else_eq_source : Gen.ParseDispatch.finalElse = "correctParameters=false;" := by decide

/-- what the model takes each of the eight `add…Filter` functions to do -/
def filterFns : List (Gen.ParseDispatch.FilterFn × Handler) := [
  (⟨"addGroupFilter", [45, 103], true, false, false⟩, .groupFilter),
  (⟨"addStrictGroupFilter", [45, 115, 103], true, true, false⟩, .strictGroup),
  (⟨"addExcludeGroupFilter", [45, 120, 103], true, false, true⟩, .exclGroup),
  (⟨"addExcludeStrictGroupFilter", [45, 120, 115, 103], true, true, true⟩, .exclStrictGroup),
  (⟨"addNameFilter", [45, 110], false, false, false⟩, .nameFilter),
  (⟨"addStrictNameFilter", [45, 115, 110], false, true, false⟩, .strictName),
  (⟨"addExcludeNameFilter", [45, 120, 110], false, false, true⟩, .exclName),
  (⟨"addExcludeStrictNameFilter", [45, 120, 115, 110], false, true, true⟩, .exclStrictName) ]

/-- The option name each `add…Filter` function passes to `getParameterField`, the list it
    prepends to and its `strictMatching()/invertMatching()` calls, regenerated from the source,
    are what the model was written against … -/
theorem filter_functions_eq_source : Gen.ParseDispatch.filterFns = filterFns.map Prod.fst := by decide

/-- … its statement in the chain is the call of that function … -/
theorem filter_functions_dispatched :
    ∀ e ∈ filterFns, handlerText e.2 = e.1.name ++ "(ac_,av_,i);" := by decide

/-- … and the model's handler does exactly that. -/
theorem filter_handlers_run (env : Env) (c : Config) (arg : Bytes) (next : Option Bytes) :
    ∀ e ∈ filterFns, runHandler env e.2 c arg next =
      (if e.1.group then addGroup e.1.lit.length e.1.strict e.1.invert c arg next
       else addName e.1.lit.length e.1.strict e.1.invert c arg next) := by
  intro e he
  simp only [filterFns, List.mem_cons, List.not_mem_nil, or_false] at he
  rcases he with rfl|rfl|rfl|rfl|rfl|rfl|rfl|rfl <;> rfl

/-! ## documented options mean what the help text says -/

/-- **parse_render.** For every list of documented options, in any order and multiplicity, each in
    attached or separated form, with arbitrary identifier-like values and in-range numbers:
    the parser accepts the rendered vector and the configuration is the documented one. -/
theorem parse_render (env : Env) (prog : Bytes) (os : List (Opt × Form)) :
    parse env (prog :: render os) = .ok (meaning env (os.map Prod.fst)) := by
  have h := go_render env os {} [] (by intro a ha; cases ha)
  simpa [parse, meaning, go] using h

/-- One documented option is one step of the loop (the per-option lemma `parse_render` is the
    fold of): whatever the configuration so far and whatever follows, as long as the next
    argument is not a number that `-r`/`-s` would take. -/
theorem parse_step (env : Env) (c : Config) (o : Opt × Form) (rest : List Bytes) (h : NextOk rest.head?) :
    go env c false (render1 o ++ rest) = go env (applyOpt env c o.1) false rest :=
  go_render1 env c o rest h

/-- Documented options followed by anything: the loop reaches the rest with the documented
    configuration of the options. -/
theorem parse_render_then (env : Env) (prog : Bytes) (os : List (Opt × Form)) (rest : List Bytes)
    (h : NextOk rest.head?) :
    parse env (prog :: (render os ++ rest)) = go env (meaning env (os.map Prod.fst)) false rest := by
  simpa [parse, meaning] using go_render env os {} rest h

/-- the group/name filters accumulate, most recent first; scalars take the last value -/
theorem meaning_append (env : Env) (os : List Opt) (o : Opt) :
    meaning env (os ++ [o]) = applyOpt env (meaning env os) o := by
  simp [meaning]

/-! ## rejection -/

/-- `-h` after any documented options: rejected, help requested, nothing after it is read. -/
theorem help_rejects (env : Env) (prog : Bytes) (os : List (Opt × Form)) (rest : List Bytes) :
    parse env (prog :: (render os ++ [45, 104] :: rest)) =
      .reject { meaning env (os.map Prod.fst) with needHelp := true } := by
  rw [parse_render_then env prog os _ (by intro a ha; simp at ha; subst ha; rfl)]
  exact go_cons_reject env _ _ _ rest false (step_help env _ _)

/-- An argument that matches no branch of the chain (and is not a number that a preceding
    `-r`/`-s` takes as its value) after any documented options: rejected, help not requested. -/
theorem unknown_rejects (env : Env) (prog a : Bytes) (os : List (Opt × Form)) (rest : List Bytes)
    (hu : dispatch a = none) (hn : nonNumeric a = true) :
    parse env (prog :: (render os ++ a :: rest)) = .reject (meaning env (os.map Prod.fst)) := by
  rw [parse_render_then env prog os _ (by intro b hb; simp at hb; subst hb; exact hn)]
  exact go_cons_reject env _ _ _ rest false (step_unknown env _ a _ hu)

/-- **help_or_unknown_rejects.** -/
theorem help_or_unknown_rejects (env : Env) (prog a : Bytes) (os : List (Opt × Form)) (rest : List Bytes)
    (h : a = [45, 104] ∨ (dispatch a = none ∧ nonNumeric a = true)) :
    (parse env (prog :: (render os ++ a :: rest))).isOk = false ∧
    ((parse env (prog :: (render os ++ a :: rest))).cfg.needHelp = true ↔ a = [45, 104]) := by
  rcases h with rfl | ⟨hu, hn⟩
  · rw [help_rejects]; simp [ParseResult.isOk, ParseResult.cfg]
  · rw [unknown_rejects env prog a os rest hu hn]
    have hne : a ≠ [45, 104] := by intro e; subst e; revert hu; decide
    have hm : (meaning env (os.map Prod.fst)).needHelp = false := by
      simp only [meaning]
      generalize (os.map Prod.fst) = l
      suffices ∀ (l : List Opt) (c : Config), c.needHelp = false → (l.foldl (applyOpt env) c).needHelp = false from
        this l {} rfl
      intro l
      induction l with
      | nil => intro c h; simpa using h
      | cons o t ih =>
        intro c h
        apply ih
        cases o with
        | flag fl => cases fl <;> simpa [applyOpt, Flag.apply] using h
        | _ => simpa [applyOpt] using h
    simp [ParseResult.isOk, ParseResult.cfg, hm, hne]

/-- which arguments are unknown: nothing in the chain starts with a byte other than `-`, `T`, `I` -/
theorem unknown_of_first_byte (c : UInt8) (t : Bytes) (h1 : c ≠ 45) (h2 : c ≠ 84) (h3 : c ≠ 73) :
    dispatch (c :: t) = none := dispatch_other_head c t h1 h2 h3

/-- the empty string is an unknown argument -/
theorem unknown_empty : dispatch [] = none := dispatch_nil

/-- **seed_zero_rejects** (attached form `-s0`, `-s000`, …): shuffling with seed 0 is refused. -/
theorem seed_zero_rejects (env : Env) (c : Config) (ds : Bytes) (rest : List Bytes)
    (hnum : isNumber ds = true) (hz : decVal ds = 0) :
    go env c false (([45, 115] ++ ds) :: rest) = .reject { c with shuffling := true, shuffleSeed := 0 } := by
  obtain ⟨d, t, rfl, hd, _⟩ := number_cons ds hnum
  have hv := atou_number (d :: t) hnum (by omega)
  apply go_cons_reject env c _ _ rest false
  simp [step, dispatch_s_digits d t hd, runHandler, setShuffle, shuffleSeedOf, shuffleConsumed, hv, hz]

/-- separated form `-s 0`: the `0` is not taken as a seed (the clock seeds the shuffle) and is then
    an unknown argument: rejected as well. -/
theorem seed_zero_separated_rejects (env : Env) (c : Config) (ds : Bytes) (rest : List Bytes)
    (hnum : isNumber ds = true) (hz : decVal ds = 0) :
    go env c false ([45, 115] :: ds :: rest) =
      .reject { c with shuffling := true, shuffleSeed := timeSeed env.time } := by
  obtain ⟨d, t, rfl, hd, _⟩ := number_cons ds hnum
  have hv := atou_number (d :: t) hnum (by omega)
  have hs : step env c [45, 115] (some (d :: t)) =
      ⟨{ c with shuffling := true, shuffleSeed := timeSeed env.time }, true, false⟩ := by
    have hdsp : dispatch [45, 115] = some .shuffle := by decide
    simp [step, hdsp, runHandler, setShuffle, shuffleSeedOf, shuffleConsumed, hv, hz, timeSeed_ne_zero]
  rw [go_cons_ok env c _ _ _ false (by simpa using hs)]
  exact go_cons_reject env _ _ _ rest false (step_unknown env _ _ _ (dispatch_digit_head d t hd))

/-- seed 0 through the parser entry point -/
theorem seed_zero_rejects_parse (env : Env) (prog : Bytes) (os : List (Opt × Form)) (rest : List Bytes) :
    (parse env (prog :: (render os ++ [45, 115, 48] :: rest))).isOk = false := by
  rw [parse_render_then env prog os _ (by intro b hb; simp at hb; subst hb; rfl)]
  have := seed_zero_rejects env (meaning env (os.map Prod.fst)) [48] rest (by decide) (by decide)
  rw [show (([45, 115] : Bytes) ++ [48]) = [45, 115, 48] from rfl] at this
  rw [this]
  rfl

/-- an output kind other than normal / eclipse / junit / teamcity (or none at all) is refused -/
theorem output_unknown_rejects (env : Env) (c : Config) (v : Bytes) (rest : List Bytes)
    (h : outputOf v = none) :
    go env c false ([45, 111] :: v :: rest) = .reject c := by
  have hd : dispatch [45, 111] = some .outputType := by decide
  apply go_cons_reject env c c _ _ true
  simp [step, hd, runHandler, setOutputType, field_separated 2 [45, 111] v rfl, h]

/-- `-p<something>` is the plugins' business: accepted iff the plugin chain accepts that argument;
    nothing is consumed and the configuration is untouched (`-p` alone is the separate-process flag). -/
theorem plugin_decides (env : Env) (c : Config) (x : UInt8) (t : Bytes) (rest : List Bytes) :
    go env c false ((45 :: 112 :: x :: t) :: rest) =
      if env.plugin (45 :: 112 :: x :: t) then go env c false rest else .reject c := by
  have hs : step env c (45 :: 112 :: x :: t) rest.head? = ⟨c, env.plugin (45 :: 112 :: x :: t), false⟩ := rfl
  cases hp : env.plugin (45 :: 112 :: x :: t) with
  | true => rw [hp] at hs; simp [go_cons_ok env c c _ rest false hs]
  | false => rw [hp] at hs; simp [go_cons_reject env c c _ rest false hs]

/-- an option that wants a value, given as the very last argument, gets the empty string:
    `-g` adds the filter `""` (which accepts everything), `-k` changes nothing, `-o` is refused -/
theorem value_missing_at_end (env : Env) (c : Config) :
    go env c false [[45, 103]] = .ok { c with groupFilters := ⟨[], false, false⟩ :: c.groupFilters } ∧
    go env c false [[45, 107]] = .ok c ∧
    go env c false [[45, 111]] = .reject c := ⟨rfl, rfl, rfl⟩

/-! ## `-t`, `-st`, `-xt`, `-xst`: exactly one separating dot -/

/-- the value of a `-t` family option is accepted iff `split(".")` yields two tokens, i.e. iff the
    number of dots plus one for a non-empty remainder after the last dot is two -/
theorem t_accept_iff (env : Env) (c : Config) (k : FKind) (v : Bytes) :
    (step env c (k.lit 116) (some v)).good = true ↔
      v.count 46 + (if openEnd v [] then 1 else 0) = 2 := by
  rw [← splitCode_length_eq_two, ← dotNameFilters_isSome k.isStrict k.isExcl c, step_dotName_separated]
  cases dotNameFilters k.isStrict k.isExcl c (splitCode v [46]) <;> simp

/-- **t_needs_exactly_one_dot.** A value that does not end with a dot (so in particular every
    `group.name` with a non-empty name) is accepted iff it contains exactly one dot. -/
theorem t_needs_exactly_one_dot (env : Env) (c : Config) (k : FKind) (v : Bytes) (l : UInt8)
    (hl : v.getLast? = some l) (hnd : l ≠ 46) :
    (step env c (k.lit 116) (some v)).good = true ↔ v.count 46 = 1 := by
  rw [t_accept_iff]
  have : openEnd v [] = true := by simp [openEnd, hl, hnd]
  simp [this]

/-- without a dot the value is refused -/
theorem t_no_dot_rejects (env : Env) (c : Config) (k : FKind) (v : Bytes) (rest : List Bytes)
    (h : (46 : UInt8) ∉ v) : go env c false (k.lit 116 :: v :: rest) = .reject c := by
  have hl : (splitCode v [46]).length ≠ 2 := by rw [splitCode_nodot v h]; decide
  have hnone : dotNameFilters k.isStrict k.isExcl c (splitCode v [46]) = none := by
    cases hd : dotNameFilters k.isStrict k.isExcl c (splitCode v [46]) with
    | none => rfl
    | some c' => exact absurd ((dotNameFilters_isSome k.isStrict k.isExcl c (splitCode v [46])).mp (by rw [hd]; rfl)) hl
  apply go_cons_reject env c c _ _ true
  simp only [List.head?_cons, step_dotName_separated, hnone]

/-- The naive reading "accepted iff the value contains exactly one dot" is NOT what the code
    does at the two corners a trailing dot creates; kept visible, with the witnesses:
    `-t a.b.` (two dots) is accepted with name filter `b.`, `-t a.` (one dot) is refused.
    Neither vector is built from the documented options, so the property (reject OR produce a
    configuration) is not violated. -/
def t_exactly_one_dot_naive : Prop :=
  ∀ (env : Env) (c : Config) (v : Bytes), (step env c [45, 116] (some v)).good = true ↔ v.count 46 = 1

theorem t_exactly_one_dot_naive_false : ¬ t_exactly_one_dot_naive := by
  intro h
  have := (h ⟨0, []⟩ {} [97, 46]).mpr (by decide)
  revert this; decide

/-! ## `TEST(group, name)` / `IGNORE_TEST(group, name)` -/

/-- **test_form_meaning.** Both forms give a strict group filter `g` and a strict name filter `n`. -/
theorem test_form_meaning (env : Env) (prog : Bytes) (ignored : Bool) (g n : Ident) :
    parse env [prog, testPrefix ignored ++ g.val ++ [44, 32] ++ n.val ++ [41]] =
      .ok { groupFilters := [⟨g.val, true, false⟩], nameFilters := [⟨n.val, true, false⟩] } := by
  have := parse_render env prog [(.testForm ignored g n, .attached)]
  simpa [render, render1, meaning, applyOpt, FKind.filter] using this

/-- an unterminated `TEST(` form (no comma, no parenthesis; the vector `{"x", "TEST(abc"}` of DESIGN
    section 6): accepted with strict group filter = the text and an empty strict name filter -/
theorem test_form_unterminated (env : Env) (prog : Bytes) (g : Ident) :
    parse env [prog, litTEST ++ g.val] =
      .ok { groupFilters := [⟨g.val, true, false⟩], nameFilters := [⟨[], true, false⟩] } := by
  have hv := ident_ne_nil g
  have hd : dispatch (litTEST ++ g.val) = some (.testForm litTEST) := rfl
  have hf := field_attached 5 litTEST g.val none rfl hv
  have hc := ident_no_comma g
  have hname : testFormName g.val = [] := by
    simp [testFormName, subStringFromTill, find_none g.val 44 hc, subStringFrom]
  have hgroup : testFormGroup g.val = g.val := by
    cases hgv : g.val with
    | nil => exact absurd hgv hv
    | cons x t =>
      have h1 : find (x :: t) x = some 0 := by simp [find, findFrom, List.findIdx?_cons]
      have h2 : findFrom (x :: t) 0 44 = none := findFrom_zero_none _ 44 (hgv ▸ hc)
      simp [testFormGroup, subStringFromTill, h1, h2]
  have hs : step env {} (litTEST ++ g.val) none =
      ⟨{ groupFilters := [⟨g.val, true, false⟩], nameFilters := [⟨[], true, false⟩] }, true, false⟩ := by
    have hl : litTEST.length = 5 := rfl
    simp only [step, hd, runHandler, addTestForm, hl, hf, hname, hgroup]
  simp [parse, go, hs]

/-! ## totality, and what a rejected / accepted vector leads to -/

/-- **Totality.** `parse` is a total function on ALL argument vectors of byte strings: the
    definitions above are accepted by Lean's termination checker (structural recursion on the
    argument list; `Text.split` and the digit loops recurse on their input), and the model uses
    total list operations only (`drop`, `take`, `head?`, `find?`, `findIdx?`, `isPrefixOf`) — there
    is no indexing that could leave an argument.  Every vector is either rejected or yields a
    configuration. -/
theorem parse_total (env : Env) (argv : List Bytes) :
    (∃ c, parse env argv = .ok c) ∨ (∃ c, parse env argv = .reject c) := by
  cases h : parse env argv with
  | ok c => exact Or.inl ⟨c, rfl⟩
  | reject c => exact Or.inr ⟨c, rfl⟩

/-- **Reads stay inside the inputs (model level).** Every string the parser stores — each filter
    text and the package name — is empty or a contiguous part of one of the arguments
    `argv[1..]`, for ALL argument vectors (unterminated `TEST(` forms, lone prefixes, empty
    strings, … included): the slicing (`av[i] + len`, `split`, `subString`, `subStringFromTill`,
    `at(0)`) never produces anything that is not inside an argument.  That the compiled code's
    reads stay inside the buffers is observed under ASan. -/
theorem stored_strings_from_args (env : Env) (argv : List Bytes) :
    StringsFromArgs argv.tail (parse env argv).cfg :=
  go_strings env argv.tail argv.tail {} false (fun _ h => h)
    ⟨fun _ h => (by cases h), fun _ h => (by cases h), Or.inl rfl⟩

/-- arguments after the one that is rejected are never looked at -/
theorem reject_stops (env : Env) (c c' : Config) (a : Bytes) (k : Bool) (rest rest' : List Bytes)
    (h : step env c a rest.head? = ⟨c', false, k⟩) (h' : rest'.head? = rest.head?) :
    go env c false (a :: rest) = go env c false (a :: rest') := by
  rw [go_cons_reject env c c' a rest k h, go_cons_reject env c c' a rest' k (h' ▸ h)]

/-- A rejected vector prints help (iff `-h` was seen) or usage, creates only the console output,
    makes no call to the registry besides installing and removing the `SetPointerPlugin`, runs no
    test and returns 1. -/
theorem runner_reject_runs_nothing (ps : List ProbeTest) (c : Config) :
    (runner ps (.reject c)).ran = [] ∧
    (runner ps (.reject c)).calls = [.install nameSetPointer, .remove nameSetPointer] ∧
    (runner ps (.reject c)).rc = 1 ∧
    (runner ps (.reject c)).printed = (if c.needHelp then .help else .usage) := by
  simp [runner]

/-- An accepted configuration without a list mode: the test bodies that run are, `repeatCount`
    times over, the selected tests (ignored ones only with `-ri`) in registry order, reversed
    with `-b`. -/
theorem runner_ok_runs_selected (ps : List ProbeTest) (c : Config)
    (h : c.listGroups = false ∧ c.listNames = false ∧ c.listLocations = false) :
    (runner ps (.ok c)).ran = (List.replicate c.repeatCount (oneRun c ps)).flatten := by
  have : ∀ n, loopRan c ps n = (List.replicate n (oneRun c ps)).flatten := by
    intro n
    induction n with
    | zero => rfl
    | succ n ih => simp [loopRan, ih, List.replicate_succ]
  simp [runner, h.1, h.2.1, h.2.2, this]

/-- every index that runs is a selected test of the registry, and the ignored ones need `-ri` -/
theorem runner_runs_only_selected (ps : List ProbeTest) (c : Config) (i : Nat) (hi : i ∈ oneRun c ps) :
    ∃ p, ps[i]? = some p ∧ selects c p.group p.name = true ∧ (p.ignored = true → c.runIgnored = true) := by
  have hm : i ∈ bodiesRun c ps := by
    unfold oneRun at hi
    split at hi
    · exact List.mem_reverse.mp hi
    · exact hi
  simp only [bodiesRun, List.mem_filter, List.mem_range] at hm
  cases hp : ps[i]? with
  | none => simp [hp] at hm
  | some p =>
    simp only [hp, Bool.and_eq_true, Bool.or_eq_true, Bool.not_eq_true'] at hm
    refine ⟨p, rfl, hm.2.1, ?_⟩
    intro hig
    rcases hm.2.2 with h | h
    · rw [hig] at h; cases h
    · exact h

/-- a list mode (`-lg`, `-ln`, `-ll`) runs no test -/
theorem runner_list_runs_nothing (ps : List ProbeTest) (c : Config)
    (h : c.listGroups = true ∨ c.listNames = true ∨ c.listLocations = true) :
    (runner ps (.ok c)).ran = [] ∧ (runner ps (.ok c)).rc = 0 := by
  rcases h with h | h | h <;> simp [runner, h]

/-! ## the help and usage texts list exactly the options -/

def Flag.all : List Flag := [.v, .vv, .c, .p, .b, .ri, .f, .e, .ci, .lg, .ln, .ll]
def FKind.all : List FKind := [.sub, .strict, .excl, .exclStrict]
def OutKind.all : List OutKind := [.normal, .eclipse, .junit, .teamcity]

/-- how an option is spelled in the documentation: its literal (for `-o`: with the kind) -/
def Opt.spelling : Opt → Bytes
  | .flag fl => fl.lit
  | .repeatDefault => [45, 114]
  | .repeatN _ => [45, 114]
  | .shuffle => [45, 115]
  | .shuffleSeed _ => [45, 115]
  | .group k _ => k.lit 103
  | .name k _ => k.lit 110
  | .test k _ _ => k.lit 116
  | .testForm i _ _ => testPrefix i
  | .output o => [45, 111] ++ o.lit
  | .package _ => [45, 107]

/-- every spelling an `Opt` can have -/
def optNames : List Bytes :=
  Flag.all.map Flag.lit ++ [[45, 114], [45, 115]] ++ FKind.all.map (·.lit 103) ++ FKind.all.map (·.lit 110) ++
  FKind.all.map (·.lit 116) ++ [testPrefix false, testPrefix true] ++ OutKind.all.map (fun o => [45, 111] ++ o.lit) ++ [[45, 107]]

/-- `optNames` really is every option of the datatype -/
theorem optNames_complete (o : Opt) : o.spelling ∈ optNames := by
  cases o with
  | flag fl => cases fl <;> decide
  | group k v => cases k <;> (simp only [Opt.spelling]; decide)
  | name k v => cases k <;> (simp only [Opt.spelling]; decide)
  | test k g n => cases k <;> (simp only [Opt.spelling]; decide)
  | testForm i g n => cases i <;> (simp only [Opt.spelling]; decide)
  | output o => cases o <;> decide
  | repeatDefault => decide
  | repeatN n => simp only [Opt.spelling]; decide
  | shuffle => decide
  | shuffleSeed s => simp only [Opt.spelling]; decide
  | package v => simp only [Opt.spelling]; decide

/-- the attached rendering of an option starts with the documented spelling -/
theorem render_starts_with_name (o : Opt) : ∃ a, render1 (o, .attached) = [a] ∧ startsWith a o.spelling = true := by
  cases o with
  | flag fl => exact ⟨_, rfl, by cases fl <;> decide⟩
  | group k v => exact ⟨_, rfl, by simp [startsWith, Opt.spelling]⟩
  | name k v => exact ⟨_, rfl, by simp [startsWith, Opt.spelling]⟩
  | test k g n => exact ⟨_, rfl, by simp [startsWith, Opt.spelling]⟩
  | testForm i g n => exact ⟨_, rfl, by simp [startsWith, Opt.spelling, List.append_assoc]⟩
  | output o => exact ⟨_, rfl, by simp [startsWith, Opt.spelling]⟩
  | repeatDefault => exact ⟨_, rfl, by decide⟩
  | repeatN n => exact ⟨_, rfl, by simp [startsWith, Opt.spelling]⟩
  | shuffle => exact ⟨_, rfl, by decide⟩
  | shuffleSeed s => exact ⟨_, rfl, by simp [startsWith, Opt.spelling]⟩
  | package v => exact ⟨_, rfl, by simp [startsWith, Opt.spelling]⟩

def litHelp : Bytes := [45, 104]   -- -h

/-- **usage() mentions every option** of the `Opt` datatype … -/
theorem usage_mentions_every_option : ∀ n ∈ optNames, n ∈ Gen.ParseDispatch.usageEntries := by decide

/-- … and nothing else (besides `-h`). -/
theorem usage_mentions_only_options : ∀ t ∈ Gen.ParseDispatch.usageEntries, t ∈ optNames ∨ t = litHelp := by decide

/-- help() mentions nothing but options of the datatype (and `-h`) -/
theorem help_mentions_only_options : ∀ t ∈ Gen.ParseDispatch.helpEntries, t ∈ optNames ∨ t = litHelp := by decide

/-- **help() mentions every option** of the `Opt` datatype (full strength: `-ri` has had its line
    since the commit "fix: help text documents the -ri option"). -/
theorem help_mentions_every_option : ∀ n ∈ optNames, n ∈ Gen.ParseDispatch.helpEntries := by decide

/-- a documented spelling is matched by some branch of the (regenerated) chain of `parse` -/
def genDispatches (t : Bytes) : Bool :=
  Gen.ParseDispatch.table.any fun e => if e.exact then t == e.lit else e.lit.isPrefixOf t

/-- **every option mentioned in help() or usage() is dispatched** (removing a branch without
    removing its documentation breaks this) -/
theorem documented_options_dispatched :
    ∀ t ∈ Gen.ParseDispatch.helpEntries ++ Gen.ParseDispatch.usageEntries, genDispatches t = true := by decide

/-- **every branch of the chain is mentioned in usage()** — `-o` through its four kinds (adding a
    branch without documenting it breaks this) -/
theorem dispatched_options_documented :
    ∀ e ∈ Gen.ParseDispatch.table,
      Gen.ParseDispatch.usageEntries.any (fun t => t == e.lit || (e.lit == [45, 111] && e.lit.isPrefixOf t)) = true := by
  decide

/-- the same for help() -/
theorem dispatched_options_in_help :
    ∀ e ∈ Gen.ParseDispatch.table,
      Gen.ParseDispatch.helpEntries.any (fun t => t == e.lit || (e.lit == [45, 111] && e.lit.isPrefixOf t)) = true := by
  decide

/-! ## `-p<x>`: the plugin chain (`TestPlugin::parseAllArguments`) -/

/-- the chain's answer: some plugin accepts -/
theorem chain_accepts_iff_any : ∀ (ps : List (Bytes → Bool)) (a : Bytes), chainAnswer ps a = ps.any (· a)
  | [], _ => rfl
  | p :: ps, a => by
    simp only [chainAnswer, List.any_cons, chain_accepts_iff_any ps a]
    cases p a <;> simp

/-- the first plugin that accepts wins: the plugins before it are asked and say no, it is asked,
    and the plugins behind it are never asked -/
theorem chain_first_accepting_wins (pre post : List (Bytes → Bool)) (p : Bytes → Bool) (a : Bytes)
    (hpre : ∀ q ∈ pre, q a = false) (hp : p a = true) :
    chainAnswer (pre ++ p :: post) a = true ∧ chainAsked (pre ++ p :: post) a = pre.length + 1 := by
  induction pre with
  | nil => simp [chainAnswer, chainAsked, hp]
  | cons q qs ih =>
    have hq : q a = false := hpre q (by simp)
    have := ih (fun r hr => hpre r (List.mem_cons_of_mem _ hr))
    simp [chainAnswer, chainAsked, hq, this]; omega

/-- if nobody accepts, everybody is asked and the argument is refused -/
theorem chain_all_refuse (ps : List (Bytes → Bool)) (a : Bytes) (h : ∀ q ∈ ps, q a = false) :
    chainAnswer ps a = false ∧ chainAsked ps a = ps.length := by
  induction ps with
  | nil => simp [chainAnswer, chainAsked]
  | cons q qs ih =>
    have hq : q a = false := h q (by simp)
    have := ih (fun r hr => h r (List.mem_cons_of_mem _ hr))
    simp [chainAnswer, chainAsked, hq, this]; omega

/-- the model's default answer is the source's inline `TestPlugin::parseArguments` … -/
theorem default_parseArguments_eq_source (a : Bytes) :
    defaultParseArguments a = Gen.ParseDispatch.defaultParseArgumentsReturns := by
  show false = Gen.ParseDispatch.defaultParseArgumentsReturns; decide

/-- … and `MemoryReporterPlugin` is the only class in the tree that overrides it (so
    `SetPointerPlugin`, `MemoryLeakWarningPlugin`, `MockSupportPlugin` answer with the default) -/
theorem only_memory_reporter_overrides :
    Gen.ParseDispatch.classesOverridingParseArguments = ["MemoryReporterPlugin"] := by decide

/-- With only default plugins in the chain — what `RunAllTests(ac, av)` installs itself
    (`MemoryLeakWarningPlugin`, `SetPointerPlugin`), plus any number of `MockSupportPlugin`s — every
    `-p<x>` argument is refused (usage is printed). -/
theorem default_plugins_refuse (env : Env) (c : Config) (x : UInt8) (t : Bytes) (rest : List Bytes)
    (h : ∀ q ∈ env.plugins, q = defaultParseArguments) :
    go env c false ((45 :: 112 :: x :: t) :: rest) = .reject c := by
  have hs : step env c (45 :: 112 :: x :: t) rest.head? = ⟨c, env.plugin (45 :: 112 :: x :: t), false⟩ := rfl
  have hp : env.plugin (45 :: 112 :: x :: t) = false :=
    (chain_all_refuse env.plugins _ (fun q hq => by rw [h q hq]; rfl)).1
  rw [hp] at hs
  exact go_cons_reject env c c _ rest false hs

/-- `-pmemoryreport=<anything>` is accepted by a chain that contains the `MemoryReporterPlugin` -/
theorem memory_reporter_accepts (ps : List (Bytes → Bool)) (t : Bytes) (h : memoryReporterParseArguments ∈ ps) :
    chainAnswer ps (litMemoryReport ++ t) = true := by
  rw [chain_accepts_iff_any]
  apply List.any_eq_true.mpr
  refine ⟨_, h, ?_⟩
  simp [memoryReporterParseArguments, litMemoryReport, isInfix]

/-- installing `SetPointerPlugin` (and `MemoryLeakWarningPlugin`) in front changes no answer -/
theorem runner_chains_answer_alike (ps : List (Bytes → Bool)) (a : Bytes) :
    chainAnswer (runnerChain ps) a = chainAnswer ps a ∧ chainAnswer (runAllTestsChain ps) a = chainAnswer ps a := by
  simp [runnerChain, runAllTestsChain, chainAnswer, defaultParseArguments]

/-! ## `CommandLineTestRunner::RunAllTests(ac, av)` -/

/-- the plugin names are the source's macros -/
theorem plugin_names_eq_source :
    nameMemLeak = Gen.ParseDispatch.pluginNameMemLeak ∧ nameSetPointer = Gen.ParseDispatch.pluginNameSetPointer := by
  decide

/-- The two plugins are installed before anything else happens and removed again whatever the
    outcome (also for `-h` and for rejected vectors): the registry ends with the plugins it had. -/
theorem runAllTests_restores_plugins (ps : List ProbeTest) (reg : List String) (r : ParseResult)
    (h1 : nameMemLeak ∉ reg) (h2 : nameSetPointer ∉ reg) :
    (runAllTestsGlue ps reg r).pluginsAfter = reg := by
  have hne : (nameMemLeak != nameSetPointer) = true := by decide
  have f1 : ∀ l : List String, nameSetPointer ∉ l → removePlugin nameSetPointer l = l := by
    intro l hl; simp only [removePlugin]; apply List.filter_eq_self.mpr
    intro x hx; simp only [bne_iff_ne, ne_eq]; intro e; exact hl (e ▸ hx)
  have f2 : ∀ l : List String, nameMemLeak ∉ l → removePlugin nameMemLeak l = l := by
    intro l hl; simp only [removePlugin]; apply List.filter_eq_self.mpr
    intro x hx; simp only [bne_iff_ne, ne_eq]; intro e; exact hl (e ▸ hx)
  simp only [runAllTestsGlue, pluginsDuring]
  have e1 : removePlugin nameSetPointer (nameSetPointer :: nameMemLeak :: reg) = nameMemLeak :: reg := by
    have := f1 reg h2
    simp only [removePlugin] at this ⊢
    simp [hne, this]
  rw [e1]
  have := f2 reg h1
  simp only [removePlugin] at this ⊢
  simp [this]

/-- the calls to the registry are bracketed: leak plugin in, pointer plugin in, …, pointer plugin out,
    leak plugin out -/
theorem runAllTests_brackets_run (ps : List ProbeTest) (reg : List String) (r : ParseResult) :
    ∃ mid, (runAllTestsGlue ps reg r).calls =
      [.install nameMemLeak, .install nameSetPointer] ++ mid ++ [.remove nameSetPointer, .remove nameMemLeak] := by
  cases r with
  | reject c => exact ⟨[], by simp [runAllTestsGlue, runner]⟩
  | ok c =>
    exact ⟨initCalls c ++
      (if c.listGroups then [.listGroups] else if c.listNames then [.listNames]
       else if c.listLocations then [.listLocations]
       else (if c.reversing then [.reverse] else []) ++ loopCalls c c.repeatCount),
      by simp [runAllTestsGlue, runner, List.append_assoc]⟩

/-- `-h` (any rejected vector) returns 1 without running: no registry call between the
    brackets, no test body, help iff help was asked for -/
theorem runAllTests_reject_runs_nothing (ps : List ProbeTest) (reg : List String) (c : Config) :
    (runAllTestsGlue ps reg (.reject c)).rc = 1 ∧ (runAllTestsGlue ps reg (.reject c)).run.ran = [] ∧
    (runAllTestsGlue ps reg (.reject c)).calls =
      [.install nameMemLeak, .install nameSetPointer, .remove nameSetPointer, .remove nameMemLeak] ∧
    (runAllTestsGlue ps reg (.reject c)).run.printed = (if c.needHelp then .help else .usage) := by
  simp [runAllTestsGlue, runner]

/-- return value for an accepted vector (no test of the registry fails): 0 in a list mode or when
    at least one test is selected; otherwise every repetition counts as a failed execution -/
theorem runAllTests_rc (ps : List ProbeTest) (reg : List String) (c : Config) :
    (runAllTestsGlue ps reg (.ok c)).rc =
      if c.listGroups || c.listNames || c.listLocations then 0
      else if (passing c ps).isEmpty then c.repeatCount else 0 := by
  simp [runAllTestsGlue, runner]

/-! ## value options at the end of the vector, or followed by an empty argument -/

/-- every option that wants a value, given as the very LAST argument (`getParameterField`
    returns `""`): filters get the empty text, `-t…` and `-o` are refused, `-k` changes nothing,
    `-r` repeats twice, `-s` takes the clock, `TEST(` gives two empty strict filters -/
theorem value_missing_at_end_all (env : Env) (c : Config) :
    (∀ k : FKind, go env c false [k.lit 103] = .ok { c with groupFilters := k.filter [] :: c.groupFilters }) ∧
    (∀ k : FKind, go env c false [k.lit 110] = .ok { c with nameFilters := k.filter [] :: c.nameFilters }) ∧
    (∀ k : FKind, go env c false [k.lit 116] = .reject c) ∧
    go env c false [[45, 111]] = .reject c ∧
    go env c false [[45, 107]] = .ok c ∧
    go env c false [[45, 114]] = .ok { c with repeatCount := 2 } ∧
    go env c false [[45, 115]] = .ok { c with shuffling := true, shuffleSeed := timeSeed env.time } ∧
    (∀ i : Bool, go env c false [testPrefix i] =
      .ok { c with groupFilters := ⟨[], true, false⟩ :: c.groupFilters, nameFilters := ⟨[], true, false⟩ :: c.nameFilters }) := by
  refine ⟨fun k => by cases k <;> rfl, fun k => by cases k <;> rfl, fun k => by cases k <;> rfl, rfl, rfl, rfl, ?_,
    fun i => by cases i <;> rfl⟩
  exact (go_one env c _ _ [] (step_shuffleDefault env c none (by intro a h; cases h)))

/-- the same options followed by an EMPTY argument (`prog -g ""`): the empty string is taken as
    the value (and consumed) by the filters, `-k`, `TEST(`; `-t… ""` and `-o ""` are refused; for `-r`
    and `-s` the empty string is no number, is not consumed, and is then refused as an unknown
    argument -/
theorem value_empty_argument (env : Env) (c : Config) (rest : List Bytes) :
    (∀ k : FKind, go env c false (k.lit 103 :: [] :: rest) =
        go env { c with groupFilters := k.filter [] :: c.groupFilters } false rest) ∧
    (∀ k : FKind, go env c false (k.lit 110 :: [] :: rest) =
        go env { c with nameFilters := k.filter [] :: c.nameFilters } false rest) ∧
    (∀ k : FKind, go env c false (k.lit 116 :: [] :: rest) = .reject c) ∧
    go env c false ([45, 111] :: [] :: rest) = .reject c ∧
    go env c false ([45, 107] :: [] :: rest) = go env c false rest ∧
    go env c false ([45, 114] :: [] :: rest) = .reject { c with repeatCount := 2 } ∧
    go env c false ([45, 115] :: [] :: rest) = .reject { c with shuffling := true, shuffleSeed := timeSeed env.time } ∧
    (∀ i : Bool, go env c false (testPrefix i :: [] :: rest) =
      go env { c with groupFilters := ⟨[], true, false⟩ :: c.groupFilters,
                      nameFilters := ⟨[], true, false⟩ :: c.nameFilters } false rest) := by
  refine ⟨fun k => ?_, fun k => ?_, fun k => ?_, ?_, ?_, ?_, ?_, fun i => ?_⟩
  · exact go_two env c _ _ [] rest (step_group_separated env c k [])
  · exact go_two env c _ _ [] rest (step_name_separated env c k [])
  · exact t_no_dot_rejects env c k [] rest (by simp)
  · exact go_cons_reject env c c _ _ true (by rfl)
  · exact go_two env c c _ [] rest (by rfl)
  · rw [go_one env c _ _ ([] :: rest) (step_repeatDefault env c _ (by intro a h; simp at h; subst h; rfl))]
    exact go_cons_reject env _ _ _ rest false (step_unknown env _ [] _ dispatch_nil)
  · rw [go_one env c _ _ ([] :: rest) (step_shuffleDefault env c _ (by intro a h; simp at h; subst h; rfl))]
    exact go_cons_reject env _ _ _ rest false (step_unknown env _ [] _ dispatch_nil)
  · cases i <;> exact go_two env c _ _ [] rest (by rfl)

/-! ## the four filter kinds mean what the help text says -/

/-- `-g`, `-n`: contains; `-sg`, `-sn`: exactly matches; `-xg`, `-xn`: excluded if it contains;
    `-xsg`, `-xsn`: excluded if it exactly matches -/
theorem filter_kinds_meaning (t s : Bytes) :
    (FKind.sub.filter t).accepts s = isInfix s t ∧
    (FKind.strict.filter t).accepts s = (s == t) ∧
    (FKind.excl.filter t).accepts s = !isInfix s t ∧
    (FKind.exclStrict.filter t).accepts s = !(s == t) := by
  simp [FKind.filter, Filter.accepts]


/-! ## the regenerated source IS the model

`Gen/ParseHandlers.lean` is the statement-by-statement translation of `CommandLineArguments.cpp` (every function
`parse` runs, the body of its `for` loop, the constructor's initialiser list, the getters) and of the output
selection of `CommandLineTestRunner::parseArguments`, regenerated on every check run.  The theorems below tie it to
the hand-written model for ALL inputs, so everything proved above about `parse` holds for what the source says. -/

/-- `getParameterField`: rest of the argument if longer than the option name, else the next argument (index
    advanced), else `""` — the translated function equals the model's, for every argument list and name -/
theorem source_getParameterField_eq (env : Env) (s : Gen.ParseHandlers.St) (a : Bytes) (rest : List Bytes) (name : Bytes) :
    Gen.ParseHandlers.getParameterField env s (a :: rest) 0 name =
      ⟨s, Src.kOf (getParameterField name.length a rest.head?).consumed, (getParameterField name.length a rest.head?).val⟩ :=
  Src.getParameterField_eq env s a rest name

/-- `setRepeatCount` (translated) = model -/
theorem source_setRepeatCount_eq (env : Env) (c : Config) (p : Bool) (a : Bytes) (rest : List Bytes) :
    Gen.ParseHandlers.setRepeatCount env ⟨c, p⟩ (a :: rest) 0 =
      ⟨⟨(setRepeatCount c a rest.head?).cfg, p⟩, Src.kOf (setRepeatCount c a rest.head?).consumed, ()⟩ :=
  Src.setRepeatCount_eq env c p a rest

/-- `setShuffle` (translated) = model; `shufflingPreSeeded_` is set exactly when a seed was given -/
theorem source_setShuffle_eq (env : Env) (c : Config) (p : Bool) (a : Bytes) (rest : List Bytes) :
    Gen.ParseHandlers.setShuffle env ⟨c, p⟩ (a :: rest) 0 =
      ⟨⟨(setShuffle env c a rest.head?).cfg, Src.preSeededOf p a rest.head?⟩,
       Src.kOf (setShuffle env c a rest.head?).consumed, (setShuffle env c a rest.head?).good⟩ :=
  Src.setShuffle_eq env c p a rest

/-- the eight `add…Filter` functions (translated) = the model's `addGroup` / `addName` with the option-name length
    and flags of that function -/
theorem source_filter_functions_eq (env : Env) (c : Config) (p : Bool) (a : Bytes) (rest : List Bytes) :
    Gen.ParseHandlers.addGroupFilter env ⟨c, p⟩ (a :: rest) 0 =
      ⟨⟨(addGroup 2 false false c a rest.head?).cfg, p⟩, Src.kOf (addGroup 2 false false c a rest.head?).consumed, ()⟩ ∧
    Gen.ParseHandlers.addStrictGroupFilter env ⟨c, p⟩ (a :: rest) 0 =
      ⟨⟨(addGroup 3 true false c a rest.head?).cfg, p⟩, Src.kOf (addGroup 3 true false c a rest.head?).consumed, ()⟩ ∧
    Gen.ParseHandlers.addExcludeGroupFilter env ⟨c, p⟩ (a :: rest) 0 =
      ⟨⟨(addGroup 3 false true c a rest.head?).cfg, p⟩, Src.kOf (addGroup 3 false true c a rest.head?).consumed, ()⟩ ∧
    Gen.ParseHandlers.addExcludeStrictGroupFilter env ⟨c, p⟩ (a :: rest) 0 =
      ⟨⟨(addGroup 4 true true c a rest.head?).cfg, p⟩, Src.kOf (addGroup 4 true true c a rest.head?).consumed, ()⟩ ∧
    Gen.ParseHandlers.addNameFilter env ⟨c, p⟩ (a :: rest) 0 =
      ⟨⟨(addName 2 false false c a rest.head?).cfg, p⟩, Src.kOf (addName 2 false false c a rest.head?).consumed, ()⟩ ∧
    Gen.ParseHandlers.addStrictNameFilter env ⟨c, p⟩ (a :: rest) 0 =
      ⟨⟨(addName 3 true false c a rest.head?).cfg, p⟩, Src.kOf (addName 3 true false c a rest.head?).consumed, ()⟩ ∧
    Gen.ParseHandlers.addExcludeNameFilter env ⟨c, p⟩ (a :: rest) 0 =
      ⟨⟨(addName 3 false true c a rest.head?).cfg, p⟩, Src.kOf (addName 3 false true c a rest.head?).consumed, ()⟩ ∧
    Gen.ParseHandlers.addExcludeStrictNameFilter env ⟨c, p⟩ (a :: rest) 0 =
      ⟨⟨(addName 4 true true c a rest.head?).cfg, p⟩, Src.kOf (addName 4 true true c a rest.head?).consumed, ()⟩ :=
  ⟨Src.addGroupFilter_eq env c p a rest, Src.addStrictGroupFilter_eq env c p a rest, Src.addExcludeGroupFilter_eq env c p a rest,
   Src.addExcludeStrictGroupFilter_eq env c p a rest, Src.addNameFilter_eq env c p a rest, Src.addStrictNameFilter_eq env c p a rest,
   Src.addExcludeNameFilter_eq env c p a rest, Src.addExcludeStrictNameFilter_eq env c p a rest⟩

/-- `addGroupDotNameFilter` (translated: `split(".")`, exactly two tokens, `subString(0, size-1)`, flags) = model -/
theorem source_addGroupDotNameFilter_eq (env : Env) (c : Config) (p : Bool) (a : Bytes) (rest : List Bytes)
    (lit : Bytes) (strict exclude : Bool) :
    Gen.ParseHandlers.addGroupDotNameFilter env ⟨c, p⟩ (a :: rest) 0 lit strict exclude =
      ⟨⟨(addGroupDotName lit strict exclude c a rest.head?).cfg, p⟩,
       Src.kOf (addGroupDotName lit strict exclude c a rest.head?).consumed,
       (addGroupDotName lit strict exclude c a rest.head?).good⟩ :=
  Src.addGroupDotNameFilter_eq env c p a rest lit strict exclude

/-- `addTestToRunBasedOnVerboseOutput` (translated: `subStringFromTill(',', ')')`, `subString(2)`,
    `subStringFromTill(at(0), ',')`) = model, including the empty value (`at(0)` reads the terminator) -/
theorem source_addTestToRun_eq (env : Env) (c : Config) (p : Bool) (a : Bytes) (rest : List Bytes) (lit : Bytes) :
    Gen.ParseHandlers.addTestToRunBasedOnVerboseOutput env ⟨c, p⟩ (a :: rest) 0 lit =
      ⟨⟨(addTestForm lit c a rest.head?).cfg, p⟩, Src.kOf (addTestForm lit c a rest.head?).consumed, ()⟩ :=
  Src.addTestToRunBasedOnVerboseOutput_eq env c p a rest lit

/-- `setOutputType` (translated) = model -/
theorem source_setOutputType_eq (env : Env) (c : Config) (p : Bool) (a : Bytes) (rest : List Bytes) :
    Gen.ParseHandlers.setOutputType env ⟨c, p⟩ (a :: rest) 0 =
      ⟨⟨(setOutputType c a rest.head?).cfg, p⟩, Src.kOf (setOutputType c a rest.head?).consumed,
       (setOutputType c a rest.head?).good⟩ :=
  Src.setOutputType_eq env c p a rest

/-- `setPackageName` (translated) = model -/
theorem source_setPackageName_eq (env : Env) (c : Config) (p : Bool) (a : Bytes) (rest : List Bytes) :
    Gen.ParseHandlers.setPackageName env ⟨c, p⟩ (a :: rest) 0 =
      ⟨⟨(setPackageName c a rest.head?).cfg, p⟩, Src.kOf (setPackageName c a rest.head?).consumed, ()⟩ :=
  Src.setPackageName_eq env c p a rest

/-- **The body of the `for` loop of `parse`** (the whole if / else-if chain with its statements and the rejection
    test, translated) is the model's `step`: same configuration, same verdict, same number of consumed arguments,
    for every configuration, argument and rest of the vector. -/
theorem source_loop_body_eq_step (env : Env) (c : Config) (p : Bool) (a : Bytes) (rest : List Bytes) :
    (Gen.ParseHandlers.parseBody env ⟨c, p⟩ (a :: rest) 0).st.cfg = (step env c a rest.head?).cfg ∧
    (Gen.ParseHandlers.parseBody env ⟨c, p⟩ (a :: rest) 0).ret = (step env c a rest.head?).good ∧
    (Gen.ParseHandlers.parseBody env ⟨c, p⟩ (a :: rest) 0).k = (if (step env c a rest.head?).consumed then 1 else 0) := by
  have hv := Src.parseBody_view env c p a rest
  refine ⟨?_, ?_, ?_⟩
  · simpa [Src.view, Src.viewS] using congrArg (·.1) hv
  · simpa [Src.view, Src.viewS] using congrArg (·.2.1) hv
  · simpa [Src.view, Src.viewS, Src.kOf] using congrArg (·.2.2) hv

/-- **The regenerated source is the model**, whole run: the constructor's configuration, then the `for` loop over
    the indices with the translated body, computes `parse` for EVERY argument vector. -/
theorem source_parse_eq_model (env : Env) (argv : List Bytes) : Src.genParse env argv = parse env argv :=
  Src.genParse_eq_parse env argv

/-- the constructor's initialiser list (regenerated) sets up the default configuration the model starts from -/
theorem source_constructor_eq_default :
    Gen.ParseHandlers.initialConfig = ({} : Config) ∧ Gen.ParseHandlers.initialPreSeeded = false := ⟨rfl, rfl⟩

/-- every `const` getter returns the member the model's `Config` field of that name stands for (regenerated table) -/
theorem source_getters_eq :
    Gen.ParseHandlers.getters =
      [("needHelp", "needHelp", ""), ("isVerbose", "verbose", ""), ("isVeryVerbose", "veryVerbose", ""),
       ("isColor", "color", ""), ("isListingTestGroupNames", "listGroups", ""),
       ("isListingTestGroupAndCaseNames", "listNames", ""), ("isListingTestLocations", "listLocations", ""),
       ("isRunIgnored", "runIgnored", ""), ("runTestsInSeperateProcess", "separateProcess", ""),
       ("getRepeatCount", "repeatCount", ""), ("isReversing", "reversing", ""), ("isCrashingOnFail", "crashOnFail", ""),
       ("isRethrowingExceptions", "rethrow", ""), ("isShuffling", "shuffling", ""), ("getShuffleSeed", "shuffleSeed", ""),
       ("getGroupFilters", "groupFilters", ""), ("getNameFilters", "nameFilters", ""),
       ("isEclipseOutput", "output", "eclipse"), ("isJUnitOutput", "output", "junit"),
       ("isTeamCityOutput", "output", "teamcity"), ("getPackageName", "packageName", "")] := by decide

/-- `CommandLineTestRunner::parseArguments` (regenerated output selection) creates exactly the model's outputs:
    JUnit writer with the package name (plus console and composite when `-v`/`-vv`), TeamCity writer, or console -/
theorem source_created_outputs_eq (c : Config) :
    (Gen.ParseHandlers.createdOutputs c).map Src.toModelEv = outputsOf c := Src.createdOutputs_eq c

/-- **End to end, on the source**: for every list of documented options (any order and multiplicity, attached or
    separated, arbitrary identifier-like values, in-range numbers) the regenerated parser accepts the rendered vector
    with the documented configuration, and the regenerated runner code creates the documented outputs. -/
theorem source_parse_render (env : Env) (prog : Bytes) (os : List (Opt × Form)) :
    Src.genParse env (prog :: render os) = .ok (meaning env (os.map Prod.fst)) ∧
    (Gen.ParseHandlers.createdOutputs (meaning env (os.map Prod.fst))).map Src.toModelEv =
      outputsOf (meaning env (os.map Prod.fst)) := by
  rw [source_parse_eq_model, parse_render]
  exact ⟨rfl, source_created_outputs_eq _⟩

/-- the regenerated parser is total and stores only parts of its arguments, for every argument vector -/
theorem source_parse_total_and_from_args (env : Env) (argv : List Bytes) :
    ((∃ c, Src.genParse env argv = .ok c) ∨ (∃ c, Src.genParse env argv = .reject c)) ∧
    StringsFromArgs argv.tail (Src.genParse env argv).cfg := by
  rw [source_parse_eq_model]
  exact ⟨parse_total env argv, stored_strings_from_args env argv⟩

/-- documented rejections on the regenerated parser: `-h` (help requested) and `-s0` after any documented options -/
theorem source_rejections (env : Env) (prog : Bytes) (os : List (Opt × Form)) (rest : List Bytes) :
    Src.genParse env (prog :: (render os ++ [45, 104] :: rest)) =
      .reject { meaning env (os.map Prod.fst) with needHelp := true } ∧
    (Src.genParse env (prog :: (render os ++ [45, 115, 48] :: rest))).isOk = false := by
  rw [source_parse_eq_model, source_parse_eq_model]
  exact ⟨help_rejects env prog os rest, seed_zero_rejects_parse env prog os rest⟩

/-- **`CommandLineTestRunner::runAllTests`** (regenerated from the source as the list of calls it makes, with
    `initializeTestRun` inlined and the `while (loopCount++ < repeatCount)` loop as a map over the repetitions): the calls
    to the registry are exactly the model's, for every configuration — separate process first, a list mode returns
    early (group names before names before locations), reverse before the loop, shuffle (with the parsed seed) before
    every run. -/
theorem source_runner_calls_eq (ps : List ProbeTest) (c : Config) :
    (runner ps (.ok c)).calls =
      [.install nameSetPointer] ++ (Gen.ParseHandlers.runAllTests c).filterMap Src.evCall ++ [.remove nameSetPointer] :=
  Src.runner_calls_eq ps c

/-- **`initializeTestRun`** (regenerated): what it switches on is the model's reading of the configuration — verbosity 2
    for `-vv` even together with `-v`, colour, separate process, run-ignored, crash-on-fail, rethrow mode -/
theorem source_init_effects_eq (c : Config) :
    (Gen.ParseHandlers.initializeTestRun c).foldl Src.applyEv {} =
      ⟨verbosityOf c, c.color, c.separateProcess, c.runIgnored, c.crashOnFail, c.rethrow⟩ :=
  Src.init_effects_eq c

/-- what the regenerated `runAllTests` prints itself: the seed line (once, with the configured seed) iff shuffling and
    no list mode — the model's `seedLine` — and `printTestRun(i, n)` for i = 1 … n — the model's `runHeaders` -/
theorem source_runner_prints_eq (c : Config) :
    (Gen.ParseHandlers.runAllTests c).filterMap Src.evPrinted =
      (match seedLine c true with
       | some n => ["Test order shuffling enabled with seed: ", toString n, "\n"]
       | none => []) ∧
    (Gen.ParseHandlers.runAllTests c).filterMap Src.evHeader =
      (if listing c then [] else runHeadersFrom c.repeatCount 1 c.repeatCount) := by
  refine ⟨?_, Src.runner_headers_eq c⟩
  rw [Src.runner_prints_eq]
  unfold seedLine
  cases c.shuffling <;> cases listing c <;> rfl

/-- the failure accounting of the loop and the returned expression of `runAllTests` are the ones the model's return
    value was written against (kept as parsed text) -/
theorem source_runner_accounting :
    Gen.ParseHandlers.loopAccounting =
      ["(addassign (id failedTestCount) (call (member (id tr) getFailureCount) []))",
       "if(tr.isFailure())(block [(expr (postinc (id failedExecutionCount)))])"] ∧
    Gen.ParseHandlers.returnedExpressions =
      ["(num 0)",
       "(cast int (cond (bin != (id failedTestCount) (num 0)) (id failedTestCount) (id failedExecutionCount)))"] := by
  decide

/-- **Whole run, on the regenerated source**: for every list of documented options the regenerated parser yields the
    documented configuration, the regenerated runner makes exactly the registry calls of that configuration between
    installing and removing the pointer plugin, and the test bodies that run are the selected ones, repeated. -/
theorem source_documented_run (env : Env) (prog : Bytes) (os : List (Opt × Form)) (ps : List ProbeTest) :
    Src.genParse env (prog :: render os) = .ok (meaning env (os.map Prod.fst)) ∧
    (runner ps (Src.genParse env (prog :: render os))).calls =
      [.install nameSetPointer] ++
        (Gen.ParseHandlers.runAllTests (meaning env (os.map Prod.fst))).filterMap Src.evCall ++ [.remove nameSetPointer] ∧
    (listing (meaning env (os.map Prod.fst)) = false →
      (runner ps (Src.genParse env (prog :: render os))).ran =
        (List.replicate (meaning env (os.map Prod.fst)).repeatCount (oneRun (meaning env (os.map Prod.fst)) ps)).flatten) := by
  have h : Src.genParse env (prog :: render os) = .ok (meaning env (os.map Prod.fst)) := by
    rw [source_parse_eq_model, parse_render]
  refine ⟨h, ?_, ?_⟩
  · rw [h]; exact source_runner_calls_eq ps _
  · intro hl
    rw [h]
    simp only [listing, Bool.or_eq_false_iff] at hl
    exact runner_ok_runs_selected ps _ ⟨hl.1.1, hl.1.2, hl.2⟩

/-! ## what the created outputs show of the configuration (seed line, run headers, JUnit file names, TeamCity, memory formatter) -/

theorem shuffle_seed_never_zero_documented (env : Env) (os : List Opt) :
    (meaning env os).shuffling = true → (meaning env os).shuffleSeed ≠ 0 := by
  unfold meaning
  suffices ∀ (l : List Opt) (c : Config), (c.shuffling = true → c.shuffleSeed ≠ 0) →
      ((l.foldl (applyOpt env) c).shuffling = true → (l.foldl (applyOpt env) c).shuffleSeed ≠ 0) from
    this os {} (by intro h; cases h)
  intro l
  induction l with
  | nil => intro c h; simpa using h
  | cons o t ih => intro c h; exact ih _ (applyOpt_keeps_seed_nonzero env c o h)

theorem seed_line_iff (c : Config) (shows : Bool) (n : Nat) :
    seedLine c shows = some n ↔ (c.shuffling = true ∧ listing c = false ∧ shows = true ∧ n = c.shuffleSeed) := by
  unfold seedLine
  cases c.shuffling <;> cases listing c <;> cases shows <;> simp [eq_comm]

theorem seed_line_documented_nonzero (env : Env) (prog : Bytes) (os : List (Opt × Form)) (shows : Bool) (n : Nat)
    (h : seedLine (parse env (prog :: render os)).cfg shows = some n) : n ≠ 0 := by
  rw [parse_render] at h
  obtain ⟨hs, _, _, rfl⟩ := (seed_line_iff _ _ _).mp h
  exact shuffle_seed_never_zero_documented env _ hs

theorem run_headers_eq (c : Config) (shows : Bool) :
    runHeaders c shows =
      if listing c = false ∧ shows = true ∧ c.repeatCount > 1
      then (List.range c.repeatCount).map (fun j => (j + 1, c.repeatCount)) else [] := by
  unfold runHeaders
  cases listing c <;> cases shows <;> simp [runHeadersFrom_eq, Nat.add_comm]

/-- every report file name is built from the `-k` package name and the name of a group of the registry (or the empty
    name), and there is none unless `-ojunit` -/
theorem junit_files_carry_package (c : Config) (ps : List ProbeTest) (f : Bytes) (h : f ∈ junitFiles c ps) :
    c.output = .junit ∧ ∃ g, (g = [] ∨ ∃ p ∈ ps, p.group = g) ∧ f = JUnit.createFileName c.packageName g := by
  unfold junitFiles at h
  split at h
  · rename_i hc
    simp only [Bool.and_eq_true, beq_iff_eq] at hc
    refine ⟨hc.1.1, ?_⟩
    rw [mem_sortUniqueBytes, List.mem_map] at h
    obtain ⟨g, hg, rfl⟩ := h
    refine ⟨g, ?_, rfl⟩
    split at hg
    · simp only [selectedGroups, List.mem_map, List.mem_filter] at hg
      obtain ⟨p, ⟨hp, _⟩, rfl⟩ := hg
      exact Or.inr ⟨p, hp, rfl⟩
    · rcases blockNames_sub c ps none g hg with h | h | ⟨b, hb⟩
      · exact Or.inl h
      · exact Or.inr h
      · cases hb
  · cases h

/-- with `-ojunit` (no list mode, at least one run) every group that has a selected test gets its report file, named
    with the `-k` package -/
theorem junit_selected_group_has_file (c : Config) (ps : List ProbeTest) (p : ProbeTest)
    (hj : c.output = .junit) (hl : listing c = false) (hr : c.repeatCount > 0)
    (hp : p ∈ ps) (hs : selects c p.group p.name = true) :
    JUnit.createFileName c.packageName p.group ∈ junitFiles c ps := by
  unfold junitFiles
  simp only [hj, hl, hr, beq_self_eq_true, Bool.not_false, Bool.and_self, decide_true, if_true]
  rw [mem_sortUniqueBytes]
  apply List.mem_map_of_mem
  split
  · simp only [selectedGroups, List.mem_map, List.mem_filter]
    exact ⟨p, ⟨hp, hs⟩, rfl⟩
  · exact blockNames_selected c ps none p hp hs

theorem teamcity_messages_iff (c : Config) :
    teamcityMessages c = true ↔ (c.output = .teamcity ∧ listing c = false ∧ c.repeatCount > 0) := by
  unfold teamcityMessages
  cases c.output <;> cases listing c <;> simp

theorem memformatter_type_of_plain_value (t : Bytes) (h : (45 : UInt8) ∉ t) :
    memFormatterType (litMemoryReport ++ t) = t := by
  unfold memFormatterType replaceAll
  have hp : litMemoryReport.isEmpty = false := rfl
  simp only [hp, Bool.false_eq_true, if_false]
  have hpre : litMemoryReport.isPrefixOf (litMemoryReport ++ t) = true := by simp
  have hdrop : (litMemoryReport ++ t).drop litMemoryReport.length = t := List.drop_left
  have hlen : t.length ≤ (litMemoryReport ++ t).length := by simp
  generalize litMemoryReport ++ t = a at hpre hdrop hlen
  cases a with
  | nil => simp [litMemoryReport] at hpre
  | cons x a' =>
    simp only [replaceAllAux, hpre, if_true, List.nil_append, hdrop]
    exact replaceAllAux_no_dash litMemoryReport.tail _ t h hlen

theorem memformatter_kinds :
    memFormatterKind (memFormatterType (litMemoryReport ++ [110, 111, 114, 109, 97, 108])) = .normal ∧
    memFormatterKind (memFormatterType (litMemoryReport ++ [99, 111, 100, 101])) = .code ∧
    memFormatterKind (memFormatterType (litMemoryReport ++ [122, 122])) = .none ∧
    memFormatterKind (memFormatterType litMemoryReport) = .none ∧
    -- the option text twice: both occurrences are removed, the rest decides
    memFormatterKind (memFormatterType (litMemoryReport ++ litMemoryReport ++ [99, 111, 100, 101])) = .code := by decide

/-! ## non-vacuity: concrete vectors -/

def idAlpha : Ident := ⟨[65, 108, 112, 104, 97], by decide⟩      -- Alpha
def idOne : Ident := ⟨[111, 110, 101], by decide⟩                -- one
def idPkg : Ident := ⟨[112, 107, 103], by decide⟩                -- pkg
def count3 : Count := ⟨[51], by decide, by decide, by decide⟩    -- 3
def seed42 : Seed := ⟨[52, 50], by decide, by decide, by decide⟩ -- 42
def env0 : Env := ⟨1000, []⟩

/-- `prog -v -r 3 -sgAlpha -xn one -t Alpha.one "TEST(Alpha, one)" -s42 -ojunit -k pkg -b`:
    a non-trivial instance of `parse_render` (both forms, every value kind) -/
def sampleOpts : List (Opt × Form) :=
  [(.flag .v, .attached), (.repeatN count3, .separated), (.group .strict idAlpha, .attached),
   (.name .excl idOne, .separated), (.test .sub idAlpha idOne, .separated), (.testForm false idAlpha idOne, .attached),
   (.shuffleSeed seed42, .attached), (.output .junit, .attached), (.package idPkg, .separated), (.flag .b, .attached)]

example : render sampleOpts =
    [[45, 118], [45, 114], [51], [45, 115, 103, 65, 108, 112, 104, 97], [45, 120, 110], [111, 110, 101],
     [45, 116], [65, 108, 112, 104, 97, 46, 111, 110, 101],
     [84, 69, 83, 84, 40, 65, 108, 112, 104, 97, 44, 32, 111, 110, 101, 41],
     [45, 115, 52, 50], [45, 111, 106, 117, 110, 105, 116], [45, 107], [112, 107, 103], [45, 98]] := by decide

example : parse env0 ([120] :: render sampleOpts) =
    .ok { verbose := true, repeatCount := 3, reversing := true, shuffling := true, shuffleSeed := 42,
          output := .junit, packageName := idPkg.val,
          groupFilters := [⟨idAlpha.val, true, false⟩, ⟨idAlpha.val, false, false⟩, ⟨idAlpha.val, true, false⟩],
          nameFilters := [⟨idOne.val, true, false⟩, ⟨idOne.val, false, false⟩, ⟨idOne.val, false, true⟩] } := by
  rw [parse_render]; decide

/-- the same by running the model (no theorem involved) -/
example : parse env0 ([120] :: render sampleOpts) = .ok (meaning env0 (sampleOpts.map Prod.fst)) := by decide

/-- rejections that are really reached -/
example : parse env0 [[120], [45, 118], [45, 104], [45, 99]] = .reject { verbose := true, needHelp := true } := by decide
example : parse env0 [[120], [45, 115, 48]] = .reject { shuffling := true, shuffleSeed := 0 } := by decide
example : parse env0 [[120], [45, 116], [97, 46, 98, 46, 99]] = .reject {} := by decide          -- -t a.b.c
example : (parse env0 [[120], [45, 116], [97, 46, 98, 46]]).isOk = true := by decide              -- -t a.b.
example : parse env0 [[120], [45, 111, 120]] = .reject {} := by decide                              -- -ox
example : parse env0 [[120], []] = .reject {} := by decide                                          -- ""
/-- `{"x", "TEST(abc"}` -/
example : parse env0 [[120], [84, 69, 83, 84, 40, 97, 98, 99]] =
    .ok { groupFilters := [⟨[97, 98, 99], true, false⟩], nameFilters := [⟨[], true, false⟩] } := by decide
/-- `-r` takes a following number, not a following option -/
example : parse env0 [[120], [45, 114], [45, 118]] = .ok { repeatCount := 2, verbose := true } := by decide
example : parse env0 [[120], [45, 114], [53]] = .ok { repeatCount := 5 } := by decide
/-- the 32-bit wrap-around of `AtoI`, stated: `-r4294967297` repeats once, `-r-1` 2^64-1 times -/
example : parse env0 [[120], [45, 114, 52, 50, 57, 52, 57, 54, 55, 50, 57, 55]] = .ok { repeatCount := 1 } := by decide
example : parse env0 [[120], [45, 114, 45, 49]] = .ok { repeatCount := 2 ^ 64 - 1 } := by decide

/-- `-s42` is announced as 42; three repetitions are announced as 1/3, 2/3, 3/3; `-ojunit -k pkg` names the files -/
example : seedLine (parse env0 [[120], [45, 115, 52, 50]]).cfg true = some 42 := by decide
example : runHeaders { repeatCount := 3 } true = [(1, 3), (2, 3), (3, 3)] := by decide
example : junitFiles { output := .junit, packageName := idPkg.val, groupFilters := [⟨idAlpha.val, false, false⟩] }
      [⟨idAlpha.val, idOne.val, false⟩, ⟨[66], idOne.val, false⟩] =
    -- cpputest_pkg_.xml, cpputest_pkg_Alpha.xml
    [[99, 112, 112, 117, 116, 101, 115, 116, 95, 112, 107, 103, 95, 46, 120, 109, 108],
     [99, 112, 112, 117, 116, 101, 115, 116, 95, 112, 107, 103, 95, 65, 108, 112, 104, 97, 46, 120, 109, 108]] := by decide
example : (45 : UInt8) ∉ ([99, 111, 100, 101] : Bytes) := by decide

/-- the regenerated runner on a concrete configuration: `-p -b -s42 -r2` -/
def sampleRunCfg : Config :=
  { separateProcess := true, reversing := true, shuffling := true, shuffleSeed := 42, repeatCount := 2 }
example : (Gen.ParseHandlers.runAllTests sampleRunCfg).filterMap Src.evCall =
    [.separateProcess, .reverse, .shuffle 42, .runAll, .shuffle 42, .runAll] := by decide

/-- the regenerated parser run on concrete vectors (no theorem involved): `prog -r 5`, `prog -t a.b.c`, `prog TEST(abc` -/
example : Src.genParse env0 [[120], [45, 114], [53]] = .ok { repeatCount := 5 } := by decide
example : Src.genParse env0 [[120], [45, 116], [97, 46, 98, 46, 99]] = .reject {} := by decide
example : Src.genParse env0 [[120], [84, 69, 83, 84, 40, 97, 98, 99]] =
    .ok { groupFilters := [⟨[97, 98, 99], true, false⟩], nameFilters := [⟨[], true, false⟩] } := by decide
example : Src.genParse env0 ([120] :: render sampleOpts) = .ok (meaning env0 (sampleOpts.map Prod.fst)) := by decide
/-- the index really is advanced by the translated helper: `-g Alpha` consumes one extra argument -/
example : (Gen.ParseHandlers.addGroupFilter env0 ⟨{}, false⟩ [[45, 103], idAlpha.val] 0).k = 1 := by decide

end CommandLine
