import CppUModel.Proofs.Mock
import CppUModel.Proofs.MockLazy
import CppUModel.Proofs.MockIop
import CppUModel.Proofs.MockOut
import CppUModel.Model.MockParam
import CppUModel.Model.MockText
import CppUModel.Proofs.MockGen
import CppUModel.Gen.MockPlugin
import CppUModel.Model.MockTeardown
import CppUModel.Props.C09
/-!
# C08 — the mock verdict is exact

Property theorems only.  Model: `CppUModel/Model/Mock.lean` (from `MockSupport.cpp`,
`MockActualCall.cpp`, `MockExpectedCall.cpp`, `MockExpectedCallsList.cpp`, `MockFailure.cpp`);
vocabulary: `CppUModel/Spec/Mock.lean`.

All theorems are about the *plain* class (no `ignoreOtherParameters`; `ignoreOtherCalls` does
not occur because a run is a list of checked calls on one `MockSupport`), for expectation lists
and call sequences of any length.  `run es k calls` is the code: every call statement is
`actualCall(name)` + its `with…Parameter` / `withOutputParameter` / `onObject` steps in program
order + the finishing `checkExpectations` of the call, then `MockSupport::checkExpectations`.
-/
namespace Mock

/-- the hypotheses of the property, written out -/
structure Hyp (es : List Exp) (calls : List Call) : Prop where
  /-- no matching flags are set when the first call starts (as `expectNCalls` leaves them) -/
  clean : Clean es
  /-- no `ignoreOtherParameters` -/
  plain : Plain es
  /-- two expectations on the same function have the same signature or differ in a shared parameter -/
  unamb : Unambiguous es
  /-- parameter names inside one expectation are distinct -/
  wfe : ∀ e ∈ es, WFExp e
  /-- parameter names inside one actual call are distinct, `onObject` at most once -/
  wfc : ∀ c ∈ calls, WFCall c

/-- **call_succeeds_iff.** An actual call made with clean flags is fulfilled iff some expectation
    with capacity has the call's signature; it then consumes the first such expectation in
    declaration order (nothing else changes), and all matching flags are clean again when the
    call is finished — whatever the order of the call's steps. -/
theorem call_succeeds_iff (es : List Exp) (c : Call) (k : Nat) (buf : List UInt8)
    (hclean : Clean es) (hplain : Plain es) (hun : Unambiguous es) (hwfe : ∀ e ∈ es, WFExp e) (hwf : WFCall c) :
    ((callFull es k c.name c.segs buf).fail = none ↔ ∃ e ∈ es, e.canMatch = true ∧ fits e c = true) ∧
    ((callFull es k c.name c.segs buf).fail = none →
      (callFull es k c.name c.segs buf).es.map Exp.norm = modifyFirst (wants c) (fun e => e.bump k) (es.map Exp.norm) ∧
      Clean (callFull es k c.name c.segs buf).es) := by
  obtain ⟨h1, h2⟩ := callFull_spec (c := c) k buf hclean hplain hun hwfe hwf
  have hex : (∃ e ∈ es, e.canMatch = true ∧ fits e c = true) ↔ es.any (wants c) = true := by
    simp [wants, List.any_eq_true]
  cases hany : es.any (wants c) with
  | true =>
    obtain ⟨a, b, cc, _⟩ := h1 hany
    exact ⟨⟨fun _ => hex.mpr hany, fun _ => a⟩, fun _ => ⟨b, cc⟩⟩
  | false =>
    have := h2 hany
    refine ⟨⟨fun h => absurd h this, fun h => ?_⟩, fun h => absurd h this⟩
    rw [hex.mp h] at hany; cases hany

/-- **returns_value_of_consumed.** A fulfilled call returns the return value of the expectation
    it consumed: the first one in declaration order with capacity and the call's signature.
    (Hence the k-th call with a signature receives the value of the k-th unit of capacity with
    that signature, by `call_succeeds_iff`.) -/
theorem returns_value_of_consumed (es : List Exp) (c : Call) (k : Nat) (buf : List UInt8)
    (hclean : Clean es) (hplain : Plain es) (hun : Unambiguous es) (hwfe : ∀ e ∈ es, WFExp e) (hwf : WFCall c)
    (hok : (callFull es k c.name c.segs buf).fail = none) :
    ∃ x, es.find? (wants c) = some x ∧ returnValueOf (callFull es k c.name c.segs buf).es = x.ret := by
  obtain ⟨h1, h2⟩ := callFull_spec (c := c) k buf hclean hplain hun hwfe hwf
  cases hany : es.any (wants c) with
  | false => exact absurd hok (h2 hany)
  | true =>
    obtain ⟨_, _, _, x, hx, hr, _⟩ := h1 hany
    have : (es.map Exp.norm).find? (wants c) = (es.find? (wants c)).map Exp.norm := by
      rw [List.find?_map]; congr 1
      exact find_congr' (fun a _ => wants_norm c a)
    rw [this] at hx
    cases hf : es.find? (wants c) with
    | none => rw [hf] at hx; cases hx
    | some y =>
      rw [hf] at hx
      simp only [Option.map_some, Option.some.injEq] at hx
      exact ⟨y, rfl, by rw [hr, ← hx]; rfl⟩

/-- **outputs_copied_from_consumed (partial).** After a fulfilled call the output buffers
    registered by the `withOutputParameter` steps (one per step, in program order) are the result
    of copying the consumed expectation's output bytes over them: for every buffer whose name the
    consumed expectation gives bytes for, the buffer starts with exactly those bytes.
    (The exact statement, including the untouched tail, is `outputs_copied_from_consumed`.) -/
theorem outputs_copied_from_consumed_partial (es : List Exp) (c : Call) (k : Nat) (buf : List UInt8)
    (hclean : Clean es) (hplain : Plain es) (hun : Unambiguous es) (hwfe : ∀ e ∈ es, WFExp e) (hwf : WFCall c)
    (hok : (callFull es k c.name c.segs buf).fail = none) :
    ∃ x b0, es.find? (wants c) = some x ∧ (callFull es k c.name c.segs buf).call.bufs = copyOutputs x b0 ∧
      b0.map (·.1) = outNames c.segs :=
  callFull_outputs k buf hclean hplain hun hwfe hwf hok

/-- The full-strength statement about output parameters: the buffers are exactly the caller's
    buffers with the consumed expectation's bytes copied over their beginning — the tail beyond
    the copied size, and buffers the expectation gives no bytes for, are untouched.
    Proved below (`outputs_copied_from_consumed`). -/
def outputs_copied_from_consumed_full : Prop :=
  ∀ (es : List Exp) (c : Call) (k : Nat) (buf : List UInt8),
    Clean es → Plain es → Unambiguous es → (∀ e ∈ es, WFExp e) → WFCall c →
    (callFull es k c.name c.segs buf).fail = none →
    ∃ x, es.find? (wants c) = some x ∧
      (callFull es k c.name c.segs buf).call.bufs = copyOutputs x ((outNames c.segs).map (fun n => (n, buf)))

/-- **outputs_copied_from_consumed.** -/
theorem outputs_copied_from_consumed : outputs_copied_from_consumed_full :=
  fun _ _ k buf hclean hplain hun hwfe hwf hok => callFull_outputs_full k buf hclean hplain hun hwfe hwf hok

/-- **run_refines_consume.** A whole run of the code is the fold of the abstract consumption
    (`consume`: use up the first expectation with capacity and the call's signature) followed by
    the end-of-test check; it fails at the first call for which `consume` fails. -/
theorem run_refines_consume (es : List Exp) (k : Nat) (calls : List Call) (h : Hyp es calls) :
    (∀ es', consumeAll (es.map Exp.norm) k calls = some es' → run es k calls = endCheck es') ∧
    (consumeAll (es.map Exp.norm) k calls = none → run es k calls ≠ none) :=
  run_refines calls es k h.clean h.plain h.unamb h.wfe h.wfc

/-- **verdict_iff_multiset_eq.** Without strict ordering the scenario passes iff the multiset of
    actual calls equals the multiset of expected calls with their multiplicities: every call has
    the signature of some expectation, and every signature is called exactly as often as its
    class has capacity left. -/
theorem verdict_iff_multiset_eq (es : List Exp) (k : Nat) (calls : List Call) (h : Hyp es calls)
    (hcap : ∀ e ∈ es, e.actual ≤ e.expected) (hno : NoOrder es) :
    run es k calls = none ↔ MultisetEq es calls := by
  obtain ⟨r1, r2⟩ := run_refines_consume es k calls h
  have hN1 : Plain (es.map Exp.norm) := by
    intro e he; simp only [List.mem_map] at he; obtain ⟨x, hx, rfl⟩ := he; exact h.plain x hx
  have hnn : (es.map Exp.norm).map Exp.norm = es.map Exp.norm := by
    simp [List.map_map, Function.comp_def, norm_norm]
  have hN2 : Unambiguous (es.map Exp.norm) := unambiguous_transfer hnn h.unamb
  have hN3 : ∀ e ∈ es.map Exp.norm, WFExp e := wfexp_transfer hnn h.wfe
  have hN4 : ∀ e ∈ es.map Exp.norm, e.actual ≤ e.expected := by
    intro e he; simp only [List.mem_map] at he; obtain ⟨x, hx, rfl⟩ := he; exact hcap x hx
  have hN5 : NoOrder (es.map Exp.norm) := by
    intro e he; simp only [List.mem_map] at he; obtain ⟨x, hx, rfl⟩ := he; exact hno x hx
  have key := consumeAll_full_iff calls (es.map Exp.norm) k hN1 hN2 hN3 hN4
  rw [multisetEq_norm] at key
  rw [← key]
  cases hc : consumeAll (es.map Exp.norm) k calls with
  | none =>
    have := r2 hc
    constructor
    · intro h'; exact absurd h' this
    · rintro ⟨_, h', _⟩; cases h'
  | some N' =>
    rw [r1 N' hc, endCheck_none_iff]
    have hord := noOrder_consumeAll calls _ k N' hN5 hc
    constructor
    · intro h'; exact ⟨N', rfl, h'.1⟩
    · rintro ⟨N'', h1, h2⟩
      simp only [Option.some.injEq] at h1; subst h1
      exact ⟨h2, fun x hx => (hord x hx).2⟩

theorem multisetEq_perm {es : List Exp} {calls calls' : List Call} (hp : calls.Perm calls') :
    MultisetEq es calls ↔ MultisetEq es calls' := by
  simp only [MultisetEq, demand]
  constructor
  · rintro ⟨h1, h2⟩
    exact ⟨fun c hc => h1 c (hp.mem_iff.mpr hc), fun e he => by rw [← hp.countP_eq]; exact h2 e he⟩
  · rintro ⟨h1, h2⟩
    exact ⟨fun c hc => h1 c (hp.mem_iff.mp hc), fun e he => by rw [hp.countP_eq]; exact h2 e he⟩

/-- **verdict_order_independent.** Any reordering of the actual calls has the same verdict. -/
theorem verdict_order_independent (es : List Exp) (k : Nat) (calls calls' : List Call)
    (h : Hyp es calls) (hp : calls.Perm calls')
    (hcap : ∀ e ∈ es, e.actual ≤ e.expected) (hno : NoOrder es) :
    run es k calls = none ↔ run es k calls' = none := by
  have h' : Hyp es calls' := ⟨h.clean, h.plain, h.unamb, h.wfe, fun c hc => h.wfc c (hp.mem_iff.mpr hc)⟩
  rw [verdict_iff_multiset_eq es k calls h hcap hno, verdict_iff_multiset_eq es k calls' h' hcap hno]
  exact multisetEq_perm hp

/-- **strict_verdict_iff_sequence_eq.** With strict ordering (every expectation carries the order
    window `expectNCalls` gave it, per `MockSupport` object, i.e. per scope) the scenario passes
    iff the calls are, one after the other, exactly the declared calls in declaration order with
    their multiplicities. -/
theorem strict_verdict_iff_sequence_eq (es : List Exp) (k : Nat) (calls : List Call) (h : Hyp es calls)
    (hw : windowsFrom k es) : run es k calls = none ↔ SeqEq es calls := by
  obtain ⟨r1, r2⟩ := run_refines_consume es k calls h
  have hin : InOrder k (es.map Exp.norm) := inOrder_of_windows _ k (windowsFrom_norm es k hw)
  have key := strict_core calls (es.map Exp.norm) k hin
  rw [expandInOrder_norm, seqFits_norm] at key
  unfold SeqEq
  rw [← key]
  cases hc : consumeAll (es.map Exp.norm) k calls with
  | none =>
    have := r2 hc
    constructor
    · intro h'; exact absurd h' this
    · rintro ⟨_, h', _⟩; cases h'
  | some N' =>
    rw [r1 N' hc]
    constructor
    · intro h'; exact ⟨N', rfl, h'⟩
    · rintro ⟨N'', h1, h2⟩
      simp only [Option.some.injEq] at h1; subst h1; exact h2

/-- **first_deviation_diagnosis (one call).** The failure a call reports — or none — is
    `Spec.diagnose`, which is computed from the signature sets only: no expectation of that name
    with capacity → unexpected call / unexpected additional n-th call; the first step after which
    no expectation with capacity is compatible with the steps made so far → unexpected parameter
    name / value, unexpected output parameter, unexpected object; all steps accepted but no
    expectation has exactly this signature → missing parameter, or missing object. -/
theorem first_deviation_diagnosis (es : List Exp) (c : Call) (k : Nat) (buf : List UInt8)
    (hclean : Clean es) (hplain : Plain es) (hun : Unambiguous es) (hwfe : ∀ e ∈ es, WFExp e) (hwf : WFCall c) :
    (callFull es k c.name c.segs buf).fail = diagnose es c :=
  callFull_diagnose k buf hclean hplain hun hwfe hwf

/-- **first_deviation_diagnosis (whole run).** The code's verdict is the specification run: the
    test fails at the first call whose diagnosis is not `none`, once, with exactly that
    diagnosis (calls after it are never looked at); if every call is fulfilled, the end-of-test
    check decides (unfulfilled expectations first, then out-of-order calls). -/
theorem run_is_specRun (es : List Exp) (k : Nat) (calls : List Call) (h : Hyp es calls) :
    run es k calls = specRun (es.map Exp.norm) k calls :=
  run_eq_specRun calls es k h.clean h.plain h.unamb h.wfe h.wfc

/-- the diagnosis is `none` exactly for the calls that are fulfilled -/
theorem diagnose_none_iff (es : List Exp) (c : Call)
    (hclean : Clean es) (hplain : Plain es) (hun : Unambiguous es) (hwfe : ∀ e ∈ es, WFExp e) (hwf : WFCall c) :
    diagnose es c = none ↔ ∃ e ∈ es, e.canMatch = true ∧ fits e c = true := by
  rw [← first_deviation_diagnosis es c 0 [] hclean hplain hun hwfe hwf]
  exact (call_succeeds_iff es c 0 [] hclean hplain hun hwfe hwf).1

/-! ### every class, also `ignoreOtherParameters` and ambiguous sets -/

/-- **no_stale_matching_state.** Whatever the expectations are (also with
    `ignoreOtherParameters`, also ambiguous) and whatever the steps of the call: a call that
    reports no failure leaves every expectation with clean matching flags — the consumed one, the
    candidates that were not consumed, and the ones dropped on the way.  (This is what the two
    defects of this code area broke: marks surviving on dropped, resp. on non-consumed
    candidates let a later call pass without a required parameter.) -/
theorem no_stale_matching_state (es : List Exp) (k : Nat) (n : String) (segs : List Seg) (buf : List UInt8)
    (hclean : Clean es) (hf : (callFull es k n segs buf).fail = none) : Clean (callFull es k n segs buf).es :=
  callFull_clean es k n segs buf hclean hf

/-- hence every call of a run starts from clean flags -/
theorem calls_leave_clean : ∀ (calls : List Call) (es : List Exp) (k : Nat) (es' : List Exp),
    Clean es → afterCalls es k calls = some es' → Clean es'
  | [], es, k, es', h, ha => by
    simp only [afterCalls, Option.some.injEq] at ha; subst ha; exact h
  | c :: rest, es, k, es', h, ha => by
    simp only [afterCalls] at ha
    cases hf : (callFull es (k + 1) c.name c.segs bufInit).fail with
    | some m => rw [hf] at ha; cases ha
    | none =>
      rw [hf] at ha
      exact calls_leave_clean rest _ (k + 1) es' (callFull_clean es (k + 1) c.name c.segs bufInit h hf) ha

/-- The full-strength statement for the ignore-other-parameters class (textbook reading: a call
    matches such an expectation iff name/object agree and every parameter it names occurs in the
    call with an equal value, extra parameters allowed; for sets that are unambiguous in that
    sense the scenario passes iff the calls can be assigned one-to-one to the expected units —
    a count per class).  Plain expectations and expectations that ignore other parameters may be
    mixed.  Proved below (`iop_verdict_iff_multiset_eq`). -/
def iop_verdict_iff_multiset_eq_full : Prop :=
  ∀ (es : List Exp) (k : Nat) (calls : List Call),
    Clean es → UnambiguousI es → (∀ e ∈ es, WFExp e) → (∀ c ∈ calls, WFCall c) →
    (∀ e ∈ es, e.actual ≤ e.expected) → NoOrder es →
    (run es k calls = none ↔ MultisetEqI es calls)

/-- **call_succeeds_iff, every class.** Also with `ignoreOtherParameters` (whose match is only
    taken when the call is finished): a call made with clean flags is fulfilled iff some
    expectation with capacity matches it, it consumes the first such in declaration order and
    returns its value. -/
theorem call_succeeds_iff_general (es : List Exp) (c : Call) (k : Nat) (buf : List UInt8)
    (hclean : Clean es) (hun : UnambiguousI es) (hwfe : ∀ e ∈ es, WFExp e) (hwf : WFCall c) :
    (es.any (wants c) = true →
      (callFull es k c.name c.segs buf).fail = none ∧
      (callFull es k c.name c.segs buf).es.map Exp.norm = modifyFirst (wants c) (fun e => e.bump k) (es.map Exp.norm) ∧
      ∃ x, (es.map Exp.norm).find? (wants c) = some x ∧ returnValueOf (callFull es k c.name c.segs buf).es = x.ret) ∧
    (es.any (wants c) = false → (callFull es k c.name c.segs buf).fail ≠ none) :=
  callFull_specI k buf hclean hun hwfe hwf

/-- **iop_verdict_iff_multiset_eq.** The verdict theorem for every unambiguous expectation set,
    with or without `ignoreOtherParameters`. -/
theorem iop_verdict_iff_multiset_eq : iop_verdict_iff_multiset_eq_full := by
  intro es k calls hclean hun hwfe hwfc hcap hno
  obtain ⟨r1, r2⟩ := run_refinesI calls es k hclean hun hwfe hwfc
  have hnn : (es.map Exp.norm).map Exp.norm = es.map Exp.norm := by
    simp [List.map_map, Function.comp_def, norm_norm]
  have hN2 : UnambiguousI (es.map Exp.norm) := unambiguous_transferI hnn hun
  have hN3 : ∀ e ∈ es.map Exp.norm, WFExp e := wfexp_transfer hnn hwfe
  have hN4 : ∀ e ∈ es.map Exp.norm, e.actual ≤ e.expected := by
    intro e he; simp only [List.mem_map] at he; obtain ⟨x, hx, rfl⟩ := he; exact hcap x hx
  have hN5 : NoOrder (es.map Exp.norm) := by
    intro e he; simp only [List.mem_map] at he; obtain ⟨x, hx, rfl⟩ := he; exact hno x hx
  have key := consumeAll_full_iffI calls (es.map Exp.norm) k hN2 hN3 hN4
  rw [multisetEq_normI] at key
  rw [← key]
  cases hc : consumeAll (es.map Exp.norm) k calls with
  | none =>
    have := r2 hc
    constructor
    · intro h'; exact absurd h' this
    · rintro ⟨_, h', _⟩; cases h'
  | some N' =>
    rw [r1 N' hc, endCheck_none_iff]
    have hord := noOrder_consumeAll calls _ k N' hN5 hc
    constructor
    · intro h'; exact ⟨N', rfl, h'.1⟩
    · rintro ⟨N'', h1, h2⟩
      simp only [Option.some.injEq] at h1; subst h1
      exact ⟨h2, fun x hx => (hord x hx).2⟩

/-- strict order, every class -/
theorem strict_verdict_iff_sequence_eq_general (es : List Exp) (k : Nat) (calls : List Call)
    (hclean : Clean es) (hun : UnambiguousI es) (hwfe : ∀ e ∈ es, WFExp e) (hwfc : ∀ c ∈ calls, WFCall c)
    (hw : windowsFrom k es) : run es k calls = none ↔ SeqEq es calls := by
  obtain ⟨r1, r2⟩ := run_refinesI calls es k hclean hun hwfe hwfc
  have hin : InOrder k (es.map Exp.norm) := inOrder_of_windows _ k (windowsFrom_norm es k hw)
  have key := strict_core calls (es.map Exp.norm) k hin
  rw [expandInOrder_norm, seqFits_norm] at key
  unfold SeqEq
  rw [← key]
  cases hc : consumeAll (es.map Exp.norm) k calls with
  | none =>
    have := r2 hc
    constructor
    · intro h'; exact absurd h' this
    · rintro ⟨_, h', _⟩; cases h'
  | some N' =>
    rw [r1 N' hc]
    constructor
    · intro h'; exact ⟨N', rfl, h'⟩
    · rintro ⟨N'', h1, h2⟩
      simp only [Option.some.injEq] at h1; subst h1; exact h2

/-- the verdict theorem for lazily finished calls, every class, with or without `ignoreOtherCalls` -/
theorem lazy_iop_verdict_iff_multiset_eq (sc : Scope) (stmts : List Stmt)
    (hname : sc.name = "") (hen : sc.enabled = true) (hlast : sc.last = none)
    (hclean : Clean sc.es) (hun : UnambiguousI sc.es) (hwfe : ∀ e ∈ sc.es, WFExp e)
    (hwfc : ∀ c ∈ stmts.map (·.call), WFCall c)
    (hcap : ∀ e ∈ sc.es, e.actual ≤ e.expected) (hno : NoOrder sc.es) :
    sc.lazyVerdict stmts = none ↔
      MultisetEqI sc.es (if sc.ioc then knownCalls sc.es (stmts.map (·.call)) else stmts.map (·.call)) := by
  rw [lazyVerdict_eq stmts sc hname hen]
  simp only [Scope.settledFail, Scope.settledEs, hlast]
  cases hi : sc.ioc with
  | false =>
    simp only [runG_false, Bool.false_eq_true, if_false]
    exact iop_verdict_iff_multiset_eq sc.es sc.actualOrder _ hclean hun hwfe hwfc hcap hno
  | true =>
    simp only [runG_true_eq, if_true]
    exact iop_verdict_iff_multiset_eq sc.es sc.actualOrder _ hclean hun hwfe
      (fun c hc => hwfc c (by simp only [knownCalls, List.mem_filter] at hc; exact hc.1)) hcap hno

/-! ### the runs of the theorems are what the driver's per-scope functions compute -/

/-- **model glue (calls).** `callFull` — the call statement all theorems talk about — is what the
    scope-level functions used by the correspondence driver compute (`Scope.actualCall`, the steps
    through `Scope.seg`, the finishing `Scope.checkLast`), on a `MockSupport` that is enabled, does
    not ignore the function, and has no call in flight: same failure, and same expectation list
    when the call does not fail; the call gets order number `actualCallOrder_ + 1`. -/
theorem scope_call_is_callFull (sc : Scope) (fn : String) (segs : List Seg) (buf : List UInt8)
    (hlast : sc.last = none) (hen : sc.enabled = true) (hioc : sc.ioc = false) :
    (sc.callNow fn segs buf).2 = (callFull sc.es (sc.actualOrder + 1) (sc.fullName fn) segs buf).fail ∧
    ((sc.callNow fn segs buf).2 = none →
      (sc.callNow fn segs buf).1.es = (callFull sc.es (sc.actualOrder + 1) (sc.fullName fn) segs buf).es ∧
      (sc.callNow fn segs buf).1.actualOrder = sc.actualOrder + 1) :=
  scope_callNow_is_callFull sc fn segs buf hlast hen hioc

/-- **model glue (end of test).** `mock().checkExpectations()` on the global mock alone, with no
    call in flight, is `endCheck`. -/
theorem check_is_endCheck (sc : Scope) (hname : sc.name = "") (hlast : sc.last = none) :
    (World.check { glob := sc, subs := [] } "").2 = endCheck sc.es :=
  world_check_is_endCheck sc hname hlast

/-! ### lazily finished calls, `ignoreOtherCalls`, several scopes -/

/-- **lazy_run_is_eager.** On a `MockSupport` (here the global mock, enabled) the run as the API
    performs it — a call stays in flight until the next `actualCall`, the return-value getter or
    `checkExpectations` finishes it; with `ignoreOtherCalls` calls to functions without an
    expectation are skipped — has exactly the verdict of the eager run `runG` in which every
    call is finished before the next statement.  For EVERY expectation list, whatever its class. -/
theorem lazy_run_is_eager (sc : Scope) (stmts : List Stmt) (hname : sc.name = "") (hen : sc.enabled = true) :
    sc.lazyVerdict stmts =
      match sc.settledFail with
      | some f => some f
      | none => runG sc.ioc sc.settledEs sc.actualOrder (stmts.map (·.call)) :=
  lazyVerdict_eq stmts sc hname hen

/-- **lazy_verdict_iff_multiset_eq.** Hence the verdict theorem holds for lazily finished calls:
    a fresh global mock without `ignoreOtherCalls`, plain unambiguous expectations. -/
theorem lazy_verdict_iff_multiset_eq (sc : Scope) (stmts : List Stmt)
    (hname : sc.name = "") (hen : sc.enabled = true) (hioc : sc.ioc = false) (hlast : sc.last = none)
    (h : Hyp sc.es (stmts.map (·.call))) (hcap : ∀ e ∈ sc.es, e.actual ≤ e.expected) (hno : NoOrder sc.es) :
    sc.lazyVerdict stmts = none ↔ MultisetEq sc.es (stmts.map (·.call)) := by
  rw [lazy_run_is_eager sc stmts hname hen]
  simp only [Scope.settledFail, Scope.settledEs, hlast, hioc, runG_false]
  exact verdict_iff_multiset_eq sc.es sc.actualOrder _ h hcap hno

/-- the same with strict order -/
theorem lazy_strict_verdict_iff_sequence_eq (sc : Scope) (stmts : List Stmt)
    (hname : sc.name = "") (hen : sc.enabled = true) (hioc : sc.ioc = false) (hlast : sc.last = none)
    (h : Hyp sc.es (stmts.map (·.call))) (hw : windowsFrom sc.actualOrder sc.es) :
    sc.lazyVerdict stmts = none ↔ SeqEq sc.es (stmts.map (·.call)) := by
  rw [lazy_run_is_eager sc stmts hname hen]
  simp only [Scope.settledFail, Scope.settledEs, hlast, hioc, runG_false]
  exact strict_verdict_iff_sequence_eq sc.es sc.actualOrder _ h hw

/-- **ioc_verdict_iff_multiset_eq (partial: plain class).** With `ignoreOtherCalls` the scenario
    passes iff the multiset of the calls to functions that some expectation names equals the
    expected multiset; calls to other functions do not matter (they are not even numbered). -/
theorem ioc_verdict_iff_multiset_eq_partial (sc : Scope) (stmts : List Stmt)
    (hname : sc.name = "") (hen : sc.enabled = true) (hioc : sc.ioc = true) (hlast : sc.last = none)
    (h : Hyp sc.es (knownCalls sc.es (stmts.map (·.call)))) (hcap : ∀ e ∈ sc.es, e.actual ≤ e.expected) (hno : NoOrder sc.es) :
    sc.lazyVerdict stmts = none ↔ MultisetEq sc.es (knownCalls sc.es (stmts.map (·.call))) := by
  rw [lazy_run_is_eager sc stmts hname hen]
  simp only [Scope.settledFail, Scope.settledEs, hlast, hioc, runG_true_eq]
  exact verdict_iff_multiset_eq sc.es sc.actualOrder _ h hcap hno

/-- **check_over_scopes.** `mock().checkExpectations()` finishes the calls in flight of the global
    mock and of every named scope, then fails iff ANY of them has an unfulfilled expectation (else
    iff any has an out-of-order call). -/
theorem checkExpectations_over_scopes (w : World) :
    (w.check "").2 =
      match firstPendingFail (w.glob :: w.subs) with
      | some f => some f
      | none => endCheck w.allSettledEs :=
  check_over_scopes w

/-- `mock().expectedCallsLeft()` is true iff ANY scope has an unfulfilled expectation -/
theorem expectedCallsLeft_over_scopes (w : World) (h : firstPendingFail (w.glob :: w.subs) = none) :
    (w.left "").2.1 = none ∧ (w.left "").2.2 = w.allSettledEs.any (fun e => !e.isFulfilled) :=
  left_over_scopes w h

/-- an unfulfilled expectation in any scope — global or named, first or last — fails the check -/
theorem unfulfilled_in_any_scope_fails (w : World) (sc : Scope) (e : Exp)
    (hpend : firstPendingFail (w.glob :: w.subs) = none)
    (hsc : sc ∈ w.glob :: w.subs) (he : e ∈ sc.settledEs) (hopen : e.actual ≠ e.expected) :
    (w.check "").2 = some msgUnfulfilled := by
  rw [checkExpectations_over_scopes, hpend]
  have : w.allSettledEs.any (fun x => !x.isFulfilled) = true := by
    simp only [List.any_eq_true, World.allSettledEs, List.mem_flatMap]
    exact ⟨e, ⟨sc, hsc, he⟩, by simp [Exp.isFulfilled, hopen]⟩
  simp [endCheck, this]

/-! ### the expectation history of the failure text (beyond the first line) -/

/-- **history_partition.** Every expectation handed to a failure is listed exactly once: in the
    section "EXPECTED calls that WERE NOT fulfilled" or in "EXPECTED calls that WERE fulfilled". -/
theorem history_partition (es : List Exp) : (unfulfilledOf es ++ fulfilledOf es).Perm es := by
  unfold unfulfilledOf fulfilledOf
  have h := List.filter_append_perm (fun e : Exp => e.isFulfilled) es
  refine (List.perm_append_comm).trans ?_
  simpa using h

/-- **unfulfilled_section_exact.** The "WERE NOT fulfilled" section lists exactly the expectations
    whose call counter differs from the expected count, in declaration order; the "WERE fulfilled"
    section exactly the others. -/
theorem unfulfilled_section_exact (es : List Exp) :
    (∀ e, e ∈ unfulfilledOf es ↔ e ∈ es ∧ e.actual ≠ e.expected) ∧
    (∀ e, e ∈ fulfilledOf es ↔ e ∈ es ∧ e.actual = e.expected) ∧
    (unfulfilledOf es).Sublist es ∧ (fulfilledOf es).Sublist es := by
  refine ⟨fun e => ?_, fun e => ?_, List.filter_sublist, List.filter_sublist⟩
  · simp [unfulfilledOf, Exp.isFulfilled]
  · simp [fulfilledOf, Exp.isFulfilled]

/-- **unfulfilled_failure_iff_section_nonempty.** The end-of-test check reports "Expected call WAS
    NOT fulfilled" exactly when its "WERE NOT fulfilled" section is not empty (it never prints
    that failure with `<none>` in the section, and never omits it when something is open). -/
theorem unfulfilled_failure_iff_section_nonempty (es : List Exp) :
    endCheck es = some msgUnfulfilled ↔ unfulfilledOf es ≠ [] := by
  have hne : msgOutOfOrder ≠ msgUnfulfilled := by decide
  unfold endCheck unfulfilledOf
  cases h : es.any (fun e => !e.isFulfilled) with
  | true =>
    simp only [if_true, true_iff]
    intro h0
    rw [List.any_eq_true] at h
    obtain ⟨x, hx, hp⟩ := h
    have : x ∈ es.filter (fun e => !e.isFulfilled) := List.mem_filter.mpr ⟨hx, hp⟩
    rw [h0] at this; cases this
  | false =>
    have hnil : es.filter (fun e => !e.isFulfilled) = [] := by
      rw [List.filter_eq_nil_iff]
      intro a ha hp
      have : es.any (fun e => !e.isFulfilled) = true := List.any_eq_true.mpr ⟨a, ha, hp⟩
      rw [h] at this; cases this
    simp only [Bool.false_eq_true, if_false, hnil, ne_eq, not_true_eq_false, iff_false]
    split
    · intro h'; exact hne (Option.some.inj h')
    · intro h'; cases h'

/-- the related-to history only lists expectations of the function the failing call was made to -/
theorem related_history_is_about_the_function (fn : String) (es : List Exp) :
    (∀ e ∈ unfulfilledOf (relatedTo fn es) ++ fulfilledOf (relatedTo fn es), e.name = fn ∧ e ∈ es) ∧
    (unfulfilledOf (relatedTo fn es) ++ fulfilledOf (relatedTo fn es)).Perm (es.filter (fun e => e.name == fn)) := by
  refine ⟨fun e he => ?_, history_partition _⟩
  have := (history_partition (relatedTo fn es)).mem_iff.mp he
  simp only [relatedTo, List.mem_filter, beq_iff_eq] at this
  exact ⟨this.2, this.1⟩

theorem isFulfilled_norm (e : Exp) : e.norm.isFulfilled = e.isFulfilled := rfl

theorem entry_norm (e : Exp) : e.norm.entry = e.entry := by
  have h1 : (e.ins.map (fun p => ({ p with passed := false } : Param))).map (·.name) = e.ins.map (·.name) := by
    simp [List.map_map, Function.comp_def]
  have h2 : (e.outs.map (fun p => ({ p with passed := false } : OutParam))).map (·.name) = e.outs.map (·.name) := by
    simp [List.map_map, Function.comp_def]
  show Exp.entry { e.reset with cand := false, isMatch := false } = e.entry
  unfold Exp.entry Exp.reset
  simp only [h1, h2]

theorem unfulfilledOf_norm (es : List Exp) : unfulfilledOf (es.map Exp.norm) = (unfulfilledOf es).map Exp.norm := by
  simp [unfulfilledOf, List.filter_map, Function.comp_def, isFulfilled_norm]

theorem fulfilledOf_norm (es : List Exp) : fulfilledOf (es.map Exp.norm) = (fulfilledOf es).map Exp.norm := by
  simp [fulfilledOf, List.filter_map, Function.comp_def, isFulfilled_norm]

theorem sectionLines_norm (sec : String) (es : List Exp) : sectionLines sec (es.map Exp.norm) = sectionLines sec es := by
  simp [sectionLines, orNone, List.map_map, Function.comp_def, entry_norm]

/-- the text of the history does not depend on the matching flags of the call in flight -/
theorem historyAll_norm (es : List Exp) : historyAll (es.map Exp.norm) = historyAll es := by
  simp only [historyAll, unfulfilledOf_norm, fulfilledOf_norm, sectionLines_norm]

/-- **afterCalls_refines_consume.** The expectation list the code is left with after a sequence of
    calls that all succeed is, up to the per-call matching flags, the abstract consumption of the
    calls (every class, any length). -/
theorem afterCalls_refines_consume : ∀ (calls : List Call) (es : List Exp) (k : Nat) (fin : List Exp),
    Clean es → UnambiguousI es → (∀ e ∈ es, WFExp e) → (∀ c ∈ calls, WFCall c) →
    afterCalls es k calls = some fin → consumeAll (es.map Exp.norm) k calls = some (fin.map Exp.norm)
  | [], es, k, fin, _, _, _, _, h => by
    simp only [afterCalls, Option.some.injEq] at h; subst h; rfl
  | c :: rest, es, k, fin, hclean, hun, hwfe, hwfc, h => by
    obtain ⟨s1, s2⟩ := callFull_specI (c := c) (k + 1) bufInit hclean hun hwfe (hwfc c (by simp))
    simp only [afterCalls] at h
    simp only [consumeAll, consume, any_wants_norm]
    cases hany : es.any (wants c) with
    | false =>
      have hf := s2 hany
      cases hff : (callFull es (k + 1) c.name c.segs bufInit).fail with
      | none => exact absurd hff hf
      | some m => rw [hff] at h; cases h
    | true =>
      obtain ⟨t1, t2, _⟩ := s1 hany
      have t3 := callFull_clean es (k + 1) c.name c.segs bufInit hclean t1
      rw [t1] at h
      simp only [if_true]
      have hcomm : modifyFirst (wants c) (fun e => e.bump (k + 1)) (es.map Exp.norm)
          = (modifyFirst (wants c) (fun e => e.bump (k + 1)) es).map Exp.norm :=
        (modifyFirst_map_comm (wants c) (fun e => e.bump (k + 1)) Exp.norm (wants_norm c) (fun e => norm_bump e (k + 1)) es).symm
      have hnorm : (callFull es (k + 1) c.name c.segs bufInit).es.map Exp.norm
          = (modifyFirst (wants c) (fun e => e.bump (k + 1)) es).map Exp.norm := by rw [t2, hcomm]
      have ih := afterCalls_refines_consume rest (callFull es (k + 1) c.name c.segs bufInit).es (k + 1) fin t3
        (unambiguous_transferI hnorm (unambiguous_bumpI hun))
        (wfexp_transfer hnorm (wfexp_bump hwfe))
        (fun c' hc' => hwfc c' (by simp [hc'])) h
      rw [t2] at ih
      exact ih

/-- **end_of_test_history_is_unconsumed_capacity.** For every unambiguous expectation set (plain or
    ignoring other parameters) and every sequence of calls that are all fulfilled: the expectation
    history the end-of-test failure prints — both sections, every entry with its name, object, order
    window, parameter names and its two counters — is the history of the ABSTRACT state `consumeAll`
    (each call used up one unit of the first expectation with capacity and its signature): the
    "WERE NOT fulfilled" section lists exactly the expectations with capacity left, in declaration order. -/
theorem end_of_test_history_is_unconsumed_capacity (es : List Exp) (k : Nat) (calls : List Call) (fin : List Exp)
    (hclean : Clean es) (hun : UnambiguousI es) (hwfe : ∀ e ∈ es, WFExp e) (hwfc : ∀ c ∈ calls, WFCall c)
    (h : afterCalls es k calls = some fin) :
    ∃ es', consumeAll (es.map Exp.norm) k calls = some es' ∧ historyAll fin = historyAll es' ∧
      (unfulfilledOf fin).map Exp.norm = es'.filter (fun e => decide (e.actual ≠ e.expected)) := by
  refine ⟨fin.map Exp.norm, afterCalls_refines_consume calls es k fin hclean hun hwfe hwfc h, (historyAll_norm fin).symm, ?_⟩
  rw [← unfulfilledOf_norm]
  simp [unfulfilledOf, Exp.isFulfilled]

/-! ### parameter values: composition with the C09 value model -/

/-- **param_equal_iff_same_integer.** The matching model stores parameter values in the normal
    form `paramKey` and compares them structurally; for two integer values of any two of the six
    integer types that is exactly `MockNamedValue::equals` (the regenerated `equalsGen`), and both
    hold iff the two values denote the same mathematical integer.  (From C09's `equals_int_iff`;
    an edit of an integer branch of `equals` in the source breaks that obligation and this one.) -/
theorem param_equal_iff_same_integer (a b : MVal) (ha : a.isInt = true) (hb : b.isInt = true) :
    (Gen.MockEquals.equalsGen a b = true ↔ paramKey a = paramKey b) ∧
    (paramKey a = paramKey b ↔ denote? a = denote? b) := by
  have hk : ∀ m : MVal, m.isInt = true → ∃ z, denote? m = some z ∧ paramKey m = Val.int z := by
    intro m hm
    cases m <;> simp [MVal.isInt] at hm <;> exact ⟨_, rfl, rfl⟩
  obtain ⟨x, hx, hxk⟩ := hk a ha
  obtain ⟨y, hy, hyk⟩ := hk b hb
  have h2 : paramKey a = paramKey b ↔ denote? a = denote? b := by
    rw [hxk, hyk, hx, hy]
    constructor
    · intro h; cases h; rfl
    · intro h; cases h; rfl
  exact ⟨(equals_int_iff a b ha hb).trans h2.symm, h2⟩

/-- an integer value never equals a non-integer one, in the code and in the model -/
theorem param_int_ne_nonint (a b : MVal) (hwb : b.WF) (ha : a.isInt = true) (hb : b.isInt = false) :
    Gen.MockEquals.equalsGen a b = false ∧ paramKey a ≠ paramKey b := by
  refine ⟨(equals_int_nonint_false a b hwb ha hb).1, ?_⟩
  have hka : ∃ z, paramKey a = Val.int z := by
    cases a <;> simp [MVal.isInt] at ha <;> exact ⟨_, rfl⟩
  obtain ⟨z, hz⟩ := hka
  rw [hz]
  cases b <;> simp [MVal.isInt] at hb <;> simp [paramKey, denote?]

/-! ### tests run with `MockSupportPlugin` -/

/-- the plugin's post action leaves the global mock as new -/
theorem pluginPost_world (r : BodyResult) (h : r.w.glob.name = "") : (pluginPost r).2 = World.init := by
  simp [pluginPost, World.clear, World.touch, Scope.clear, World.init, h]

/-- **plugin_verdict_is_scenario_verdict.** In a run of any number of tests with `MockSupportPlugin`
    installed, the failures of a test are exactly those of its own scenario on a fresh mock, followed
    — if the test has not failed itself — by those of `mock().checkExpectations()`: the verdict of
    a test does not depend on the tests before it, whether they passed or failed. -/
theorem plugin_verdict_is_scenario_verdict :
    ∀ (bodies : List (World → BodyResult)),
      (∀ b ∈ bodies, ∀ w, w.glob.name = "" → (b w).w.glob.name = "") →
      pluginRun bodies World.init = bodies.map (fun b => testVerdict b World.init)
  | [], _ => rfl
  | b :: rest, h => by
    have hb := h b (by simp) World.init rfl
    simp only [pluginRun, List.map_cons]
    rw [pluginPost_world (b World.init) hb]
    rw [plugin_verdict_is_scenario_verdict rest (fun b' hb' => h b' (by simp [hb']))]

/-- what a test's verdict is: its body's failures, then the end-of-test check unless the test itself failed -/
theorem testVerdict_eq (body : World → BodyResult) (w : World) :
    testVerdict body w = (body w).msgs ++ (if (body w).failed then [] else (body w).w.checkAllFailures) := rfl

/-- the guard of the end-of-test check in `MockSupportPlugin::postTestAction`, regenerated from the
    source on every run, is the test's OWN state — not a count over the whole run -/
theorem plugin_guard_is_own_test : Gen.MockPlugin.postGuard = "!test.hasFailed()" := by decide

/-! ### the mock verified in `teardown()` with the library's default reporter -/

/-- the body of `MockFailureReporter::failTest`, regenerated from `MockFailure.cpp` on every run: the
    failure is delivered to the test iff the test has not failed yet -/
theorem reporter_guard_is_not_failed_yet :
    Gen.MockReporter.failTestGuard = "!getTestToFail()->hasFailed()" ∧
    ∀ failed, Gen.MockReporter.reports failed = !failed :=
  ⟨by decide, fun _ => rfl⟩

/-- a delivering reporter ends `checkExpectations` at its first finding -/
theorem teardownDelivering_at_most_one (w : World) : (teardownDelivering w).1.length ≤ 1 := by
  unfold teardownDelivering
  split
  · simp
  · split
    · simp
    · split <;> simp

/-- **mock_fails_test_at_most_once.** A test that verifies its mock in `teardown()`
    (`mock().checkExpectations(); mock().clear();`) with the default reporter: if the body was left
    at its first mock failure (`msgs` has at most one entry, and a reported failure means the test has
    failed), the test is failed by the mock at most once over body and teardown — whatever
    `checkExpectations` finds afterwards (unfulfilled expectations, out-of-order calls, a call in
    flight) —, and a test that has already failed gets nothing from the end-of-test check. -/
theorem mock_fails_test_at_most_once (r : BodyResult)
    (h1 : r.msgs.length ≤ 1) (h2 : r.failed = false → r.msgs = []) :
    (r.msgs ++ (teardownPost r).1).length ≤ 1 ∧ (r.failed = true → (teardownPost r).1 = []) := by
  have hsil : r.failed = true → (teardownPost r).1 = [] := by
    intro hf
    simp [teardownPost, teardownPostWith, Gen.MockReporter.reports, hf, teardownSilent]
  refine ⟨?_, hsil⟩
  cases hf : r.failed with
  | true => simp [hsil hf, h1]
  | false =>
    simp only [h2 hf, List.nil_append]
    simp only [teardownPost, teardownPostWith, Gen.MockReporter.reports, hf, Bool.not_false, if_true]
    exact teardownDelivering_at_most_one r.w

/-- the world the seeded scenario leaves: strict order, `first` and `second` expected, called as
    `second`, `first` (out of order, accepted), then the unexpected `third` ended the body -/
def teardownWitness : World :=
  ((((((World.init.strictOrder "").expectN "" 1 "first" []).expectN "" 1 "second" []).call "" "second" [] []).w.call
      "" "first" [] []).w.call "" "third" [] []).w

/-- non-vacuity: on that world the end-of-test check DOES find something (a delivering reporter would
    report "Out of order calls"), the body has reported its one failure, and the teardown adds nothing -/
example :
    ((((((World.init.strictOrder "").expectN "" 1 "first" []).expectN "" 1 "second" []).call "" "second" [] []).w.call
        "" "first" [] []).w.call "" "third" [] []).fail = some "Mock Failure: Unexpected call to function: third" ∧
    (teardownDelivering teardownWitness).1 = [msgOutOfOrder] ∧
    (teardownPost { w := teardownWitness, failed := true, msgs := ["Mock Failure: Unexpected call to function: third"] }).1 = [] ∧
    (teardownPost { w := teardownWitness, failed := false, msgs := [] }).1 = [msgOutOfOrder] := by
  decide

/-! ### the hypotheses are what the API produces -/

/-- `expectOneCall` / `expectNCalls` / `expectNoCall` with any modifiers leave clean matching
    flags (so `Hyp.clean` holds for every list of declared expectations). -/
theorem expectations_start_clean (sc : Scope) (n : Nat) (fn : String) (segs : List ESeg) (h : Clean sc.es) :
    Clean (sc.expectN n fn segs).es := expectN_clean sc n fn segs h

/-- Under `strictOrder()` the expected units are numbered consecutively in declaration order
    (the hypothesis `windowsFrom` of `strict_verdict_iff_sequence_eq`). -/
theorem strict_numbering (sc : Scope) (k n : Nat) (fn : String) (segs : List ESeg)
    (hs : sc.strict = true) (hen : sc.enabled = true)
    (hw : windowsFrom k sc.es) (ho : sc.expectedOrder = k + totalExpected sc.es) :
    windowsFrom k (sc.expectN n fn segs).es ∧
    (sc.expectN n fn segs).expectedOrder = k + totalExpected (sc.expectN n fn segs).es ∧
    (sc.expectN n fn segs).strict = true ∧ (sc.expectN n fn segs).enabled = true :=
  expectN_windows sc k n fn segs hs hen hw ho

/-! ### the diagnosis texts (regenerated from `MockFailure.cpp` on every run) -/

/-- The first line of every failure is the documented one, so each kind of deviation is reported
    under its own, distinguishable diagnosis (re-checked against the regenerated
    `Gen/MockMessages.lean`: an edit of a message in the source breaks this obligation). -/
theorem diagnosis_texts :
    Gen.MockMsg.unfulfilled = "Mock Failure: Expected call WAS NOT fulfilled." ∧
    Gen.MockMsg.outOfOrder = "Mock Failure: Out of order calls" ∧
    Gen.MockMsg.unexpectedCallPre = "Mock Failure: Unexpected call to function: " ∧
    Gen.MockMsg.additionalPre = "Mock Failure: Unexpected additional (" ∧
    Gen.MockMsg.additionalMid = ") call to function: " ∧
    Gen.MockMsg.paramNamePre = "Mock Failure: Unexpected parameter name to function \"" ∧
    Gen.MockMsg.paramNameMid = "\": " ∧
    Gen.MockMsg.paramValuePre = "Mock Failure: Unexpected parameter value to parameter \"" ∧
    Gen.MockMsg.paramValueMid = "\" to function \"" ∧
    Gen.MockMsg.paramValueEnd = "\"" ∧
    Gen.MockMsg.outNamePre = "Mock Failure: Unexpected output parameter name to function \"" ∧
    Gen.MockMsg.outNameMid = "\": " ∧
    Gen.MockMsg.outTypePre = "Mock Failure: Unexpected parameter type \"" ∧
    Gen.MockMsg.outTypeMid1 = "\" to output parameter \"" ∧
    Gen.MockMsg.outTypeMid2 = "\" to function \"" ∧
    Gen.MockMsg.outTypeEnd = "\"" ∧
    Gen.MockMsg.missingParamPre = "Mock Failure: Expected parameter for function \"" ∧
    Gen.MockMsg.missingParamEnd = "\" did not happen." ∧
    Gen.MockMsg.unexpectedObjectPre = "MockFailure: Function called on an unexpected object: " ∧
    Gen.MockMsg.missingObjectPre = "Mock Failure: Expected call on object for function \"" ∧
    Gen.MockMsg.missingObjectEnd = "\" but it did not happen." := by
  decide

/-! ### the list primitives and expectation predicates are the ones in the source -/

/-- **source_primitives_are_the_model.** Every list primitive of `MockExpectedCallsList` and every
    loop-free query / state change of `MockCheckedExpectedCall` the matching algorithm uses —
    regenerated from the C++ on every run (`Gen/MockLists.lean`) — is the function of the hand-written
    model with which the theorems above are proved (collected from `Proofs/MockGen.lean`). -/
theorem source_primitives_are_the_model (es : List Exp) (e : Exp) (n : String) (v : Val) (o order : Nat) :
    Gen.MockLists.onlyKeepExpectationsRelatedTo n es = es.map (fun e => { e with cand := e.cand && e.name == n }) ∧
    Gen.MockLists.onlyKeepExpectationsWithInputParameter n v es =
      es.map (fun e => if e.cand && !e.hasInput n v then { e.reset with cand := false } else e) ∧
    Gen.MockLists.onlyKeepExpectationsWithOutputParameter n es =
      es.map (fun e => if e.cand && !e.hasOutput n then { e.reset with cand := false } else e) ∧
    Gen.MockLists.onlyKeepExpectationsOnObject o es =
      es.map (fun e => if e.cand && !e.relatesToObject o then { e.reset with cand := false } else e) ∧
    ((∀ x ∈ es, x.isMatch = false) → Gen.MockLists.onlyKeepUnmatchingExpectations es = es.map discardE) ∧
    Gen.MockLists.addPotentiallyMatchingExpectations es = beginCall es ∧
    Gen.MockLists.removeFirstFinalizedMatchingExpectation_result es = es.find? isMF ∧
    Gen.MockLists.removeFirstFinalizedMatchingExpectation_list es = modifyFirst isMF Exp.take es ∧
    Gen.MockLists.getFirstMatchingExpectation_result es = es.find? isM ∧
    Gen.MockLists.removeFirstMatchingExpectation_list es = modifyFirst isM Exp.take es ∧
    Gen.MockLists.resetActualCallMatchingState_all es = resetCands es ∧
    Gen.MockLists.amountOfActualCallsFulfilledFor es n = totalActualFor es n ∧
    Gen.MockLists.hasUnfulfilledExpectations es = es.any (fun e => !e.isFulfilled) ∧
    Gen.MockLists.hasCallsOutOfOrder es = es.any (·.outOfOrder) ∧
    Gen.MockLists.callWasMade e order = e.callWasMade order ∧
    Gen.MockLists.resetActualCallMatchingState e = e.reset ∧
    Gen.MockLists.canMatchActualCalls e = e.canMatch ∧
    Gen.MockLists.isMatchingActualCallAndFinalized e = e.isMatchingFinalized ∧
    Gen.MockLists.unfulfilledCallsSection es = unfulfilledOf es ∧ Gen.MockLists.fulfilledCallsSection es = fulfilledOf es :=
  ⟨gen_onlyKeepExpectationsRelatedTo n es, gen_onlyKeepExpectationsWithInputParameter n v es,
   gen_onlyKeepExpectationsWithOutputParameter n es, gen_onlyKeepExpectationsOnObject o es,
   gen_onlyKeepUnmatchingExpectations es, gen_addPotentiallyMatchingExpectations es,
   (gen_firstFinalizedMatching es).1, (gen_firstFinalizedMatching es).2, (gen_firstMatching es).1, (gen_firstMatching es).2.2,
   (gen_setters es n).1, (gen_queries es n).2.2.2.2.2.2, (gen_queries es n).2.2.1, (gen_queries es n).2.2.2.1,
   gen_callWasMade e order, gen_reset e, gen_canMatchActualCalls e, gen_isMatchingActualCallAndFinalized e,
   (gen_history_sections es n n).1, (gen_history_sections es n n).2.1⟩

/-- the regenerated out-of-order test of `callWasMade`: outside the window `[lo, hi]` of an expectation that has one -/
theorem source_order_window (e : Exp) (order : Nat) :
    Gen.MockLists.outOfOrderCondition e order = true ↔ e.lo ≠ 0 ∧ (order < e.lo ∨ e.hi < order) := by
  rw [gen_outOfOrderCondition]
  simp [bne_iff_ne]

/-- non-vacuity: the regenerated pruning on a concrete candidate list -/
example : (Gen.MockLists.onlyKeepExpectationsWithInputParameter "b" (.int 3) (Gen.MockLists.onlyKeepExpectationsRelatedTo "foo"
    (Gen.MockLists.addPotentiallyMatchingExpectations [(Exp.new "foo" 2 0 0).addSeg (.inp "a" (.int 1)) |>.addSeg (.inp "b" (.int 2)), (Exp.new "foo" 1 0 0).addSeg (.inp "b" (.int 3)), Exp.new "bar" 1 0 0]))).map (·.cand) = [false, true, false] := by decide

/-! ### non-vacuity: concrete scenarios that meet the hypotheses -/

/-- `foo(a=1,b=2)` twice returning 7, `foo(a=1,b=3)` on object 5, `bar(out o)` -/
def exA : Exp := (Exp.new "foo" 2 0 0).addSeg (.inp "a" (.int 1)) |>.addSeg (.inp "b" (.int 2)) |>.addSeg (.ret (.int 7))
def exB : Exp := (Exp.new "foo" 1 0 0).addSeg (.inp "a" (.int 1)) |>.addSeg (.inp "b" (.int 3)) |>.addSeg (.obj 5)
def exC : Exp := (Exp.new "bar" 1 0 0).addSeg (.out "o" [1, 2])
def exEs : List Exp := [exA, exB, exC]
def cA : Call := ⟨"foo", [.inp "b" (.int 2), .inp "a" (.int 1)]⟩
def cB : Call := ⟨"foo", [.inp "a" (.int 1), .obj 5, .inp "b" (.int 3)]⟩
def cC : Call := ⟨"bar", [.out "o"]⟩
/-- a shuffled expansion with parameters in another order than declared -/
def exCalls : List Call := [cB, cA, cC, cA]

example : Hyp exEs exCalls := ⟨by decide, by decide, by decide, by decide, by decide⟩
example : (∀ e ∈ exEs, e.actual ≤ e.expected) ∧ NoOrder exEs := by decide
example : run exEs 0 exCalls = none := by decide                       -- passes …
example : MultisetEq exEs exCalls := by decide                          -- … and the multisets agree
example : run exEs 0 [cB, cA, cC] ≠ none := by decide                   -- a unit is left: fails
example : ¬ MultisetEq exEs [cB, cA, cC] := by decide
example : run exEs 0 [cA, cA, cA] = some "Mock Failure: Unexpected parameter value to parameter \"b\" to function \"foo\"" := by decide
example : returnValueOf (callFull exEs 1 cA.name cA.segs bufInit).es = some (.int 7) := by decide
example : (callFull exEs 1 cC.name cC.segs bufInit).call.bufs = [("o", [1, 2, 0xEE, 0xEE, 0xEE, 0xEE, 0xEE, 0xEE])] := by decide
example : diagnose exEs cA = none := by decide
example : diagnose exEs ⟨"foo", [.inp "a" (.int 1)]⟩ = some "Mock Failure: Expected parameter for function \"foo\" did not happen." := by decide
example : diagnose exEs ⟨"foo", [.inp "a" (.int 1), .inp "c" (.int 1)]⟩ = some "Mock Failure: Unexpected parameter name to function \"foo\": c" := by decide
example : diagnose exEs ⟨"foo", [.inp "a" (.int 1), .inp "b" (.int 3)]⟩ = some "Mock Failure: Expected call on object for function \"foo\" but it did not happen." := by decide
example : diagnose exEs ⟨"foo", [.obj 6, .inp "a" (.int 1), .inp "b" (.int 3)]⟩ = some "Mock Failure: Unexpected parameter value to parameter \"b\" to function \"foo\"" := by decide
example : diagnose exEs ⟨"baz", []⟩ = some "Mock Failure: Unexpected call to function: baz" := by decide

/-- the failure text beyond the first line: `foo(a=1,b=2)` was called once of twice, `bar` not at all -/
def histFin : List Exp := ((afterCalls exEs 0 [cB, cA]).getD [])
example : afterCalls exEs 0 [cB, cA] = some histFin := by decide
example : historyAll histFin =
    ["hist U-section *", "hist U foo o:- w:- in:a,b out:- iop:0 2 1", "hist U bar o:- w:- in:- out:o iop:0 1 0",
     "hist F-section *", "hist F foo o:5 w:- in:a,b out:- iop:0 1 1"] := by decide
example : historyRelated "bar" histFin =
    ["hist U-section bar", "hist U bar o:- w:- in:- out:o iop:0 1 0", "hist F-section bar", "hist F none"] := by decide
example : endCheck histFin = some msgUnfulfilled ∧ unfulfilledOf histFin ≠ [] := by decide
/-- a call without its second parameter: the candidate and what it misses -/
example : historyMissing "foo" (segsFrom (withName { es := beginCall exEs, call := newCall 1, fail := none } "foo") bufInit [.inp "a" (.int 1)]).es =
    ["hist M-section foo", "hist M foo o:- w:- in:a,b out:- iop:0 2 0", "hist m b", "hist M foo o:5 w:- in:a,b out:- iop:0 1 0", "hist m b",
     "hist U-section foo", "hist U foo o:- w:- in:a,b out:- iop:0 2 0", "hist U foo o:5 w:- in:a,b out:- iop:0 1 0",
     "hist F-section foo", "hist F none"] := by decide

/-- twice `foo(a=1)` with other parameters ignored -/
def ioA : Exp := (Exp.new "foo" 1 0 0).addSeg (.inp "a" (.int 1)) |>.addSeg .iop |>.addSeg (.ret (.int 10))
def ioB : Exp := (Exp.new "foo" 1 0 0).addSeg (.inp "a" (.int 1)) |>.addSeg .iop |>.addSeg (.ret (.int 11))
def ioC1 : Call := ⟨"foo", [.inp "a" (.int 1), .inp "x" (.int 7)]⟩
def ioC2 : Call := ⟨"foo", [.inp "x" (.int 8), .inp "a" (.int 1)]⟩
def ioBad : Call := ⟨"foo", [.inp "x" (.int 8)]⟩
example : Clean [ioA, ioB] ∧ UnambiguousI [ioA, ioB] := by decide
example : run [ioA, ioB] 0 [ioC1, ioC2] = none ∧ MultisetEqI [ioA, ioB] [ioC1, ioC2] := by decide
example : run [ioA, ioB] 0 [ioC1, ioBad] = some "Mock Failure: Expected parameter for function \"foo\" did not happen."
    ∧ ¬ MultisetEqI [ioA, ioB] [ioC1, ioBad] := by decide
example : returnValueOf (callFull [ioA, ioB] 1 ioC1.name ioC1.segs bufInit).es = some (.int 10) := by decide

/-- lazily finished calls on a scope built with the API functions; the last call lacks the required parameter -/
def ioScope : Scope := ((Scope.fresh "").expectN 1 "foo" [.inp "a" (.int 1), .iop, .ret (.int 10)]).expectN 1 "foo" [.inp "a" (.int 1), .iop]
example : ioScope.lazyVerdict [⟨ioC1, false⟩, ⟨ioC2, true⟩] = none := by decide
example : ioScope.lazyVerdict [⟨ioC1, false⟩, ⟨ioBad, false⟩] = some "Mock Failure: Expected parameter for function \"foo\" did not happen." := by decide
/-- `ignoreOtherCalls`: the call to `bar` is skipped -/
example : ({ ioScope with ioc := true } : Scope).lazyVerdict [⟨ioC1, false⟩, ⟨⟨"bar", []⟩, true⟩, ⟨ioC2, false⟩] = none := by decide
example : ioScope.lazyVerdict [⟨ioC1, false⟩, ⟨⟨"bar", []⟩, true⟩, ⟨ioC2, false⟩] = some "Mock Failure: Unexpected call to function: bar" := by decide
/-- three scopes; the open expectation sits in the FIRST named scope -/
def scopesW : World :=
  { glob := (Scope.fresh "").expectN 0 "g" [],
    subs := [(Scope.fresh "s1").expectN 1 "f" [], (Scope.fresh "s2").expectN 0 "f" []] }
example : (scopesW.check "").2 = some "Mock Failure: Expected call WAS NOT fulfilled." := by decide
example : (scopesW.left "").2.2 = true := by decide

/-- expected `long` 2^32+5 is not the actual `unsigned` 5, but is the actual `unsigned long long` 2^32+5 -/
example : paramKey (.long (BitVec.ofInt 64 4294967301)) ≠ paramKey (.uint (BitVec.ofInt 32 5)) := by decide
example : paramKey (.long (BitVec.ofInt 64 4294967301)) = paramKey (.ullong (BitVec.ofInt 64 4294967301)) := by decide
example : paramKey (.int (BitVec.ofInt 32 (-1))) ≠ paramKey (.ulong (BitVec.ofInt 64 18446744073709551615)) := by decide

/-- the same expectations declared under `strictOrder()` -/
def sxA : Exp := (Exp.new "foo" 2 1 2).addSeg (.inp "a" (.int 1)) |>.addSeg (.inp "b" (.int 2))
def sxB : Exp := (Exp.new "foo" 1 3 3).addSeg (.inp "a" (.int 1)) |>.addSeg (.inp "b" (.int 3))
example : windowsFrom 0 [sxA, sxB] := ⟨rfl, rfl, rfl, rfl, rfl, rfl, rfl, rfl, trivial⟩
example : Hyp [sxA, sxB] [cA, cA, ⟨"foo", [.inp "a" (.int 1), .inp "b" (.int 3)]⟩] := ⟨by decide, by decide, by decide, by decide, by decide⟩
example : run [sxA, sxB] 0 [cA, cA, ⟨"foo", [.inp "a" (.int 1), .inp "b" (.int 3)]⟩] = none := by decide
example : run [sxA, sxB] 0 [cA, ⟨"foo", [.inp "a" (.int 1), .inp "b" (.int 3)]⟩, cA] = some "Mock Failure: Out of order calls" := by decide

end Mock
